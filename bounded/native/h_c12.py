"""C12 native checks: rewriting a CFF charstring never changes what it draws.

Oracles: (1) an independent Type 2 interpreter written from Adobe Technical Note #5177 that
checks operator arities, records the maximum operand stack depth and produces the path;
(2) T2CharString.draw / glyphSet drawing before and after each rewrite (RecordingPen).
Programs come from the operator grammar (general and specialised forms); fonts from the corpus."""
import io
import itertools
import os

from harness import check, Result
from _common import REPO


# ---------------------------------------------------------------------------------------
# independent Type 2 interpreter (TN5177), path operators + hints + width; no subroutines
# ---------------------------------------------------------------------------------------

class T2Error(Exception):
    pass


HINT_OPS = {"hstem", "vstem", "hstemhm", "vstemhm"}


def t2_run(program, nominal=0, default=0):
    """Returns (width, pen-style path, max stack depth).  Raises T2Error when an operator is
    given an argument count that TN5177 does not allow."""
    stack = []
    depth = 0
    path = []
    cur = [0, 0]
    open_ = [False]
    width = [None]
    nhints = 0
    i = 0

    def take_width(expected_parity_even):
        # first stack-clearing operator: an extra leading argument is the width
        if width[0] is None:
            odd = len(stack) % 2 == 1
            if odd == expected_parity_even:
                width[0] = nominal + stack.pop(0)
            else:
                width[0] = default

    def rel(dx, dy):
        cur[0] += dx
        cur[1] += dy
        return (cur[0], cur[1])

    def close():
        if open_[0]:
            path.append(("closePath", ()))
        open_[0] = False

    def moveto(dx, dy):
        close()
        path.append(("moveTo", (rel(dx, dy),)))
        open_[0] = True

    def lineto(dx, dy):
        if not open_[0]:
            moveto(0, 0)
        path.append(("lineTo", (rel(dx, dy),)))

    def curveto(a, b, c, d, e, f):
        if not open_[0]:
            moveto(0, 0)
        p1 = rel(a, b)
        p2 = rel(c, d)
        p3 = rel(e, f)
        path.append(("curveTo", (p1, p2, p3)))

    def need(cond, op):
        if not cond:
            raise T2Error("%s with %d arguments %r" % (op, len(stack), stack))

    n = len(program)
    while i < n:
        tok = program[i]
        i += 1
        if not isinstance(tok, str):
            stack.append(tok)
            depth = max(depth, len(stack))
            continue
        op = tok
        if op in HINT_OPS:
            take_width(True)
            need(len(stack) >= 2 and len(stack) % 2 == 0, op)
            nhints += len(stack) // 2
        elif op in ("hintmask", "cntrmask"):
            take_width(True)
            need(len(stack) % 2 == 0, op)
            nhints += len(stack) // 2
            mask = program[i]
            i += 1
            if not isinstance(mask, bytes) or len(mask) != (nhints + 7) // 8:
                raise T2Error("%s mask %r for %d hints" % (op, mask, nhints))
        elif op == "rmoveto":
            take_width(True)
            need(len(stack) == 2, op)
            moveto(*stack)
        elif op == "hmoveto":
            take_width(False)
            need(len(stack) == 1, op)
            moveto(stack[0], 0)
        elif op == "vmoveto":
            take_width(False)
            need(len(stack) == 1, op)
            moveto(0, stack[0])
        elif op == "endchar":
            take_width(True)
            need(len(stack) == 0, op)
            close()
            stack = []
            break
        elif op == "rlineto":
            need(len(stack) >= 2 and len(stack) % 2 == 0, op)
            for k in range(0, len(stack), 2):
                lineto(stack[k], stack[k + 1])
        elif op in ("hlineto", "vlineto"):
            need(len(stack) >= 1, op)
            horiz = op == "hlineto"
            for v in stack:
                lineto(v, 0) if horiz else lineto(0, v)
                horiz = not horiz
        elif op == "rrcurveto":
            need(len(stack) >= 6 and len(stack) % 6 == 0, op)
            for k in range(0, len(stack), 6):
                curveto(*stack[k:k + 6])
        elif op == "rcurveline":
            need(len(stack) >= 8 and len(stack) % 6 == 2, op)
            for k in range(0, len(stack) - 2, 6):
                curveto(*stack[k:k + 6])
            lineto(*stack[-2:])
        elif op == "rlinecurve":
            need(len(stack) >= 8 and len(stack) % 2 == 0, op)
            for k in range(0, len(stack) - 6, 2):
                lineto(stack[k], stack[k + 1])
            curveto(*stack[-6:])
        elif op in ("hhcurveto", "vvcurveto"):
            need(len(stack) >= 4 and len(stack) % 4 in (0, 1), op)
            a = list(stack)
            first = a.pop(0) if len(a) % 4 == 1 else 0
            for k in range(0, len(a), 4):
                if op == "hhcurveto":
                    curveto(a[k], first, a[k + 1], a[k + 2], a[k + 3], 0)
                else:
                    curveto(first, a[k], a[k + 1], a[k + 2], 0, a[k + 3])
                first = 0
        elif op in ("hvcurveto", "vhcurveto"):
            need(len(stack) >= 4 and len(stack) % 8 in (0, 1, 4, 5), op)
            a = list(stack)
            horiz = op == "hvcurveto"
            while a:
                last = a[4] if len(a) == 5 else 0
                if horiz:
                    curveto(a[0], 0, a[1], a[2], last, a[3])
                else:
                    curveto(0, a[0], a[1], a[2], a[3], last)
                a = a[5:] if len(a) == 5 else a[4:]
                horiz = not horiz
        elif op == "flex":
            need(len(stack) == 13, op)
            curveto(*stack[0:6])
            curveto(*stack[6:12])
        elif op == "hflex":
            need(len(stack) == 7, op)
            dx1, dx2, dy2, dx3, dx4, dx5, dx6 = stack
            curveto(dx1, 0, dx2, dy2, dx3, 0)
            curveto(dx4, 0, dx5, -dy2, dx6, 0)
        elif op == "hflex1":
            need(len(stack) == 9, op)
            dx1, dy1, dx2, dy2, dx3, dx4, dx5, dy5, dx6 = stack
            curveto(dx1, dy1, dx2, dy2, dx3, 0)
            curveto(dx4, 0, dx5, dy5, dx6, -(dy1 + dy2 + dy5))
        elif op == "flex1":
            need(len(stack) == 11, op)
            dx1, dy1, dx2, dy2, dx3, dy3, dx4, dy4, dx5, dy5, d6 = stack
            dx = dx1 + dx2 + dx3 + dx4 + dx5
            dy = dy1 + dy2 + dy3 + dy4 + dy5
            curveto(dx1, dy1, dx2, dy2, dx3, dy3)
            if abs(dx) > abs(dy):
                curveto(dx4, dy4, dx5, dy5, d6, -dy)
            else:
                curveto(dx4, dy4, dx5, dy5, -dx, d6)
        else:
            raise T2Error("operator %r not in the path/hint grammar" % op)
        stack = []
    if stack:
        raise T2Error("operands %r left on the stack" % stack)
    close()
    return width[0], path, depth


class Priv:
    """the two width fields draw() needs; no Subrs"""

    def __init__(self, nominal=0, default=0):
        self.nominalWidthX = nominal
        self.defaultWidthX = default
        self.in_cff2 = False


def real_draw(program, nominal=0, default=0):
    from fontTools.misc.psCharStrings import T2CharString
    from fontTools.pens.recordingPen import RecordingPen

    cs = T2CharString(program=list(program), private=Priv(nominal, default))
    pen = RecordingPen()
    cs.draw(pen)
    return cs.width, pen.value


def contours(path):
    out = []
    for op, args in path:
        if op == "moveTo":
            out.append([args[0], []])
        elif op == "lineTo":
            out[-1][1].append(("l", args[0]))
        elif op == "curveTo":
            out[-1][1].append(("c",) + tuple(args))
    return out


def drop_empty(path):
    """contours that consist of a lone moveto have no segment and no area"""
    return [(s, segs) for s, segs in contours(path) if segs]


def canon_fill(path):
    """Canonical form under the rewrites that keep the filled outline but not the point
    structure: a curve whose first and last control vectors are zero is the straight line to its
    end point; zero-length lines vanish; consecutive lines along the same axis join."""
    out = []
    for start, segs in contours(path):
        cur = start
        stack = []      # (kind, from, ...points)
        for seg in segs:
            if seg[0] == "c" and seg[1] == cur and seg[2] == seg[3]:
                seg = ("l", seg[3])
            if seg[0] == "l":
                a, b = cur, seg[1]
                cur = b
                if a == b:
                    continue
                if stack and stack[-1][0] == "l":
                    pa, pb = stack[-1][1], stack[-1][2]
                    if (pa[1] == pb[1] == b[1]) or (pa[0] == pb[0] == b[0]):
                        stack.pop()
                        if pa != b:
                            stack.append(("l", pa, b))
                        continue
                stack.append(("l", a, b))
            else:
                stack.append(("c", cur) + seg[1:])
                cur = seg[3]
        if stack:
            out.append((start, tuple(stack)))
    return out


# ---------------------------------------------------------------------------------------
# program generators
# ---------------------------------------------------------------------------------------

def nz(rnd, floats=False):
    u = rnd.random()
    if floats and u < 0.15:
        return rnd.choice((-1, 1)) * rnd.randint(1, 400) / rnd.choice((2, 4, 8))
    if u < 0.7:
        return rnd.choice((-1, 1)) * rnd.randint(1, 100)
    if u < 0.9:
        return rnd.choice((-1, 1)) * rnd.randint(108, 1131)
    return rnd.choice((-1, 1)) * rnd.randint(1132, 3000)


def vec(rnd, pattern, floats=False):
    return [nz(rnd, floats) if bit else 0 for bit in pattern]


CURVE_PATTERNS = list(itertools.product((0, 1), repeat=6))
LINE_PATTERNS = [(1, 1), (1, 0), (0, 1), (0, 0)]


def hint_prefix(rnd):
    """hs* vs* cm* hm* : returns (program tokens, number of hints, uses-hintmask)"""
    prog = []
    nh = 0
    hm = rnd.random() < 0.5
    kinds = rnd.choice(((), ("h",), ("v",), ("h", "v")))
    for k in kinds:
        cnt = rnd.randint(1, 3)
        args = []
        for _ in range(cnt):
            args += [rnd.randint(-50, 300), rnd.randint(1, 120)]
        prog += args + [("hstemhm" if k == "h" else "vstemhm") if hm else ("hstem" if k == "h" else "vstem")]
        nh += cnt
    if not kinds:
        hm = False
    return prog, nh, hm


def mask(rnd, nh):
    return bytes(rnd.randrange(256) for _ in range((nh + 7) // 8))


def gen_general_program(rnd, segs, floats=False, width=None, hints=True, endchar=True):
    """segs: list of contours, each a list of ('l', pattern) / ('c', pattern)."""
    prog = []
    if width is not None:
        prog.append(width)
    nh, hm = 0, False
    if hints:
        hp, nh, hm = hint_prefix(rnd)
        prog += hp
        if hm:
            if rnd.random() < 0.5:
                prog += ["cntrmask", mask(rnd, nh)]
            prog += ["hintmask", mask(rnd, nh)]
    for contour in segs:
        prog += vec(rnd, rnd.choice(((1, 1), (1, 1), (1, 0), (0, 1))), floats) + ["rmoveto"]
        for kind, pat in contour:
            prog += vec(rnd, pat, floats) + ["rlineto" if kind == "l" else "rrcurveto"]
            if hm and rnd.random() < 0.1:
                prog += ["hintmask", mask(rnd, nh)]
    if endchar:
        prog.append("endchar")
    return prog


def gen_specialised_program(rnd, nops, floats=False, width=None, hints=True, maxargs=40):
    """Every path operator in every argument-count form of TN5177."""
    prog = []
    if width is not None:
        prog.append(width)
    nh, hm = 0, False
    if hints:
        hp, nh, hm = hint_prefix(rnd)
        prog += hp
        if hm:
            prog += ["hintmask", mask(rnd, nh)]
    v = lambda: nz(rnd, floats) if rnd.random() < 0.85 else 0
    first = True
    for _ in range(nops):
        if first or rnd.random() < 0.2:
            k = rnd.randrange(3)
            prog += [[v(), v(), "rmoveto"], [v(), "hmoveto"], [v(), "vmoveto"]][k]
            first = False
        op = rnd.choice(("rlineto", "hlineto", "vlineto", "rrcurveto", "hhcurveto", "vvcurveto", "hvcurveto", "vhcurveto",
                         "rcurveline", "rlinecurve", "flex", "hflex", "hflex1", "flex1"))
        if op == "rlineto":
            n = 2 * rnd.randint(1, maxargs // 2)
        elif op in ("hlineto", "vlineto"):
            n = rnd.randint(1, maxargs)
        elif op == "rrcurveto":
            n = 6 * rnd.randint(1, maxargs // 6)
        elif op in ("hhcurveto", "vvcurveto"):
            n = 4 * rnd.randint(1, maxargs // 4 - 1) + rnd.randint(0, 1)
        elif op in ("hvcurveto", "vhcurveto"):
            n = 4 * rnd.randint(1, maxargs // 4 - 1) + rnd.randint(0, 1)
        elif op == "rcurveline":
            n = 6 * rnd.randint(1, (maxargs - 2) // 6) + 2
        elif op == "rlinecurve":
            n = 2 * rnd.randint(1, (maxargs - 6) // 2) + 6
        else:
            n = {"flex": 13, "hflex": 7, "hflex1": 9, "flex1": 11}[op]
        args = [v() for _ in range(n)]
        if op == "flex":
            args[-1] = rnd.randint(0, 100)
        prog += args + [op]
        if hm and rnd.random() < 0.1:
            prog += ["hintmask", mask(rnd, nh)]
    prog.append("endchar")
    return prog


def stack_depth_real(program):
    from fontTools.misc.psCharStrings import T2CharString, T2StackUseExtractor

    cs = T2CharString(program=list(program), private=Priv())
    return T2StackUseExtractor([], [], private=Priv()).execute(cs)


def show(program):
    return " ".join(x.hex() if isinstance(x, bytes) else str(x) for x in program)


# ---------------------------------------------------------------------------------------
# 1. specialise general programs
# ---------------------------------------------------------------------------------------

def _check_rewrite(r, src, out, what, topology, maxstack, nominal=0, default=0, known=None):
    """src, out: programs.  Compares width + outline, arities and stack depth of `out`."""
    try:
        w0, p0, d0 = t2_run(src, nominal, default)
    except T2Error as e:
        r.fail("generator produced an ill-formed program (%s): %s" % (e, show(src)))
        return False
    try:
        w1, p1, d1 = t2_run(out, nominal, default)
    except T2Error as e:
        r.fail("%s emitted an operator form outside the Type 2 grammar: %s; input: %s; output: %s" % (what, e, show(src), show(out)))
        return False
    rw, rp = real_draw(out, nominal, default)
    ok = True
    if (rw, [tuple(x) for x in rp]) != (w1, [tuple(x) for x in p1]):
        r.fail("%s: T2CharString.draw of the output disagrees with the reference interpreter: %r vs %r; output: %s" % (what, (rw, rp), (w1, p1), show(out)))
        ok = False
    if w0 != w1:
        r.fail("%s changed the advance width %r -> %r; input: %s; output: %s" % (what, w0, w1, show(src), show(out)))
        ok = False
    if topology:
        same = drop_empty(p0) == drop_empty(p1)
    else:
        same = canon_fill(p0) == canon_fill(p1)
    if not same:
        r.fail("%s changed the %s; input: %s; output: %s" % (what, "point structure" if topology else "filled outline", show(src), show(out)))
        ok = False
    if maxstack is not None and d1 > max(maxstack, d0):
        r.fail("%s: output needs an operand stack of %d > maxstack %d (input needed %d); input: %s; output: %s" % (what, d1, maxstack, d0, show(src), show(out)))
        ok = False
    return ok


@check("C12")
def specialize_general_programs(tier, rnd):
    """specializeProgram on general-form programs (rmoveto/rlineto/rrcurveto, one segment per
    operator, optional width, stem hints, hintmask/cntrmask): every zero/non-zero pattern of the
    six curve arguments placed between every kind of neighbour (general curve, h/v curve, line,
    contour start/end), lines and curves mixed, generalizeFirst and preserveTopology on and off,
    maxstack in {48, 513, 12}: same width; same point structure (preserveTopology) or same filled
    outline; only legal operator forms; stack depth <= maxstack; the emitted program survives
    compile -> decompile unchanged; generalizeProgram of it draws the same again."""
    from fontTools.cffLib.specializer import specializeProgram, generalizeProgram
    from fontTools.misc.psCharStrings import T2CharString

    r = Result("(previous segment kind in 6) x (all 64 zero patterns of a curve | 4 of a line) x (next segment kind in 6) x 4 option combinations, "
               "plus seeded programs of 1..30 segments in 1..3 contours with ints/dyadic floats; distinct = (prev, pattern, next, options) or (segments, options)")
    neighbours = {
        "rr": ("c", (1, 1, 1, 1, 1, 1)), "hv": ("c", (1, 0, 1, 1, 0, 1)), "vh": ("c", (0, 1, 1, 1, 1, 0)),
        "rl": ("l", (1, 1)), "hl": ("l", (1, 0)), "none": None,
    }
    options = [(g, t) for g in (True, False) for t in (False, True)]

    def one(segs, key, floats, width, maxstack, g, t):
        src = gen_general_program(rnd, segs, floats=floats, width=width, hints=rnd.random() < 0.5)
        r.case(key + (g, t))
        try:
            out = specializeProgram(list(src), generalizeFirst=g, preserveTopology=t, maxstack=maxstack)
        except Exception as e:
            r.fail("specializeProgram(generalizeFirst=%s, preserveTopology=%s, maxstack=%d) raised %s: %s; input: %s" % (g, t, maxstack, type(e).__name__, e, show(src)))
            return
        what = "specializeProgram(generalizeFirst=%s, preserveTopology=%s, maxstack=%d)" % (g, t, maxstack)
        if not _check_rewrite(r, src, out, what, t, maxstack, nominal=500, default=600):
            return
        try:
            back = generalizeProgram(list(out))
        except Exception as e:
            r.fail("generalizeProgram of the specialised program raised %s: %s; program: %s" % (type(e).__name__, e, show(out)))
            return
        _check_rewrite(r, out, back, "generalizeProgram(after %s)" % what, True, None, nominal=500, default=600)
        if t and canon_fill(t2_run(back, 500, 600)[1]) != canon_fill(t2_run(src, 500, 600)[1]):
            r.fail("generalize(specialize(p)) differs from p; input: %s; output: %s" % (show(src), show(back)))
        cs = T2CharString(program=list(out), private=Priv())
        cs.compile()
        cs.decompile()
        if [x for x in cs.program] != [x for x in out]:
            r.fail("compile -> decompile changed the specialised program: %s -> %s" % (show(out), show(cs.program)))

    for pk, pv in neighbours.items():
        for nk, nv in neighbours.items():
            mids = [("c", p) for p in CURVE_PATTERNS] + [("l", p) for p in LINE_PATTERNS]
            for mid in mids:
                for g, t in options:
                    if tier == "quick" and rnd.random() < 0.5:
                        continue
                    segs = [[s for s in (pv, mid, nv) if s is not None]]
                    one(segs, (pk, mid, nk), False, rnd.choice((None, 37)), rnd.choice((48, 513)), g, t)
    for _ in range(2500 if tier == "quick" else 20000):
        ncont = rnd.randint(1, 3)
        segs = []
        total = 0
        for _c in range(ncont):
            k = rnd.randint(1, 10)
            total += k
            style = rnd.random()
            contour = []
            for _s in range(k):
                if style < 0.25:      # mostly zero-ish curve patterns next to general curves
                    contour.append(("c", rnd.choice(CURVE_PATTERNS)) if rnd.random() < 0.8 else ("c", (1,) * 6))
                elif style < 0.5:     # axis-parallel lines and degenerate lines
                    contour.append(("l", rnd.choice(LINE_PATTERNS)))
                else:
                    contour.append(("c", rnd.choice(CURVE_PATTERNS)) if rnd.random() < 0.5 else ("l", rnd.choice(LINE_PATTERNS)))
            segs.append(contour)
        g, t = rnd.choice(options)
        one(segs, ("seq", min(total, 12)), rnd.random() < 0.3, rnd.choice((None, None, -20, 1200)), rnd.choice((48, 48, 513, 12)), g, t)
    r.sample({"input": "0 0 10 20 0 0 rrcurveto between two general curves", "output": show(specializeProgram(
        [1, 2, "rmoveto", 1, 2, 3, 4, 5, 6, "rrcurveto", 0, 0, 10, 20, 0, 0, "rrcurveto", 1, 2, 3, 4, 5, 6, "rrcurveto", "endchar"]))})
    return r


# ---------------------------------------------------------------------------------------
# 2. every operator form: draw, generalise, re-specialise, compile
# ---------------------------------------------------------------------------------------

@check("C12")
def operator_forms_generalize_and_respecialize(tier, rnd):
    """Programs in specialised form using every path operator in every argument-count form
    (h/v/rlineto, rrcurveto, hh/vv/hv/vhcurveto with and without the extra argument,
    rcurveline, rlinecurve, flex, hflex, hflex1, flex1, h/v/rmoveto, stem hints, hintmask,
    width prefix): T2CharString.draw == reference interpreter; generalizeProgram keeps width and
    point structure exactly; specializeProgram of the generalised program keeps them
    (preserveTopology) or the filled outline, uses legal forms only and stays within maxstack;
    bytecode compile/decompile is the identity on programs."""
    from fontTools.cffLib.specializer import specializeProgram, generalizeProgram, programToCommands, commandsToProgram
    from fontTools.misc.psCharStrings import T2CharString

    r = Result("seeded programs of 1..8 operators drawn from the 14 path operators x all legal argument counts up to 40, zero arguments mixed in, "
               "hints/hintmask/width optional; distinct = (operator, argument count mod 8, option)")
    for _ in range(3000 if tier == "quick" else 25000):
        floats = rnd.random() < 0.25
        src = gen_specialised_program(rnd, rnd.randint(1, 8), floats=floats, width=rnd.choice((None, 55, -300)), hints=rnd.random() < 0.5)
        try:
            w0, p0, d0 = t2_run(src, 400, 700)
        except T2Error as e:
            r.fail("generator produced an ill-formed program (%s): %s" % (e, show(src)))
            continue
        ops = [(t, k) for k, t in enumerate(src) if isinstance(t, str)]
        for t, k in ops:
            j = k
            while j > 0 and not isinstance(src[j - 1], (str, bytes)):
                j -= 1
            r.case((t, (k - j) % 8))
        rw, rp = real_draw(src, 400, 700)
        if (rw, [tuple(x) for x in rp]) != (w0, [tuple(x) for x in p0]):
            r.fail("T2CharString.draw disagrees with the reference interpreter on %s: %r vs %r" % (show(src), (rw, rp), (w0, p0)))
            continue
        if commandsToProgram(programToCommands(list(src))) != list(src):
            r.fail("commandsToProgram(programToCommands(p)) != p for %s" % show(src))
        try:
            gen = generalizeProgram(list(src))
        except Exception as e:
            r.fail("generalizeProgram raised %s: %s on %s" % (type(e).__name__, e, show(src)))
            continue
        if not _check_rewrite(r, src, gen, "generalizeProgram", True, None, 400, 700):
            continue
        for tok in gen:
            if tok in ("hlineto", "vlineto", "hhcurveto", "vvcurveto", "hvcurveto", "vhcurveto", "rcurveline", "rlinecurve", "hmoveto", "vmoveto"):
                r.fail("generalizeProgram left a specialised operator %s in %s" % (tok, show(gen)))
                break
        t = rnd.random() < 0.5
        maxstack = rnd.choice((48, 513, 20))
        try:
            spec = specializeProgram(list(gen), preserveTopology=t, maxstack=maxstack, generalizeFirst=rnd.random() < 0.5)
        except Exception as e:
            r.fail("specializeProgram raised %s: %s on %s" % (type(e).__name__, e, show(gen)))
            continue
        # flex operators keep their fixed 13/11/9/7 operands whatever maxstack says
        ms = max(maxstack, 13) if any(x in src for x in ("flex", "flex1", "hflex", "hflex1")) else maxstack
        _check_rewrite(r, src, spec, "specializeProgram(generalizeProgram(p), preserveTopology=%s, maxstack=%d)" % (t, maxstack), t, ms, 400, 700)
        cs = T2CharString(program=list(src), private=Priv())
        cs.compile()
        code = cs.bytecode
        cs.decompile()
        if list(cs.program) != list(src):
            r.fail("compile -> decompile changed the program: %s -> %s" % (show(src), show(cs.program)))
        cs.compile()
        if cs.bytecode != code:
            r.fail("compile is not stable under decompile for %s" % show(src))
    r.sample({"program": show(src)})
    return r


# ---------------------------------------------------------------------------------------
# 3. number encoding
# ---------------------------------------------------------------------------------------

@check("C12")
def operand_encoding_roundtrip(tier, rnd):
    """T2CharString.compile -> decompile on numeric operands: every integer in -32768..32767
    comes back identical (all five encodings); every float comes back as the nearest 16.16
    value (|error| <= 2^-17), in particular floats a hair below/above an integer
    (28.999999999999996, -199.999999, k +- 2^-20, k +- 1e-9) come back as that integer and the
    outline drawn from the compiled charstring moves by no more than the rounding."""
    from fontTools.misc.psCharStrings import T2CharString
    from fontTools.pens.recordingPen import RecordingPen

    r = Result("all 65536 short integers (exhaustive) + floats: k + d for k over boundary integers and seeded ones, d in {+-2^-20, +-1e-9, +-1e-12, "
               "+-1 ulp, +-2^-17 -+ tiny, +-0.5, k/65536}; distinct = (encoding class) or (sign, |d| class)")
    ints = list(range(-32768, 32768))
    step = 1 if tier != "quick" else 1
    for base in range(0, len(ints), 4096):
        chunk = ints[base:base + 4096:step]
        prog = []
        for v in chunk:
            prog += [v, 0, "rmoveto"]
        prog.append("endchar")
        cs = T2CharString(program=list(prog), private=Priv())
        cs.compile()
        cs.decompile()
        back = [t for t in cs.program if not isinstance(t, str)][0::2]
        for v, b in zip(chunk, back):
            r.case(("int", 0 if -107 <= v <= 107 else 1 if -1131 <= v <= 1131 else 2, v < 0))
            if b != v or isinstance(b, float):
                r.fail("integer operand %d decompiles as %r" % (v, b))
    import math
    bases = [0, 1, -1, 28, 29, -199, -200, 107, 108, -107, -108, 1131, 1132, -1131, -1132, 32766, -32767, 255, 256, 1000, -1000]
    bases += [rnd.randint(-32000, 32000) for _ in range(300 if tier == "quick" else 5000)]
    deltas = [2.0 ** -20, 1e-9, 1e-12, 2.0 ** -17 - 2.0 ** -30, 2.0 ** -17 + 2.0 ** -30, 2.0 ** -16, 0.5, 0.25, 1 / 3.0, 0.999999, 0.9999999999]
    cases = [28.999999999999996, -199.999999, 199.999999, -28.999999999999996, 0.1, -0.1, 1e-7, -1e-7, 0.49999, 32767.5, -32767.99]
    for k in bases:
        for d in deltas:
            for s in (1, -1):
                cases.append(k + s * d)
        cases.append(math.nextafter(float(k), math.inf))
        cases.append(math.nextafter(float(k), -math.inf))
    for _ in range(2000 if tier == "quick" else 50000):
        cases.append(rnd.uniform(-32767, 32767))
        cases.append(rnd.randrange(-2 ** 31 + 65536, 2 ** 31 - 65536) / 65536.0)
    for f in cases:
        if not -32768 < f < 32767.99999:
            continue
        f = float(f)
        nearest = math.floor(f * 65536 + 0.5) / 65536.0
        frac = abs(f - round(f))
        r.case(("float", f < 0, 0 if frac == 0 else 1 if frac < 2.0 ** -17 else 2 if frac < 0.01 else 3))
        prog = [f, f, "rmoveto", f, 3, "rlineto", "endchar"]
        cs = T2CharString(program=list(prog), private=Priv())
        try:
            cs.compile()
            cs.decompile()
        except Exception as e:
            r.fail("compile/decompile of operand %r raised %s: %s" % (f, type(e).__name__, e))
            continue
        back = cs.program[0]
        if back != nearest:
            r.fail("float operand %r decompiles as %r; the nearest 16.16 value is %r" % (f, back, nearest))
            continue
        if [type(x) for x in cs.program[:2]] != [type(back)] * 2 or cs.program[1] != back or cs.program[3] != back:
            r.fail("the same operand %r decompiles differently within one program: %r" % (f, cs.program))
        pen = RecordingPen()
        cs.draw(pen)
        (x, y), = pen.value[0][1]
        if abs(x - f) > 2.0 ** -17 or abs(y - f) > 2.0 ** -17:
            r.fail("operand %r draws at %r after compile/decompile" % (f, (x, y)))
    r.exhaustive = True
    r.sample({"operand": 28.999999999999996, "decompiled": 29})
    return r


# ---------------------------------------------------------------------------------------
# corpus helpers
# ---------------------------------------------------------------------------------------

CORPUS = [
    ("cffLib/data/LinLibertine_RBI.otf", False),
    ("ttLib/data/TestVGID-Regular.otf", True),
    ("subset/data/Lobster.subset.otf", True),
    ("ttx/data/TestOTF.otf", True),
    ("cffLib/data/CFFToCFF2-1.otf", True),
    ("ttLib/data/IBMPlexSans-Bold.subset.otf", True),
    ("ttLib/tables/data/aots/base.otf", True),
    ("subset/data/test_hinted_subrs_CFF.ttx", True),
    ("subset/data/test_cntrmask_CFF.ttx", True),
    ("subset/data/TestCID-Regular.ttx", True),
    ("subset/data/NotoSansCJKjp-Regular.subset.ttx", True),
    ("subset/data/NotdefWidthCID-Regular.ttx", True),
    ("subset/data/TestOTF-Regular.ttx", True),
    ("cffLib/data/TestOTF.ttx", True),
    ("merge/data/CFFFont1.ttx", True),
    ("fontBuilder/data/test.otf.ttx", True),
]
CORPUS2 = [
    ("ttLib/data/I.otf", True),
    ("cffLib/data/TestSparseCFF2VF.ttx", True),
    ("cffLib/data/TestCFF2Widths.ttx", True),
    ("cffLib/data/TestFDSelect4.ttx", True),
    ("fontBuilder/data/test_var.otf.ttx", True),
    ("varLib/data/test_results/BuildTestCFF2.ttx", True),
    ("varLib/data/test_results/TestSparseCFF2VF.ttx", False),
]
_BYTES = {}


def corpus_bytes(rel):
    from fontTools.ttLib import TTFont

    if rel not in _BYTES:
        path = os.path.join(REPO, "Tests", rel)
        if not os.path.exists(path):
            _BYTES[rel] = None
        elif rel.endswith(".ttx"):
            f = TTFont(recalcBBoxes=False, recalcTimestamp=False)
            f.importXML(path)
            if not all(t in f for t in ("maxp", "hmtx", "head", "hhea")):
                _BYTES[rel] = None      # a table dump, not a whole font
            else:
                buf = io.BytesIO()
                f.save(buf)
                _BYTES[rel] = buf.getvalue()
        else:
            _BYTES[rel] = open(path, "rb").read()
    return _BYTES[rel]


def load(rel):
    from fontTools.ttLib import TTFont

    data = corpus_bytes(rel)
    if data is None:
        return None
    return TTFont(io.BytesIO(data), recalcBBoxes=False, recalcTimestamp=False)


def resave(font):
    from fontTools.ttLib import TTFont

    buf = io.BytesIO()
    font.save(buf)
    return TTFont(io.BytesIO(buf.getvalue()), recalcBBoxes=False, recalcTimestamp=False)


def cff_table(font):
    return font["CFF "] if "CFF " in font else font["CFF2"]


def snapshot(font, location=None, names=None):
    """{glyph: (advance from the glyph set, width encoded in the charstring, outline)}"""
    from fontTools.pens.recordingPen import RecordingPen

    gs = font.getGlyphSet(location=location) if location else font.getGlyphSet()
    td = cff_table(font).cff.topDictIndex[0]
    out = {}
    for g in (names or font.getGlyphOrder()):
        pen = RecordingPen()
        gs[g].draw(pen)
        cs = td.CharStrings[g]
        out[g] = (gs[g].width, getattr(cs, "width", None) if "CFF " in font else None, pen.value)
    return out


def diff_snapshots(a, b, rename=None, mode="exact"):
    """mode: 'exact' = identical pen calls; 'points' = identical up to contours that consist of a
    lone moveto; 'fill' = identical filled outline (canon_fill)."""
    norm = {"exact": lambda p: p, "points": drop_empty, "fill": canon_fill}[mode]
    for g, va in a.items():
        g2 = rename[g] if rename else g
        if g2 not in b:
            return "glyph %s disappeared" % g
        vb = b[g2]
        if va[0] != vb[0]:
            return "advance of %s changed %r -> %r" % (g, va[0], vb[0])
        if va[1] is not None and vb[1] is not None and va[1] != vb[1]:
            return "charstring width of %s changed %r -> %r" % (g, va[1], vb[1])
        if va[2] != vb[2] and norm(va[2]) != norm(vb[2]):
            k = next((i for i, (x, y) in enumerate(zip(va[2], vb[2])) if x != y), min(len(va[2]), len(vb[2])))
            return "outline of %s changed at segment %d: %r -> %r" % (g, k, va[2][k:k + 2], vb[2][k:k + 2])
    return None


def all_programs(font):
    """decompiled programs of all charstrings and subroutines"""
    cff = cff_table(font).cff
    td = cff.topDictIndex[0]
    out = []
    for g in td.CharStrings.keys():
        cs = td.CharStrings[g]
        cs.decompile()
        out.append((g, cs))
    return out


def max_stack(font):
    from fontTools.misc.psCharStrings import T2StackUseExtractor

    cff = cff_table(font).cff
    td = cff.topDictIndex[0]
    worst = (0, None)
    for g in td.CharStrings.keys():
        cs, fd = td.CharStrings.getItemAndSelector(g)
        priv = cs.private
        use = T2StackUseExtractor(getattr(priv, "Subrs", []), cff.GlobalSubrs, private=priv).execute(cs)
        if use > worst[0]:
            worst = (use, g)
    return worst


# ---------------------------------------------------------------------------------------
# 4. corpus: desubroutinize, remove_hints, remove_unused_subroutines, specializer, subsetter
# ---------------------------------------------------------------------------------------

@check("C12")
def corpus_transforms_keep_outlines(tier, rnd):
    """On every CFF corpus font: desubroutinize, remove_hints (with and without pruning of
    subroutines), both in either order, remove_unused_subroutines, and re-specialising every
    charstring leave every glyph's outline (exact) and advance/charstring width unchanged,
    before and after saving and reloading the font; afterwards no subroutine call / hint
    operator is left, and no charstring needs more than 48 stack entries."""
    r = Result("16 CFF corpus fonts (name- and CID-keyed, with local/global subroutines, hintmask/cntrmask, hints inside subroutines; quick: "
               "LinLibertine only for the specializer) x 7 transformations x all glyphs; distinct = (font, transformation)")
    from fontTools.cffLib.specializer import specializeProgram, generalizeProgram

    def t_desub(f):
        f["CFF "].cff.desubroutinize()

    def t_dehint(f):
        f["CFF "].cff.remove_hints()

    def t_dehint_keep(f):
        from fontTools.cffLib.transforms import remove_hints
        remove_hints(f["CFF "].cff, removeUnusedSubrs=False)

    def t_both(f):
        f["CFF "].cff.desubroutinize()
        f["CFF "].cff.remove_hints()

    def t_both2(f):
        f["CFF "].cff.remove_hints()
        f["CFF "].cff.desubroutinize()

    def t_unused(f):
        all_programs(f)          # decompile everything first
        f["CFF "].cff.remove_unused_subroutines()

    def t_special_topo(f):
        f["CFF "].cff.desubroutinize()
        for g, cs in all_programs(f):
            cs.program = specializeProgram(generalizeProgram(cs.program), maxstack=48, preserveTopology=True)

    def t_special(f):
        f["CFF "].cff.desubroutinize()
        for g, cs in all_programs(f):
            cs.program = specializeProgram(generalizeProgram(cs.program), maxstack=48)

    def t_general(f):
        for g, cs in all_programs(f):
            if "callsubr" not in cs.program and "callgsubr" not in cs.program:
                cs.program = generalizeProgram(cs.program)

    transforms = [("desubroutinize", t_desub), ("remove_hints", t_dehint), ("remove_hints(keep subrs)", t_dehint_keep),
                  ("desubroutinize+remove_hints", t_both), ("remove_hints+desubroutinize", t_both2),
                  ("remove_unused_subroutines", t_unused), ("generalize", t_general),
                  ("desubroutinize+generalize+specialize(preserveTopology)", t_special_topo), ("desubroutinize+generalize+specialize", t_special)]
    for rel, quick in CORPUS:
        base = load(rel)
        if base is None or "CFF " not in base:
            continue
        before = snapshot(base)
        for name, fn in transforms:
            if tier == "quick" and not quick and name not in ("desubroutinize+remove_hints", "desubroutinize+generalize+specialize"):
                continue
            if name == "generalize" and tier == "quick" and not quick:
                continue
            r.case((rel, name))
            f = load(rel)
            mode = "fill" if name.endswith("specialize") else "points" if "specialize" in name else "exact"
            try:
                fn(f)
                err = diff_snapshots(before, snapshot(f), mode=mode)
                if err:
                    r.fail("%s on %s: %s" % (name, rel, err))
                    continue
                f2 = resave(f)
                err = diff_snapshots(before, snapshot(f2), mode=mode)
                if err:
                    r.fail("%s on %s, after save + reload: %s" % (name, rel, err))
                    continue
                use, g = max_stack(f2)
                if use > 48:
                    r.fail("%s on %s: glyph %s needs %d operand stack entries (CFF limit 48)" % (name, rel, g, use))
                progs = all_programs(f2)
                if "desubroutinize" in name:
                    bad = [g for g, cs in progs if "callsubr" in cs.program or "callgsubr" in cs.program]
                    if bad:
                        r.fail("%s on %s left subroutine calls in %r" % (name, rel, bad[:3]))
                if "remove_hints" in name:
                    hintops = HINT_OPS | {"hintmask", "cntrmask"}
                    cff = f2["CFF "].cff
                    td = cff.topDictIndex[0]
                    subrs = list(cff.GlobalSubrs)
                    privs = [fd.Private for fd in td.FDArray] if hasattr(td, "FDArray") else [td.Private]
                    for p in privs:
                        subrs += list(getattr(p, "Subrs", []))
                    # subroutines reached from a glyph were decompiled along with it; unreachable ones stay bytecode
                    subrs = [s for s in subrs if not s.needsDecompilation()]
                    bad = [g for g, cs in progs if hintops & {t for t in cs.program if isinstance(t, str)}]
                    badsub = [i for i, s in enumerate(subrs) if hintops & {t for t in s.program if isinstance(t, str)}]
                    if bad or badsub:
                        r.fail("%s on %s left hint operators in glyphs %r / subroutines %r" % (name, rel, bad[:3], badsub[:3]))
            except Exception as e:
                r.fail("%s on %s raised %s: %s" % (name, rel, type(e).__name__, e))
    r.sample({"fonts": [c[0] for c in CORPUS], "transformations": [t[0] for t in transforms]})
    return r


@check("C12")
def corpus_subsetter_cff_options(tier, rnd):
    """fontTools.subset on CFF corpus fonts with --desubroutinize / --no-hinting / both / neither
    and a seeded glyph selection: every retained glyph draws exactly as before, with the same
    advance; stack limit respected."""
    from fontTools import subset

    r = Result("CFF corpus fonts x {plain, desubroutinize, no-hinting, both} x seeded glyph selections (all glyphs / random half); "
               "distinct = (font, options, selection)")
    fonts = [c for c in CORPUS if c[1] or tier != "quick"]
    for rel, _q in fonts:
        base = load(rel)
        if base is None or "CFF " not in base:
            continue
        before = snapshot(base)
        order = base.getGlyphOrder()
        for desub, hinting in ((False, True), (True, True), (False, False), (True, False)):
            for sel in ("all", "half"):
                if sel == "half" and len(order) < 4:
                    continue
                r.case((rel, desub, hinting, sel))
                f = load(rel)
                opts = subset.Options()
                opts.desubroutinize = desub
                opts.hinting = hinting
                opts.notdef_outline = True
                opts.glyph_names = True
                opts.layout_features = []
                opts.name_IDs = ["*"]
                opts.recalc_bounds = False
                keep = list(order) if sel == "all" else [g for g in order if rnd.random() < 0.5 or g == ".notdef"]
                try:
                    s = subset.Subsetter(opts)
                    s.populate(glyphs=keep)
                    s.subset(f)
                    f2 = resave(f)
                    kept = [g for g in keep if g in f2.getGlyphOrder()]
                    after = snapshot(f2, names=kept)
                    err = diff_snapshots({g: before[g] for g in kept}, after)
                    if err:
                        r.fail("subset(desubroutinize=%s, hinting=%s, %s) of %s: %s" % (desub, hinting, sel, rel, err))
                    if len(kept) < len(keep):
                        r.fail("subset of %s dropped requested glyphs %r" % (rel, [g for g in keep if g not in kept][:3]))
                    use, g = max_stack(f2)
                    if use > 48:
                        r.fail("subset(desubroutinize=%s, hinting=%s) of %s: glyph %s needs %d stack entries" % (desub, hinting, rel, g, use))
                except Exception as e:
                    r.fail("subset(desubroutinize=%s, hinting=%s, %s) of %s raised %s: %s" % (desub, hinting, sel, rel, type(e).__name__, e))
    r.sample({"fonts": [c[0] for c in fonts]})
    return r


# ---------------------------------------------------------------------------------------
# 5. CFF <-> CFF2, blends
# ---------------------------------------------------------------------------------------

def font_bytes(font):
    buf = io.BytesIO()
    font.save(buf)
    return buf.getvalue()


def open_bytes(data):
    from fontTools.ttLib import TTFont

    return TTFont(io.BytesIO(data), recalcBBoxes=False, recalcTimestamp=False)


def touch_privates(font):
    """force the lazily loaded FontDict Private dicts and their Subrs to be read"""
    cff = cff_table(font).cff
    td = cff.topDictIndex[0]
    for i in range(len(cff.GlobalSubrs)):
        cff.GlobalSubrs[i]
    for fd in getattr(td, "FDArray", []):
        subrs = getattr(fd.Private, "Subrs", [])
        for i in range(len(subrs)):
            subrs[i]


@check("C12")
def cff_cff2_conversion_keeps_outlines(tier, rnd):
    """convertCFFToCFF2 on every CFF corpus font, convertCFF2ToCFF on every static CFF2 corpus font
    and on the converted fonts (also after re-specialising all CFF2 charstrings to the CFF2 stack
    limit of 513): outlines identical glyph by glyph (glyph names are not part of CFF2), advances
    identical, the width encoded in each CFF charstring equals the hmtx advance, and no CFF
    charstring needs more than 48 stack entries; a variable CFF2 font is refused with ValueError.
    Fonts are converted as loaded from their bytes (TTFont's default lazy loading).
    Known findings on the pinned tree (tagged): convertCFF2ToCFF reads FontDict.Private lazily AFTER
    switching the FontDict to CFF1, so local Subrs are parsed with the wrong INDEX header
    (IndexError); and it renames the charset to cidNNNNN without updating the TTFont glyph order."""
    from fontTools.cffLib.CFFToCFF2 import convertCFFToCFF2
    from fontTools.cffLib.CFF2ToCFF import convertCFF2ToCFF
    from fontTools.cffLib.specializer import specializeProgram, generalizeProgram

    r = Result("16 CFF corpus fonts -> CFF2 -> (optionally re-specialised with maxstack 513) -> CFF; CFF2 corpus fonts -> CFF; all glyphs; "
               "distinct = (font, direction)")

    def widths_match(font, rel, what):
        snap = snapshot(font)
        hm = font["hmtx"].metrics
        for g, (adv, csw, _o) in snap.items():
            if csw is not None and csw != hm[g][0]:
                r.fail("%s of %s: charstring of %s encodes width %r, hmtx advance is %r" % (what, rel, g, csw, hm[g][0]))
                return

    def to_cff(data, rel, prepare=None):
        """convertCFF2ToCFF on a font freshly opened from `data`; returns the converted font or None"""
        f = open_bytes(data)
        if prepare:
            prepare(f)
        try:
            convertCFF2ToCFF(f)
            return f
        except ValueError:
            raise
        except Exception as e:
            first = "%s: %s" % (type(e).__name__, e)
        # the same bytes, with the Private dicts read before the conversion flips the format flag
        f = open_bytes(data)
        touch_privates(f)
        if prepare:
            prepare(f)
        try:
            convertCFF2ToCFF(f)
        except Exception as e:
            r.fail("convertCFF2ToCFF(%s) raised %s (and %s: %s with all Private dicts loaded)" % (rel, first, type(e).__name__, e))
            return None
        r.fail("convertCFF2ToCFF on the freshly loaded font %s raised %s; it succeeds once every FontDict.Private/Subrs has been accessed "
               "(Private is read lazily after setCFF2(False), so its Subrs INDEX is parsed with the CFF1 header)" % (rel, first),
               known_id="C12-CFF2ToCFF-lazy-private-subrs")
        return f

    def in_memory_names(font, rel):
        """right after the conversion the TTFont itself must still be able to draw its glyphs"""
        names = font.getGlyphOrder()
        keys = list(font["CFF "].cff.topDictIndex[0].CharStrings.keys())
        try:
            snapshot(font, names=names[:3])
        except KeyError as e:
            r.fail("after convertCFF2ToCFF(%s) the TTFont cannot draw glyph %s by name: its glyph order still is %r... while the CFF charset was renamed "
                   "to %r... (font.save() with the default recalcBBoxes=True fails with the same KeyError)" % (rel, e, names[:3], keys[:3]),
                   known_id="C12-CFF2ToCFF-glyph-order-out-of-sync" if sorted(keys) != sorted(names) else None)

    def respec(f3):
        td = f3["CFF2"].cff.topDictIndex[0]
        f3["CFF2"].cff.desubroutinize()
        for g in td.CharStrings.keys():
            cs = td.CharStrings[g]
            cs.decompile()
            cs.program = specializeProgram(generalizeProgram(cs.program), maxstack=513)

    for rel, quick in CORPUS:
        base = load(rel)
        if base is None or "CFF " not in base:
            continue
        before = snapshot(base)
        order = base.getGlyphOrder()
        try:
            r.case((rel, "CFF->CFF2"))
            f = load(rel)
            convertCFFToCFF2(f)
            data2 = font_bytes(f)
            f2 = open_bytes(data2)
            byIndex = dict(zip(order, f2.getGlyphOrder()))
            err = diff_snapshots(before, snapshot(f2), rename=byIndex)
            if err:
                r.fail("convertCFFToCFF2(%s): %s" % (rel, err))
                continue
            for respecialise in (False, True):
                r.case((rel, "CFF->CFF2->CFF", respecialise))
                if respecialise:
                    f3 = open_bytes(data2)
                    respec(f3)
                    err = diff_snapshots(before, snapshot(f3), rename=byIndex, mode="fill")
                    if err:
                        r.fail("re-specialising the CFF2 charstrings of %s (maxstack=513): %s" % (rel, err))
                        continue
                f3 = to_cff(data2, rel, respec if respecialise else None)
                if f3 is None:
                    continue
                in_memory_names(f3, rel)
                f4 = resave(f3)
                names = dict(zip(order, f4.getGlyphOrder()))
                after = snapshot(f4)
                # CFF2 carries no widths: after the round trip the advance is the hmtx one
                ref = {g: (v[0], None, v[2]) for g, v in before.items()}
                err = diff_snapshots(ref, after, rename=names, mode="fill" if respecialise else "exact")
                if err:
                    r.fail("convertCFF2ToCFF(convertCFFToCFF2(%s))%s: %s" % (rel, " after re-specialising" if respecialise else "", err))
                    continue
                widths_match(f4, rel, "CFF->CFF2->CFF round trip")
                use, g = max_stack(f4)
                if use > 48:
                    r.fail("convertCFF2ToCFF of %s: glyph %s needs %d operand stack entries (CFF limit 48)" % (rel, g, use))
        except Exception as e:
            r.fail("CFF<->CFF2 conversion of %s raised %s: %s" % (rel, type(e).__name__, e))
    for rel, quick in CORPUS2:
        base = load(rel)
        if base is None or "CFF2" not in base:
            continue
        r.case((rel, "CFF2->CFF"))
        variable = hasattr(base["CFF2"].cff.topDictIndex[0], "VarStore")
        try:
            before = snapshot(base)
            order = base.getGlyphOrder()
            try:
                f = to_cff(corpus_bytes(rel), rel)
            except ValueError:
                if not variable:
                    raise
                continue
            if f is None:
                continue
            if variable:
                r.fail("convertCFF2ToCFF accepted the variable font %s" % rel)
                continue
            in_memory_names(f, rel)
            f2 = resave(f)
            names = dict(zip(order, f2.getGlyphOrder()))
            err = diff_snapshots(before, snapshot(f2), rename=names)
            if err:
                r.fail("convertCFF2ToCFF(%s): %s" % (rel, err))
            widths_match(f2, rel, "convertCFF2ToCFF")
        except Exception as e:
            r.fail("convertCFF2ToCFF(%s) raised %s: %s" % (rel, type(e).__name__, e))
    r.sample({"cff": [c[0] for c in CORPUS][:4], "cff2": [c[0] for c in CORPUS2]})
    return r


WIDTH_OPS = {"hstem", "hstemhm", "vstem", "vstemhm", "cntrmask", "hintmask", "hmoveto", "vmoveto", "rmoveto", "endchar"}


def blends_before_first_width_op(program):
    n = 0
    for t in program:
        if t == "blend":
            n += 1
        elif t in WIDTH_OPS:
            break
    return n


class BlendPriv:
    """CFF2 private dict stand-in: k regions, no widths"""
    in_cff2 = True
    nominalWidthX = None
    defaultWidthX = None

    def __init__(self, k):
        self.k = k

    def getNumRegions(self, vi=None):
        return self.k


def blend_program(rnd, program, k, split_moveto):
    """Replace runs of operands of a program by CFF2 blend operators with k regions.
    Returns (blended program, [scalars], instantiated program)."""
    scalars = [rnd.choice((0, 0.25, 0.5, 1, -0.5)) for _ in range(k)]
    out, inst = [], []
    operands = []

    def flush(op):
        i = 0
        n = len(operands)
        while i < n:
            if op == "rmoveto" and not split_moveto:
                run = n - i if rnd.random() < 0.7 else 0
            else:
                run = rnd.randint(0, min(4, n - i))
            if run == 0:
                out.append(operands[i])
                inst.append(operands[i])
                i += 1
                continue
            defaults = operands[i:i + run]
            deltas = [[rnd.randint(-40, 40) if rnd.random() < 0.8 else 0 for _ in range(k)] for _ in defaults]
            out.extend(defaults)
            for d in deltas:
                out.extend(d)
            out.extend([run, "blend"])
            for v, d in zip(defaults, deltas):
                inst.append(v + sum(x * sc for x, sc in zip(d, scalars)))
            i += run
        del operands[:]

    it = iter(program)
    for tok in it:
        if isinstance(tok, str):
            flush(tok)
            out.append(tok)
            inst.append(tok)
            if tok in ("hintmask", "cntrmask"):
                m = next(it)
                out.append(m)
                inst.append(m)
        else:
            operands.append(tok)
    return out, scalars, inst


def blend_draw(program, k, scalars):
    from fontTools.misc.psCharStrings import T2CharString
    from fontTools.pens.recordingPen import RecordingPen

    cs = T2CharString(program=list(program), private=BlendPriv(k))
    pen = RecordingPen()
    cs.draw(pen, blender=lambda vsindex, deltas: sum(d * sc for d, sc in zip(deltas, scalars)))
    return pen.value


KNOWN_MULTI_BLEND = "C12-programToCommands-multi-blend-width"


@check("C12")
def cff2_blend_programs_specialize(tier, rnd):
    """CFF2 programs with blend operators.  (a) Grammar-generated general programs whose operands
    are blended in runs of 1..4 (1..3 regions): drawing with a blender equals the instantiated
    program; generalizeProgram and specializeProgram (both option sets, maxstack 513) keep the
    outline at that location, emit legal operator forms and stay within 513 stack entries.
    (b) Variable CFF2 corpus fonts: generalising / re-specialising / desubroutinising every
    charstring leaves every glyph unchanged at the default, at the axis extremes and at seeded
    interior locations.
    Known finding (tagged): programToCommands over-counts the operands when two or more blend
    operators precede the first moveto/hint operator and takes a blended operand for a width, so
    specializeProgram(generalizeProgram(p)) raises ValueError for such CFF2 programs."""
    from fontTools.cffLib.specializer import specializeProgram, generalizeProgram, programToCommands, commandsToProgram, specializeCommands, generalizeCommands
    from fontTools.misc.psCharStrings import T2CharString, T2StackUseExtractor

    r = Result("seeded general programs (1..12 segments, hints optional) x blend runs x 1..3 regions x dyadic region scalars x 4 option sets; "
               "variable CFF2 corpus fonts x all glyphs x {generalize, generalize+specialize, desubroutinize+specialize} x (default + axis extremes + "
               "3 seeded locations); distinct = ('syn', segments, regions, options, blends before first moveto) or (font, transformation, location index)")

    def stack_use(program, k):
        cs = T2CharString(program=list(program), private=BlendPriv(k))
        return T2StackUseExtractor([], [], private=BlendPriv(k)).execute(cs)

    for _ in range(1500 if tier == "quick" else 12000):
        nseg = rnd.randint(1, 12)
        segs = [[("c", rnd.choice(CURVE_PATTERNS)) if rnd.random() < 0.5 else ("l", rnd.choice(LINE_PATTERNS)) for _s in range(nseg)]]
        if rnd.random() < 0.3:
            segs.append([("l", (1, 1)), ("c", (1,) * 6)])
        plain = gen_general_program(rnd, segs, floats=False, width=None, hints=rnd.random() < 0.4, endchar=False)
        k = rnd.randint(1, 3)
        prog, scalars, inst = blend_program(rnd, plain, k, split_moveto=rnd.random() < 0.25)
        nb = blends_before_first_width_op(prog)
        try:
            _w, ref, _d = t2_run(inst + ["endchar"], 0, None)
        except T2Error as e:
            r.fail("generator produced an ill-formed program (%s): %s" % (e, show(inst)))
            continue
        got = blend_draw(prog, k, scalars)
        if [tuple(x) for x in got] != [tuple(x) for x in ref]:
            r.fail("T2CharString.draw with a blender differs from the instantiated program: %s (scalars %r)" % (show(prog), scalars))
            continue
        getNumRegions = lambda vi=None: k
        for g, t in ((True, False), (True, True), (False, False), (None, None)):
            r.case(("syn", min(nseg, 6), k, g, t, min(nb, 2)))
            try:
                if g is None:
                    what = "generalizeProgram"
                    out = generalizeProgram(list(prog), getNumRegions)
                elif g:
                    what = "specializeProgram(preserveTopology=%s, maxstack=513)" % t
                    out = specializeProgram(list(prog), getNumRegions, preserveTopology=t, maxstack=513)
                else:
                    what = "specializeProgram(generalizeProgram(p), maxstack=513)"
                    out = specializeProgram(generalizeProgram(list(prog), getNumRegions), getNumRegions, maxstack=513)
            except Exception as e:
                # known: with two or more blend operators before the first moveto / hint operator the
                # argument count is overestimated and a blended operand is taken for a width
                probe = prog
                if g is False and blends_before_first_width_op(prog) < 2:
                    probe = generalizeProgram(list(prog), getNumRegions)     # this is what specializeProgram had to parse
                kid = KNOWN_MULTI_BLEND if (isinstance(e, ValueError) and blends_before_first_width_op(probe) >= 2) else None
                r.fail("%s raised %s: %s on %s" % (what, type(e).__name__, e, show(prog)), known_id=kid)
                continue
            try:
                after = blend_draw(out, k, scalars)
            except Exception as e:
                r.fail("%s produced a program that cannot be drawn (%s: %s): %s -> %s" % (what, type(e).__name__, e, show(prog), show(out)))
                continue
            same = drop_empty(after) == drop_empty(ref) if (t or g is None) else canon_fill(after) == canon_fill(ref)
            if not same:
                r.fail("%s changed the outline at scalars %r: %s -> %s" % (what, scalars, show(prog), show(out)))
            if stack_use(out, k) > 513:
                r.fail("%s: output needs %d operand stack entries (CFF2 limit 513): %s" % (what, stack_use(out, k), show(out)))

    for rel, quick in CORPUS2:
        if tier == "quick" and not quick:
            continue
        base = load(rel)
        if base is None or "CFF2" not in base or "fvar" not in base:
            continue
        axes = base["fvar"].axes
        locs = [{}]
        for a in axes:
            locs.append({a.axisTag: a.maxValue})
            locs.append({a.axisTag: a.minValue})
        for _ in range(3):
            locs.append({a.axisTag: rnd.uniform(a.minValue, a.maxValue) for a in axes})
        before = [snapshot(base, location=l or None) for l in locs]

        def rewrite(font, mode):
            cff = font["CFF2"].cff
            td = cff.topDictIndex[0]
            if mode == "desub+specialize":
                cff.desubroutinize()
            for g in td.CharStrings.keys():
                cs = td.CharStrings[g]
                cs.decompile()
                if mode != "desub+specialize" and ("callsubr" in cs.program or "callgsubr" in cs.program):
                    continue
                getNumRegions = cs.private.getNumRegions
                if commandsToProgram(programToCommands(cs.program, getNumRegions)) != cs.program:
                    r.fail("%s glyph %s: commandsToProgram(programToCommands(p)) != p" % (rel, g))
                prog = generalizeProgram(cs.program, getNumRegions)
                if mode != "generalize":
                    try:
                        prog = specializeProgram(prog, getNumRegions, maxstack=513)
                    except ValueError as e:
                        kid = KNOWN_MULTI_BLEND if blends_before_first_width_op(prog) >= 2 else None
                        r.fail("specializeProgram(generalizeProgram(p)) raised ValueError: %s for glyph %s of %s: %s" % (e, g, rel, show(prog)[:300]), known_id=kid)
                        # same rewrite without re-parsing the generalised program
                        prog = commandsToProgram(specializeCommands(generalizeCommands(programToCommands(cs.program, getNumRegions)), maxstack=513))
                cs.program = prog

        for mode in ("generalize", "generalize+specialize", "desub+specialize"):
            try:
                f = load(rel)
                rewrite(f, mode)
                f2 = resave(f)
                for k, l in enumerate(locs):
                    r.case((rel, mode, k))
                    err = diff_snapshots(before[k], snapshot(f2, location=l or None), mode="exact" if mode == "generalize" else "fill")
                    if err:
                        r.fail("%s of the CFF2 charstrings of %s, at %r: %s" % (mode, rel, l, err))
                        break
                use, g = max_stack(f2)
                if use > 513:
                    r.fail("%s of %s: glyph %s needs %d operand stack entries (CFF2 limit 513)" % (mode, rel, g, use))
            except Exception as e:
                r.fail("%s of %s raised %s: %s" % (mode, rel, type(e).__name__, e))
    r.sample({"fonts": [c[0] for c in CORPUS2], "blended": show(prog)[:200]})
    return r


# ---------------------------------------------------------------------------------------
# 6. widths
# ---------------------------------------------------------------------------------------

@check("C12")
def width_reencoding_keeps_advances(tier, rnd):
    """optimizeWidths(widths) -> (defaultWidthX, nominalWidthX); encoding each advance w as
    'omitted' when w == default and as the operand w - nominal otherwise and reading it back
    through T2CharString.draw gives w again for every glyph; the width operand takes the number of
    bytes the Type 2 integer encoding prescribes (1 / 2 / 3), and the choice is as cheap (byteCost) as
    an exhaustive search over the break points of the cost function.  T2CharStringPen: a path and a
    width drawn into the pen come back from the charstring it builds."""
    from fontTools.cffLib.width import optimizeWidths, optimizeWidthsBruteforce, byteCost
    from fontTools.misc.psCharStrings import T2CharString
    from fontTools.pens.recordingPen import RecordingPen

    r = Result("width lists: single value, all equal, two clusters at distance 107/108/1131/1132 +-1, monospace + few, seeded proportional lists "
               "(1..400 glyphs, widths 0..3000), T2CharStringPen round trip; distinct = (shape, size class)")
    lists = []
    for d in (107, 108, 109, 215, 216, 1131, 1132, 1133, 2263, 2264):
        for a, b in ((1, 1), (5, 1), (1, 5), (3, 3)):
            lists.append(("two", [500] * a + [500 + d] * b))
            lists.append(("three", [500] * a + [500 + d] * b + [500 - d] * a))
    lists += [("single", [600]), ("single", [0]), ("equal", [1000] * 7), ("mono+", [600] * 50 + [0, 1200, 300])]
    for _ in range(120 if tier == "quick" else 2500):
        n = rnd.choice((1, 2, 3, 5, 10, 40, 400))
        style = rnd.random()
        if style < 0.4:
            ws = [rnd.randint(0, 3000) for _ in range(n)]
        elif style < 0.7:
            c = [rnd.randint(200, 1200) for _ in range(3)]
            ws = [rnd.choice(c) + rnd.choice((0, 0, 0, rnd.randint(-120, 120))) for _ in range(n)]
        else:
            ws = [rnd.choice((250, 500, 556, 600, 667, 722, 1000, 1000 + 1131, 1000 - 1132)) for _ in range(n)]
        lists.append(("seeded", ws))
    for shape, ws in lists:
        r.case((shape, len(ws) // 10, max(ws) - min(ws) > 1131))
        try:
            default, nominal = optimizeWidths(ws)
        except Exception as e:
            r.fail("optimizeWidths(%r) raised %s: %s" % (ws[:20], type(e).__name__, e))
            continue
        for w in sorted(set(ws)):
            prog = ([] if w == default else [w - nominal]) + [10, 20, "rmoveto", 5, "hlineto", "endchar"]
            cs = T2CharString(program=list(prog), private=Priv(nominal, default))
            cs.compile()
            size = len(cs.bytecode)
            cs.decompile()
            cs.draw(RecordingPen())
            if cs.width != w:
                r.fail("widths %r: default=%r nominal=%r; advance %d re-encoded as %r reads back as %r" % (ws[:20], default, nominal, w, prog[:1] if w != default else "omitted", cs.width))
                break
            base = T2CharString(program=[10, 20, "rmoveto", 5, "hlineto", "endchar"], private=Priv())
            base.compile()
            extra = size - len(base.bytecode)
            want = 0 if w == default else (1 if abs(w - nominal) <= 107 else 2 if abs(w - nominal) <= 1131 else 3 if -32768 <= w - nominal <= 32767 else 5)
            if extra != want:
                r.fail("width operand %d takes %d bytes, expected %d" % (w - nominal, extra, want))
        if len(set(ws)) <= 40:
            # exhaustive over the break points of the (piecewise constant) cost function
            uniq = sorted(set(ws))
            noms = sorted({w + d for w in uniq for d in (0, 107, -107, 108, -108, 1131, -1131, 1132, -1132) if uniq[0] <= w + d <= uniq[-1]})
            bd, bn = min(((d, nn) for nn in noms for d in uniq), key=lambda dn: byteCost(ws, dn[0], dn[1]))
            if max(ws) - min(ws) <= 60:
                bd2, bn2 = optimizeWidthsBruteforce(ws)
                if byteCost(ws, bd2, bn2) < byteCost(ws, bd, bn):
                    bd, bn = bd2, bn2
            if byteCost(ws, default, nominal) > byteCost(ws, bd, bn):
                r.fail("optimizeWidths(%r) = (%d, %d) costs %d bytes, brute force finds (%d, %d) at %d" % (ws, default, nominal, byteCost(ws, default, nominal), bd, bn, byteCost(ws, bd, bn)))
    # T2CharStringPen: path + width -> charstring -> path + width
    from fontTools.pens.t2CharStringPen import T2CharStringPen
    for _ in range(150 if tier == "quick" else 3000):
        segs = [[("c", rnd.choice(CURVE_PATTERNS)) if rnd.random() < 0.5 else ("l", rnd.choice(LINE_PATTERNS)) for _s in range(rnd.randint(1, 12))] for _c in range(rnd.randint(1, 3))]
        src = gen_general_program(rnd, segs, floats=False, width=None, hints=False)
        _w, path, _d = t2_run(src)
        nominal, default = rnd.choice(((0, 0), (500, 600), (-20, 1000)))
        w = rnd.choice((default, 600, 0, 1234, default + 1))
        cff2 = rnd.random() < 0.3
        r.case(("pen", cff2, w == default))
        pen = T2CharStringPen(None if cff2 else w, None, CFF2=cff2)
        for op, args in path:
            getattr(pen, op)(*args)
        priv = Priv(nominal, default)
        cs = pen.getCharString(private=priv, optimize=rnd.random() < 0.8)
        prog = list(cs.program)
        # the pen writes the width operand as given (the caller subtracts nominalWidthX)
        try:
            w1, p1, d1 = t2_run(prog, 0, None)
        except T2Error as e:
            r.fail("T2CharStringPen emitted an illegal program (%s): %s" % (e, show(prog)))
            continue
        if canon_fill(p1) != canon_fill(path):
            r.fail("T2CharStringPen changed the outline: %s -> %s" % (show(src), show(prog)))
        if not cff2 and w1 != w:
            r.fail("T2CharStringPen(width=%r) encodes width %r: %s" % (w, w1, show(prog)))
        if d1 > (513 if cff2 else 48):
            r.fail("T2CharStringPen program needs %d stack entries: %s" % (d1, show(prog)))
    r.sample({"widths": lists[0][1], "default,nominal": optimizeWidths(lists[0][1])})
    return r
