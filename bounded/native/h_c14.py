"""C14: pen adapters preserve geometry.

Observable: the pen calls received by a RecordingPen downstream of the adapter, canonicalised by
an INDEPENDENT exact (fractions.Fraction) interpreter of the pen protocol (`canon`) to a list of
contours, each a list of Bezier segments (2, 3 or 4 control points).  Super-beziers (curveTo with
more than two off-curve points), quadratic splines with implied on-curve points and contours
without any on-curve point are decomposed by that interpreter, not by BasePen."""
import itertools
import math
from fractions import Fraction as Fr

from harness import check, Result


# --------------------------------------------------------------------------------------------
# independent exact interpreter of the segment-pen and point-pen protocols
# --------------------------------------------------------------------------------------------
def P(pt):
    return (Fr(pt[0]), Fr(pt[1]))


def mid(a, b, t=Fr(1, 2)):
    return (a[0] + (b[0] - a[0]) * t, a[1] + (b[1] - a[1]) * t)


def super_bezier(p0, offs, end):
    """curveTo(*offs, end) with len(offs) >= 3 -> cubic segments.  First/last inner polygon edges are
    halved, the others cut in thirds; consecutive handles pair up, joints lie halfway between."""
    n = len(offs)
    H = [offs[0]]
    for i in range(n - 1):
        a, b = offs[i], offs[i + 1]
        if i == 0 or i == n - 2:
            H.append(mid(a, b))
        else:
            H += [mid(a, b, Fr(1, 3)), mid(a, b, Fr(2, 3))]
    H.append(offs[-1])
    segs, cur = [], p0
    for k in range(0, len(H), 2):
        nxt = end if k + 2 >= len(H) else mid(H[k + 1], H[k + 2])
        segs.append((cur, H[k], H[k + 1], nxt))
        cur = nxt
    return segs


def quad_spline(p0, offs, end):
    segs, cur = [], p0
    for i, c in enumerate(offs):
        nxt = end if i == len(offs) - 1 else mid(c, offs[i + 1])
        segs.append((cur, c, nxt))
        cur = nxt
    return segs


def curve_segments(kind, p0, offs, end):
    n = len(offs)
    if n == 0:
        return [(p0, end)]
    if kind == "q" or n == 1:
        return quad_spline(p0, offs, end)
    if n == 2:
        return [(p0, offs[0], offs[1], end)]
    return super_bezier(p0, offs, end)


def canon(value):
    """RecordingPen.value -> list of ('c', closed, [segments]) / ('comp', name, 6 Fractions)."""
    out, cur, segs = [], None, None
    for op, args in value:
        if op == "moveTo":
            cur, segs, tag = P(args[0]), [], "c"
            start = cur
        elif op == "lineTo":
            segs.append((cur, P(args[0])))
            cur = P(args[0])
        elif op in ("curveTo", "qCurveTo"):
            if args[-1] is None:
                offs = [P(a) for a in args[:-1]]
                cur = start = mid(offs[-1], offs[0])
                segs, tag = [], "b"
                end = start
            else:
                offs, end = [P(a) for a in args[:-1]], P(args[-1])
            segs += curve_segments("q" if op == "qCurveTo" else "c", cur, offs, end)
            cur = end
        elif op in ("closePath", "endPath"):
            closed = op == "closePath"
            if closed and cur != start:
                segs.append((cur, start))
            out.append((tag, closed and bool(segs), start, segs))
            cur = segs = None
        elif op == "addComponent":
            out.append(("comp", args[0], tuple(Fr(v) for v in args[1])))
        else:
            raise ValueError(op)
    assert segs is None, "unterminated contour"
    return out


def canon_points(pvalue):
    """RecordingPointPen.value -> same canonical form, interpreting the point-pen protocol."""
    out, pts = [], None
    for op, args, kw in pvalue:
        if op == "beginPath":
            pts = []
        elif op == "addPoint":
            pts.append((P(args[0]), args[1]))
        elif op == "addComponent":
            out.append(("comp", args[0], tuple(Fr(v) for v in args[1])))
        elif op == "endPath":
            if not pts:
                pts = None
                continue
            if pts[0][1] == "move":
                closed, start, rest = False, pts[0][0], pts[1:]
            else:
                closed = True
                on = [i for i, (_, t) in enumerate(pts) if t is not None]
                if not on:
                    offs = [p for p, _ in pts]
                    start = mid(offs[-1], offs[0])
                    out.append(("b", True, start, quad_spline(start, offs, start)))
                    pts = None
                    continue
                rest = pts[on[0] + 1:] + pts[:on[0] + 1]
                start = pts[on[0]][0]
            segs, cur, offs = [], start, []
            for p, t in rest:
                if t is None:
                    offs.append(p)
                    continue
                segs += curve_segments("q" if t == "qcurve" else "c", cur, offs, p) if (offs or t != "line") else [(cur, p)]
                cur, offs = p, []
            if len(pts) == 1:
                segs = []
            out.append(("c", closed and bool(segs), start, segs))
            pts = None
    return out


def degenerate(seg):
    return all(p == seg[0] for p in seg)


def normal(contours, rotate="blobs", keep_degenerate=False, keep_points=True, force_closed=False):
    """Comparable form.  rotate=True: closed contours modulo the choice of start point; "blobs": only
    contours without on-curve point (tag 'b'), whose start point is not a point of the input; False:
    never.  A contour all of whose segments have zero length is a single point."""
    out = []
    for c in contours:
        if c[0] == "comp":
            out.append(c)
            continue
        tag, closed, start, segs = c
        if force_closed and segs and not closed:
            segs = list(segs)
            if segs[-1][-1] != start:
                segs.append((segs[-1][-1], start))
            closed = True
        if not keep_degenerate or all(degenerate(s) for s in segs):
            segs = [s for s in segs if not degenerate(s)]
        if not segs:
            if keep_points:
                out.append(("pt", start))
            continue
        segs = tuple(segs)
        if closed and (rotate is True or (rotate == "blobs" and tag == "b")):
            segs = min(segs[i:] + segs[:i] for i in range(len(segs)))
        out.append(("c", closed, segs))
    return out


def merge_collinear_lines(contours):
    """join consecutive line segments that continue in the same direction (same point set, same order)"""
    out = []
    for c in contours:
        if c[0] == "comp":
            out.append(c)
            continue
        segs = []
        for s in c[3]:
            if degenerate(s):
                continue
            if segs and len(s) == 2 and len(segs[-1]) == 2:
                (a, b), (_, d) = segs[-1], s
                u, v = (b[0] - a[0], b[1] - a[1]), (d[0] - b[0], d[1] - b[1])
                if u[0] * v[1] - u[1] * v[0] == 0 and u[0] * v[0] + u[1] * v[1] > 0:
                    segs[-1] = (a, d)
                    continue
            segs.append(s)
        out.append((c[0], c[1], c[2], segs))
    return out


def has_axis_parallel_spike(contours):
    """two consecutive horizontal (or vertical) line segments running in opposite directions"""
    for c in contours:
        segs = [s for s in c[3] if not degenerate(s)] if c[0] != "comp" else []
        for s, t in zip(segs, segs[1:]):
            if len(s) == 2 and len(t) == 2:
                for ax in (0, 1):
                    if s[0][ax] == s[1][ax] == t[1][ax] and (s[1][1 - ax] - s[0][1 - ax]) * (t[1][1 - ax] - t[0][1 - ax]) < 0:
                        return True
    return False


def reversed_geometry(contours):
    out = []
    for c in contours:
        if c[0] == "comp":
            out.append(c)
            continue
        tag, closed, start, segs = c
        rs = [tuple(reversed(s)) for s in reversed(segs)]
        out.append((tag, closed, start if closed or not segs else segs[-1][-1], rs))
    return out


def mapped(contours, f):
    return [c if c[0] == "comp" else (c[0], c[1], f(c[2]), [tuple(f(p) for p in s) for s in c[3]]) for c in contours]


def explicit_ops(contours):
    """canonical contours -> pen calls using only lineTo / 2-point qCurveTo / 3-point curveTo."""
    ops = []
    for _, closed, start, segs in contours:
        ops.append(("moveTo", (fl(start),)))
        for s in segs:
            ops.append(({2: "lineTo", 3: "qCurveTo", 4: "curveTo"}[len(s)], tuple(fl(p) for p in s[1:])))
        ops.append(("closePath" if closed else "endPath", ()))
    return ops


def fl(p):
    return tuple(int(v) if v.denominator == 1 else float(v) for v in p)


def replay(ops, pen):
    for op, args in ops:
        getattr(pen, op)(*args)


def power_basis(cs):
    d = len(cs) - 1
    return [math.comb(d, k) * sum((-1) ** (k - i) * math.comb(k, i) * cs[i] for i in range(k + 1)) for k in range(d + 1)]


def line_integral(a, b, pa=1):
    """int_0^1 a(t)^pa * b'(t) dt for polynomials in the power basis (exact)."""
    if pa == 2:
        sq = [Fr(0)] * (2 * len(a) - 1)
        for i, u in enumerate(a):
            for j, v in enumerate(a):
                sq[i + j] += u * v
        a = sq
    return sum(u * k * v / (j + k) for j, u in enumerate(a) for k, v in enumerate(b) if k >= 1)


def exact_area_moments(contours):
    """signed area (counter-clockwise positive), int x dA, int y dA by Green's theorem."""
    area = mx = my = Fr(0)
    for c in contours:
        for s in c[3]:
            X, Y = power_basis([p[0] for p in s]), power_basis([p[1] for p in s])
            area += (line_integral(X, Y) - line_integral(Y, X)) / 2
            mx += line_integral(X, Y, 2) / 2
            my -= line_integral(Y, X, 2) / 2
    return area, mx, my


def exact_bounds(contours):
    lo = [None, None]
    hi = [None, None]
    for c in contours:
        for s in ([(c[2],)] if not c[3] else c[3]):
            for ax in (0, 1):
                cs = [float(p[ax]) for p in s]
                vals = [cs[0], cs[-1]]
                if len(cs) >= 3:
                    co = [float(v) for v in power_basis([p[ax] for p in s])]
                    der = [k * v for k, v in enumerate(co)][1:]
                    if len(der) == 2:
                        roots = [-der[0] / der[1]] if der[1] else []
                    else:
                        a, b, cc = der[2], der[1], der[0]
                        if a == 0:
                            roots = [-cc / b] if b else []
                        else:
                            disc = b * b - 4 * a * cc
                            roots = [(-b + sg * math.sqrt(disc)) / (2 * a) for sg in (1, -1)] if disc >= 0 else []
                    vals += [sum(v * t ** k for k, v in enumerate(co)) for t in roots if 0 < t < 1]
                lo[ax] = min(vals) if lo[ax] is None else min(lo[ax], *vals)
                hi[ax] = max(vals) if hi[ax] is None else max(hi[ax], *vals)
    return (lo[0], lo[1], hi[0], hi[1])


def close(a, b, tol=1e-7):
    return abs(a - b) <= tol * max(1.0, abs(a), abs(b))


# --------------------------------------------------------------------------------------------
# generators
# --------------------------------------------------------------------------------------------
KINDS = ("L", "Lz", "Q1", "Q2", "Q3", "Q5", "C2", "C3", "C4", "C5", "C6")


def coord(rnd, mode):
    if mode == "even":
        return 2 * rnd.randint(-300, 300)
    v = rnd.randint(-600, 600)
    if mode == "dyadic" and rnd.random() < 0.5:
        return v + rnd.choice((0.5, 0.25, 0.75, 0.125))
    if mode == "float" and rnd.random() < 0.7:
        return v + rnd.random()
    return v


def point(rnd, mode, prev=None, dup=0.12):
    if prev is not None:
        u = rnd.random()
        if u < dup:
            return prev                                  # coincident points
        if u < dup + 0.07:
            return (prev[0], coord(rnd, mode))           # vertical / horizontal neighbours
        if u < dup + 0.14:
            return (coord(rnd, mode), prev[1])
    return (coord(rnd, mode), coord(rnd, mode))


def make_contour(rnd, kinds, closed, end_on_start, mode="int"):
    start = point(rnd, mode)
    ops, cur = [("moveTo", (start,))], start
    for i, k in enumerate(kinds):
        last = i == len(kinds) - 1
        end = start if (last and end_on_start) else point(rnd, mode, cur)
        if k == "Lz":
            end = cur
        if k[0] == "L":
            ops.append(("lineTo", (end,)))
        else:
            offs = []
            for _ in range(int(k[1:])):
                offs.append(point(rnd, mode, offs[-1] if offs else cur))
            ops.append(("qCurveTo" if k[0] == "Q" else "curveTo", tuple(offs) + (end,)))
        cur = end
    ops.append(("closePath" if closed else "endPath", ()))
    return ops


def blob(rnd, n, mode="int"):
    offs = []
    for _ in range(n):
        offs.append(point(rnd, mode, offs[-1] if offs else None))
    if n >= 2 and rnd.random() < 0.25:
        offs[-1] = offs[0]          # first and last off-curve point coincide
    return [("qCurveTo", tuple(offs) + (None,)), ("closePath", ())]


def structures(tier, kinds=KINDS, maxlen=None, closed_only=False):
    """(kinds tuple, closed, end_on_start) - all sequences up to length 2 (quick) / 3 (thorough)."""
    maxlen = maxlen or (3 if tier == "thorough" else 2)
    for n in range(1, maxlen + 1):
        for ks in itertools.product(kinds, repeat=n):
            for closed in ((True,) if closed_only else (True, False)):
                for eos in (False, True):
                    yield ks, closed, eos


def glyph_ops(rnd, struct, mode, kinds=KINDS, blobs=True, points=True, closed_only=False):
    """the structure's contour plus 0-2 extra random contours / quadratic blobs / single points."""
    ks, closed, eos = struct
    ops = make_contour(rnd, ks, closed, eos, mode)
    for _ in range(rnd.choice((0, 0, 1, 2))):
        what = rnd.random()
        if what < 0.2 and blobs:
            extra = blob(rnd, rnd.randint(1, 6), mode)
        elif what < 0.35 and points:
            extra = [("moveTo", (point(rnd, mode),)), (rnd.choice(("closePath", "endPath")) if not closed_only else "closePath", ())]
        else:
            extra = make_contour(rnd, tuple(rnd.choice(kinds) for _ in range(rnd.randint(1, 4))),
                                 closed_only or rnd.random() < 0.7, rnd.random() < 0.3, mode)
        ops = ops + extra if rnd.random() < 0.5 else extra + ops
    return ops


def point_contour(rnd, n_on, mode, closed=True, start_off=False, cubic=False):
    """point-pen contour: list of (pt, segmentType); optionally STARTING with off-curve points."""
    pts = []
    for i in range(n_on):
        if cubic:
            noff = rnd.choice((0, 2, 2))
            t = "curve" if noff else "line"
        else:
            noff = rnd.choice((0, 0, 1, 2, 3))
            t = "qcurve" if noff else rnd.choice(("line", "line", "qcurve"))
        for _ in range(noff):
            pts.append((point(rnd, mode, pts[-1][0] if pts else None), None))
        pts.append((point(rnd, mode, pts[-1][0] if pts else None), t))
    if not closed:
        while pts[0][1] is None:
            pts.pop(0)
        pts[0] = (pts[0][0], "move")
    elif not start_off and pts[0][1] is None:
        k = [i for i, (_, t) in enumerate(pts) if t is not None][0]
        pts = pts[k:] + pts[:k]
    elif start_off and pts[0][1] is not None and any(t is None for _, t in pts):
        k = [i for i, (_, t) in enumerate(pts) if t is None][0]
        pts = pts[k:] + pts[:k]
    return pts


def draw_points(contours, pen):
    for pts in contours:
        pen.beginPath()
        for pt, t in pts:
            pen.addPoint(pt, segmentType=t)
        pen.endPath()


def blob_closes_on_itself(ops):
    """a no-on-curve contour whose first and last off-curve points coincide"""
    return any(o == "qCurveTo" and a[-1] is None and len(a) > 2 and tuple(a[0]) == tuple(a[-2]) for o, a in ops)


def show(ops):
    s = repr(ops)
    return s if len(s) < 700 else s[:700] + "..."


# --------------------------------------------------------------------------------------------
# checks
# --------------------------------------------------------------------------------------------
@check("C14")
def measuring_pens_on_super_beziers(tier, rnd):
    """BoundsPen, ControlBoundsPen, AreaPen, StatisticsPen (pens that read the current point) give,
    for an outline drawn with super-beziers / quadratic splines / no-on-curve contours, the same
    result as for the same geometry drawn as explicit single cubics and quadratics; the results equal
    an independent exact computation (Green's theorem on the exact segments, polynomial extrema)
    and are mutually consistent (bounds inside control bounds, StatisticsPen.area == AreaPen)."""
    from fontTools.pens.boundsPen import BoundsPen, ControlBoundsPen
    from fontTools.pens.areaPen import AreaPen
    from fontTools.pens.statisticsPen import StatisticsPen

    r = Result("every closed/open contour structure over %s up to length 2 (3 thorough) x {int, dyadic, float} coordinates, plus extra contours, no-on-curve blobs, single points; distinct = (structure, coordinate mode)" % (KINDS,))
    reps = 1 if tier == "quick" else 2
    for struct in structures(tier):
        for mode in ("int", "dyadic", "float"):
            for _ in range(reps):
                closed_only = struct[1]
                ops = glyph_ops(rnd, struct, mode, closed_only=closed_only)
                r.case((struct, mode))
                geo = canon(ops)
                exp = explicit_ops(geo)
                got = {}
                try:
                    for label, o in (("super", ops), ("explicit", exp)):
                        bp, cp = BoundsPen(None), ControlBoundsPen(None)
                        replay(o, bp), replay(o, cp)
                        got[label] = [bp.bounds, cp.bounds]
                        if closed_only:
                            ap, sp = AreaPen(None), StatisticsPen(None)
                            replay(o, ap), replay(o, sp)
                            got[label] += [ap.value, sp.area, sp.area * sp.meanX, sp.area * sp.meanY]
                except Exception as e:
                    r.fail("measuring pen raised %s: %s on %s" % (type(e).__name__, e, show(ops)))
                    continue
                b, cb = got["super"][:2]
                for i, name in enumerate(("BoundsPen", "ControlBoundsPen")):
                    if not all(close(x, y) for x, y in zip(got["super"][i], got["explicit"][i])):
                        r.fail("%s differs between super-bezier drawing %r and explicit drawing %r: %s" % (name, got["super"][i], got["explicit"][i], show(ops)))
                want_b = exact_bounds(geo)
                if not all(close(x, y, 1e-6) for x, y in zip(b, want_b)):
                    r.fail("BoundsPen %r != independent bounds %r: %s" % (b, want_b, show(ops)))
                ctl = [p for c in geo for s in ([(c[2],)] if not c[3] else c[3]) for p in s]
                want_cb = (min(p[0] for p in ctl), min(p[1] for p in ctl), max(p[0] for p in ctl), max(p[1] for p in ctl))
                if not all(close(x, float(y)) for x, y in zip(cb, want_cb)):
                    r.fail("ControlBoundsPen %r != extent of control points %r: %s" % (cb, fl(want_cb), show(ops)))
                eps = 1e-7 * max(1, max(abs(v) for v in cb))
                if not (cb[0] - eps <= b[0] and cb[1] - eps <= b[1] and b[2] <= cb[2] + eps and b[3] <= cb[3] + eps):
                    r.fail("bounds %r not inside control bounds %r: %s" % (b, cb, show(ops)))
                if closed_only:
                    area, mx, my = exact_area_moments(geo)
                    scale = max(1.0, max(abs(v) for v in cb)) ** 2
                    for i, (name, want) in enumerate((("AreaPen.value", area), ("StatisticsPen.area", area), ("StatisticsPen.area*meanX", mx), ("StatisticsPen.area*meanY", my))):
                        s_, e_ = got["super"][2 + i], got["explicit"][2 + i]
                        sc = scale * (1 if i < 2 else math.sqrt(scale))
                        if abs(s_ - e_) > 1e-9 * sc:
                            r.fail("%s differs between super-bezier drawing (%r) and explicit drawing (%r): %s" % (name, s_, e_, show(ops)))
                        if abs(s_ - float(want)) > 1e-9 * sc:
                            r.fail("%s = %r but exact value is %r: %s" % (name, s_, float(want), show(ops)))
    r.sample({"ops": show(make_contour(rnd, ("C4", "Q3"), True, False))})
    return r


@check("C14")
def segment_point_adapters_and_recording(tier, rnd):
    """SegmentToPointPen -> PointToSegmentPen (with and without GuessSmoothPointPen, both
    outputImpliedClosingLine settings) delivers exactly the geometry it was given, duplicate points
    and start points included; PointToSegmentPen delivers the geometry the point-pen protocol
    defines for the points (contours starting off-curve, no on-curve point, one point), and
    PointToSegmentPen -> SegmentToPointPen returns the same cyclic point sequence; RecordingPen /
    RecordingPointPen replay is the identity."""
    from fontTools.pens.pointPen import PointToSegmentPen, SegmentToPointPen
    from fontTools.pens.recordingPen import RecordingPen, RecordingPointPen

    r = Result("segment side: all structures up to length 2/3 x coordinate modes; point side: closed/open x start-off-curve x 0..4 on-curve points x quadratic/cubic, blobs of 1..6 off-curves, single points; distinct = structure")
    for struct in structures(tier):
        ops = glyph_ops(rnd, struct, rnd.choice(("int", "dyadic", "float")))
        r.case(("seg", struct))
        want = normal(canon(ops), keep_degenerate=True)
        for guess in (True, False):
            for implied in (False, True):
                rec = RecordingPen()
                try:
                    replay(ops, SegmentToPointPen(PointToSegmentPen(rec, outputImpliedClosingLine=implied), guessSmooth=guess))
                    got = normal(canon(rec.value), keep_degenerate=True)
                except Exception as e:
                    r.fail("segment->point->segment raised %s: %s on %s" % (type(e).__name__, e, show(ops)))
                    continue
                if got != want:
                    r.fail("SegmentToPointPen->PointToSegmentPen(guessSmooth=%s, outputImpliedClosingLine=%s) changed the geometry: in %s out %s" % (guess, implied, show(ops), show(rec.value)))
        rec, rec2 = RecordingPen(), RecordingPen()
        replay(ops, rec)
        rec.replay(rec2)
        if rec.value != [(o, tuple(a)) for o, a in ops] or rec2.value != rec.value:
            r.fail("RecordingPen record/replay is not the identity on %s" % show(ops))
    n = 400 if tier == "quick" else 4000
    for it in range(n):
        closed, start_off, cubic = rnd.random() < 0.8, rnd.random() < 0.5, rnd.random() < 0.3
        kind = rnd.random()
        if kind < 0.15:
            contours = [[(point(rnd, "int", None), None) for _ in range(rnd.randint(1, 6))]]
            key = ("pt-blob", len(contours[0]))
        elif kind < 0.25:
            contours = [[(point(rnd, "int"), rnd.choice(("move", "line", "qcurve", "curve")))]]
            key = ("pt-single", contours[0][0][1])
        else:
            n_on = rnd.randint(1, 4)
            contours = [point_contour(rnd, n_on, rnd.choice(("int", "dyadic")), closed, start_off, cubic) for _ in range(rnd.choice((1, 1, 2, 3)))]
            key = ("pt", closed, start_off, cubic, n_on, len(contours))
        r.case(key)
        prec = RecordingPointPen()
        draw_points(contours, prec)
        want = normal(canon_points(prec.value), rotate=True, keep_degenerate=True)
        rec, back, prec2 = RecordingPen(), RecordingPointPen(), RecordingPointPen()
        try:
            draw_points(contours, PointToSegmentPen(rec))
            got = normal(canon(rec.value), rotate=True, keep_degenerate=True)
            draw_points(contours, PointToSegmentPen(SegmentToPointPen(back, guessSmooth=False)))
            prec.replay(prec2)
        except Exception as e:
            r.fail("point->segment raised %s: %s on %r" % (type(e).__name__, e, contours))
            continue
        if got != want:
            r.fail("PointToSegmentPen geometry differs from the point-pen meaning of %r: got %s" % (contours, show(rec.value)))
        if prec2.value != prec.value:
            r.fail("RecordingPointPen replay is not the identity on %r" % (contours,))
        out = [[(a[0], a[1]) for op, a, _ in grp if op == "addPoint"] for k, grp in itertools.groupby(back.value, lambda v: v[0] == "beginPath") if not k]
        for cin, cout in zip(contours, out):
            cin = [(tuple(p), t) for p, t in cin]
            cout = [(tuple(p), t) for p, t in cout]
            if len(cin) == 1:
                ok = cin[0][0] == cout[0][0] and len(cout) == 1
            elif cin[0][1] == "move":
                ok = cin == cout
            else:
                ok = any(cout == cin[i:] + cin[:i] for i in range(len(cin)))
            if not ok:
                r.fail("PointToSegmentPen->SegmentToPointPen changed the points: in %r out %r" % (cin, cout))
        if len(out) != len(contours):
            r.fail("PointToSegmentPen->SegmentToPointPen changed the number of contours of %r" % (contours,))
    r.sample({"points": repr(point_contour(rnd, 2, "int", True, True))})
    return r


@check("C14")
def reversing_pens(tier, rnd):
    """ReverseContourPen delivers every contour with segment order and direction reversed, closed
    contours keeping their start point; applying it twice restores the outline (start points and
    duplicate points included); AreaPen of the reversed outline is the negated area.  The same for
    ReverseContourPointPen on point contours (start off-curve, no on-curve point), where reversing
    twice restores the exact point list."""
    from fontTools.pens.reverseContourPen import ReverseContourPen
    from fontTools.pens.pointPen import ReverseContourPointPen, PointToSegmentPen
    from fontTools.pens.recordingPen import RecordingPen, RecordingPointPen
    from fontTools.pens.areaPen import AreaPen

    r = Result("all structures up to length 2/3 with extra contours, blobs, single points, both outputImpliedClosingLine settings; point contours as in segment_point_adapters; distinct = structure")
    for struct in structures(tier):
        ops = glyph_ops(rnd, struct, rnd.choice(("int", "dyadic")))
        geo = canon(ops)
        for implied in (False, True):
            r.case(("seg", struct, implied))
            once, twice = RecordingPen(), RecordingPen()
            try:
                replay(ops, ReverseContourPen(once, outputImpliedClosingLine=implied))
                replay(ops, ReverseContourPen(ReverseContourPen(twice, outputImpliedClosingLine=implied), outputImpliedClosingLine=implied))
                g1, g2 = canon(once.value), canon(twice.value)
            except Exception as e:
                r.fail("ReverseContourPen raised %s: %s on %s" % (type(e).__name__, e, show(ops)))
                continue
            if normal(g1, keep_degenerate=True) != normal(reversed_geometry(geo), keep_degenerate=True):
                r.fail("ReverseContourPen(outputImpliedClosingLine=%s) output is not the reversed outline: in %s out %s" % (implied, show(ops), show(once.value)))
            if normal(g2, keep_degenerate=True) != normal(geo, keep_degenerate=True):
                r.fail("reversing twice (outputImpliedClosingLine=%s) does not restore the outline: in %s out %s" % (implied, show(ops), show(twice.value)))
            if struct[1] and all(c[1] or not c[3] for c in geo):
                a0, a1 = AreaPen(None), AreaPen(None)
                try:
                    replay(ops, a0), replay(once.value, a1)
                except NotImplementedError:
                    r.fail("AreaPen rejects the reversed closed outline %s" % show(once.value))
                    continue
                exact = float(exact_area_moments(geo)[0])
                if abs(a0.value + a1.value) > 1e-9 * max(1.0, abs(exact)) + 1e-6 or abs(a0.value - exact) > 1e-9 * max(1.0, abs(exact)) + 1e-6:
                    r.fail("area %r, reversed area %r, exact %r: %s" % (a0.value, a1.value, exact, show(ops)))
    for it in range(400 if tier == "quick" else 4000):
        closed, start_off, cubic = rnd.random() < 0.75, rnd.random() < 0.5, rnd.random() < 0.3
        if rnd.random() < 0.15:
            contours = [[(point(rnd, "int"), None) for _ in range(rnd.randint(1, 6))]]
            key = ("pt-blob", len(contours[0]))
        else:
            n_on = rnd.randint(1, 4)
            contours = [point_contour(rnd, n_on, "int", closed, start_off, cubic) for _ in range(rnd.choice((1, 2)))]
            key = ("pt", closed, start_off, cubic, n_on)
        r.case(key)
        orig, once, twice = RecordingPointPen(), RecordingPointPen(), RecordingPointPen()
        try:
            draw_points(contours, orig)
            draw_points(contours, ReverseContourPointPen(once))
            draw_points(contours, ReverseContourPointPen(ReverseContourPointPen(twice)))
            g0, g1 = canon_points(orig.value), canon_points(once.value)
        except Exception as e:
            r.fail("ReverseContourPointPen raised %s: %s on %r" % (type(e).__name__, e, contours))
            continue
        if normal(g1, rotate=True, keep_degenerate=True) != normal(reversed_geometry(g0), rotate=True, keep_degenerate=True):
            r.fail("ReverseContourPointPen output is not the reversed outline: in %r out %r" % (contours, once.value))
        strip = lambda v: [(op, a[:2]) for op, a, _ in v]
        firsts = lambda v: [v[i + 1][1][0] for i, (op, a, _) in enumerate(v) if op == "beginPath"]
        if closed and firsts(once.value) != firsts(orig.value):
            r.fail("ReverseContourPointPen moved the first point of a closed contour: in %r out %r" % (contours, once.value))
        if strip(twice.value) != strip(orig.value):
            r.fail("ReverseContourPointPen twice does not restore the point list: in %r out %r" % (contours, twice.value))
    r.sample({"ops": show(make_contour(rnd, ("L", "C2"), True, True))})
    return r


class _G:
    def __init__(self, ops):
        self.ops = ops

    def draw(self, pen):
        replay(self.ops, pen)

    def drawPoints(self, pen):
        from fontTools.pens.pointPen import SegmentToPointPen
        replay(self.ops, SegmentToPointPen(pen, guessSmooth=False))


def rand_transform(rnd, invertible=True):
    while True:
        t = tuple(rnd.choice((0, 1, -1, 2, -2, 0.5, -0.5, 0.25, 1.5, 3, -0.75)) for _ in range(4)) + (rnd.randint(-200, 200), rnd.randint(-200, 200) + rnd.choice((0, 0.5)))
        if not invertible or t[0] * t[3] - t[1] * t[2] != 0:
            return t


def apply_t(t):
    t = [Fr(v) for v in t]
    return lambda p: (t[0] * p[0] + t[2] * p[1] + t[4], t[1] * p[0] + t[3] * p[1] + t[5])


def mapped_ops(ops, f):
    """the pen calls with every given point mapped (affine maps commute with the decompositions)"""
    return [(o, tuple(p if p is None else f(P(p)) for p in a)) for o, a in ops]


@check("C14")
def transform_rounding_filter_pens(tier, rnd):
    """TransformPen / TransformPointPen deliver the outline with every control point mapped by the
    affine map (exact for dyadic matrices); nesting two equals one pen with Transform.transform;
    Transform.inverse undoes it; components are re-expressed so that decomposing (Decomposing
    RecordingPen, nested components, reverseFlipped) gives the base geometry mapped by the composed
    transform; RoundingPen delivers otRound of every coordinate and nothing else; FilterPen,
    ContourFilterPen, DecomposingFilterPen without components are the identity."""
    from fontTools.pens.transformPen import TransformPen, TransformPointPen
    from fontTools.pens.roundingPen import RoundingPen
    from fontTools.pens.filterPen import FilterPen, ContourFilterPen, DecomposingFilterPen
    from fontTools.pens.recordingPen import RecordingPen, DecomposingRecordingPen, RecordingPointPen, DecomposingRecordingPointPen
    from fontTools.pens.pointPen import SegmentToPointPen
    from fontTools.misc.transform import Transform

    r = Result("all structures up to length 2/3 x random dyadic affine maps (incl. flips, singular for the forward direction); component trees of depth 2; distinct = (structure, sign of determinant)")
    for struct in structures(tier):
        ops = glyph_ops(rnd, struct, rnd.choice(("int", "dyadic")))
        t, u = rand_transform(rnd, invertible=False), rand_transform(rnd)
        det = t[0] * t[3] - t[1] * t[2]
        r.case((struct, (det > 0) - (det < 0)))
        geo = canon(ops)
        try:
            rec = RecordingPen()
            replay(ops, TransformPen(rec, t))
            want_t = canon(mapped_ops(ops, apply_t(t)))
            if normal(canon(rec.value), keep_degenerate=True) != normal(want_t, keep_degenerate=True):
                r.fail("TransformPen(%r) output is not the mapped outline: in %s out %s" % (t, show(ops), show(rec.value)))
            prec = RecordingPointPen()
            replay(ops, SegmentToPointPen(TransformPointPen(prec, Transform(*t)), guessSmooth=False))
            if normal(canon_points(prec.value), rotate=True) != normal(want_t, rotate=True):
                r.fail("TransformPointPen(%r) output is not the mapped outline: in %s" % (t, show(ops)))
            # nesting: the inner pen (u) is applied to what the outer adapter (t) hands on
            nested, single = RecordingPen(), RecordingPen()
            replay(ops, TransformPen(TransformPen(nested, u), t))
            replay(ops, TransformPen(single, Transform(*u).transform(t)))
            both = canon(mapped_ops(mapped_ops(ops, apply_t(t)), apply_t(u)))
            if not (normal(canon(nested.value), keep_degenerate=True) == normal(canon(single.value), keep_degenerate=True) == normal(both, keep_degenerate=True)):
                r.fail("TransformPen(TransformPen(p, %r), %r) != TransformPen(p, u.transform(t)) != exact composition: %s" % (u, t, show(ops)))
            # inverse: every point comes back within 1e-9 (inputs are multiples of 1/8: snap, compare exactly)
            inv = RecordingPen()
            replay(ops, TransformPen(TransformPen(inv, Transform(*u).inverse()), u))
            snapped = [(o, tuple(p if p is None else (round(p[0] * 1024) / 1024, round(p[1] * 1024) / 1024) for p in a)) for o, a in inv.value]
            drift = max([abs(v - w) for (_, a), (_, b) in zip(inv.value, snapped) for p, q in zip(a, b) if p is not None for v, w in zip(p, q)] or [0])
            if drift > 1e-9 or snapped != [(o, tuple(a)) for o, a in ops]:
                r.fail("Transform.inverse() does not undo %r (drift %g) on %s" % (u, drift, show(ops)))
            # rounding: every point handed to the pen is rounded half up, nothing else changes
            rr = RecordingPen()
            rounded = [(o, tuple(p if p is None else (math.floor(Fr(p[0]) + Fr(1, 2)), math.floor(Fr(p[1]) + Fr(1, 2))) for p in a)) for o, a in ops]
            try:
                replay(ops, RoundingPen(rr))
            except TypeError as e:
                r.fail("RoundingPen raised TypeError: %s on %s" % (e, show(ops)),
                       known_id="C14-roundingpen-no-oncurve-contour" if any(a and a[-1] is None for _, a in ops) else None)
            else:
                if normal(canon(rr.value), keep_degenerate=True) != normal(canon(rounded), keep_degenerate=True) or any(not isinstance(v, int) for _, args in rr.value for p in args if p is not None for v in p):
                    r.fail("RoundingPen output is not the outline with every given point otRound-ed: in %s out %s" % (show(ops), show(rr.value)))
            for cls in (FilterPen, ContourFilterPen, lambda p: DecomposingFilterPen(p, {})):
                fr = RecordingPen()
                replay(ops, cls(fr))
                if fr.value != [(o, tuple(a)) for o, a in ops]:
                    r.fail("%s is not the identity: in %s out %s" % (getattr(cls, "__name__", "DecomposingFilterPen"), show(ops), show(fr.value)))
            # components: base <- mid(t) <- top(u), plus a contour of its own
            own = make_contour(rnd, ("L", "Q2"), True, False)
            glyphs = {"base": _G(ops), "mid": _G([("addComponent", ("base", t))] + own), "top": _G([("addComponent", ("mid", Transform(*u)))])}
            want = mapped(mapped(geo, apply_t(t)) + canon(own), apply_t(u))
            for flipped in (False, True):
                d = DecomposingRecordingPen(glyphs, reverseFlipped=flipped)
                glyphs["top"].draw(d)
                dp = DecomposingRecordingPointPen(glyphs, reverseFlipped=flipped)
                glyphs["top"].drawPoints(dp)
                w = want
                if flipped:
                    # base arrives as ONE component with the composed transform (reversed iff its determinant
                    # is negative); mid's own contour passes through the pen chain of component u
                    du = u[0] * u[3] - u[1] * u[2]
                    nb, no = len(geo), len(canon(own))
                    w = [c if not rev else reversed_geometry([c])[0] for c, rev in zip(want, [det * du < 0] * nb + [du < 0] * no)]
                    w = [("c", c[1], c[2], c[3]) if c[0] == "c" else c for c in w]
                if normal(canon(d.value), rotate=True) != normal(w, rotate=True):
                    r.fail("DecomposingRecordingPen(reverseFlipped=%s) of nested components %r, %r is not the mapped base outline: base %s got %s" % (flipped, t, u, show(ops), show(d.value)))
                if normal(canon_points(dp.value), rotate=True) != normal(w, rotate=True):
                    r.fail("DecomposingRecordingPointPen(reverseFlipped=%s) of nested components %r, %r is not the mapped base outline: base %s" % (flipped, t, u, show(ops)))
            # a component seen through TransformPen and decomposed afterwards == decomposed first
            late = DecomposingRecordingPen(glyphs)
            TransformPen(late, u).addComponent("base", t)
            if normal(canon(late.value)) != normal(mapped(mapped(geo, apply_t(t)), apply_t(u))):
                r.fail("TransformPen(%r).addComponent('base', %r) decomposes to a different outline: base %s" % (u, t, show(ops)))
        except Exception as e:
            r.fail("transform/rounding/filter pens raised %s: %s on %s" % (type(e).__name__, e, show(ops)))
    r.sample({"transform": repr(rand_transform(rnd))})
    return r


def tt_kinds():
    return ("L", "Lz", "Q1", "Q2", "Q3", "Q5", "C2")


def make_impliable(rnd, ops):
    """move on-curve points between two off-curve points of the same type onto the midpoint (even coordinates)."""
    ops = [list(o) for o in ops]
    for i in range(len(ops) - 1):
        (o1, a1), (o2, a2) = ops[i], ops[i + 1]
        if o1 == o2 and o1 in ("qCurveTo", "curveTo") and len(a1) > 1 and len(a2) > 1 and a1[-1] is not None and rnd.random() < 0.6:
            m = ((a1[-2][0] + a2[0][0]) // 2, (a1[-2][1] + a2[0][1]) // 2)
            ops[i][1] = tuple(a1[:-1]) + (m,)
    # closed contour whose last segment and first segment are curves: start point impliable
    starts = [i for i, o in enumerate(ops) if o[0] == "moveTo"]
    for s in starts:
        e = next(j for j in range(s, len(ops)) if ops[j][0] in ("closePath", "endPath"))
        if e - s >= 3 and ops[s + 1][0] == ops[e - 1][0] and ops[s + 1][0] in ("qCurveTo", "curveTo") and len(ops[s + 1][1]) > 1 and len(ops[e - 1][1]) > 1 and rnd.random() < 0.6:
            a, b = ops[e - 1][1][-2], ops[s + 1][1][0]
            m = ((a[0] + b[0]) // 2, (a[1] + b[1]) // 2)
            ops[s][1] = (m,)
            ops[e - 1][1] = tuple(ops[e - 1][1][:-1]) + (m,)
    return [(o, tuple(a)) for o, a in ops]


@check("C14")
def truetype_glyph_build_and_redraw(tier, rnd):
    """TTGlyphPen / TTGlyphPointPen .glyph(dropImpliedOnCurves in {False, True}), optionally through
    Glyph.compile / decompile, redrawn with Glyph.draw and Glyph.drawPoints gives the input geometry
    (integer coordinates; contours closed as TrueType does; single-point contours may be dropped;
    start point free), and dropImpliedOnCurves=True leaves no on-curve point that lies exactly halfway
    between two off-curve neighbours of the same kind.  Covers multi-contour glyphs, impliable on-curve points incl. the start point,
    point-pen contours STARTING with an off-curve point, no-on-curve contours.  curveTo with more than
    two off-curve points (a super-bezier in the pen protocol) must give the same geometry or raise."""
    from fontTools.pens.ttGlyphPen import TTGlyphPen, TTGlyphPointPen
    from fontTools.pens.pointPen import SegmentToPointPen
    from fontTools.pens.recordingPen import RecordingPen, RecordingPointPen
    from fontTools.ttLib import newTable
    from fontTools.ttLib.tables._g_l_y_f import Glyph

    r = Result("all structures over (L, Lz, Q1, Q2, Q3, Q5, C2) up to length 2/3 (+C4, C6 super-beziers) with even integer coordinates, 60% of eligible on-curve points moved onto the midpoint of their off-curve neighbours, extra contours/blobs/points; point-pen contours with start_off; x {segment, point pen} x dropImpliedOnCurves x {direct, compile+decompile}; distinct = (structure, pen, drop)")
    glyf = newTable("glyf")
    glyf.glyphs = {}
    glyf.glyphOrder = []

    def implied_cubic_oncurve(g):
        start = 0
        for end in g.endPtsOfContours:
            fl_ = [g.flags[i] for i in range(start, end + 1)]
            start = end + 1
            run = [bool(f & 0x80) and not f & 1 for f in fl_]
            if all(run) or any(all(run[(i + k) % len(run)] for k in range(3)) for i in range(len(run)) if len(run) >= 3):
                return True
        return False

    def still_impliable(g):
        """on-curve points left that lie exactly halfway between two off-curve neighbours of one kind"""
        start, left = 0, []
        for end in g.endPtsOfContours:
            n = end - start + 1
            for k in range(n):
                i, p, q = start + k, start + (k - 1) % n, start + (k + 1) % n
                if g.flags[i] & 1 and not g.flags[p] & 1 and not g.flags[q] & 1 and g.flags[p] == g.flags[q]:
                    if all(g.coordinates[p][a] + g.coordinates[q][a] == 2 * g.coordinates[i][a] for a in (0, 1)):
                        left.append(i)
            start = end + 1
        return left

    def redraw_all(glyph, want, what, src, superbezier=False, hint=None):
        if "dropImpliedOnCurves=True" in what and glyph.numberOfContours > 0 and still_impliable(glyph):
            r.fail("%s left impliable on-curve points %r in place: input %s" % (what, still_impliable(glyph), show(src)))
        for via in ("direct", "binary"):
            g = glyph
            if via == "binary":
                data = glyph.compile(glyf)
                g = Glyph(data)
                g.expand(glyf)
            rec, prec = RecordingPen(), RecordingPointPen()
            g.draw(rec, glyf)
            g.drawPoints(prec, glyf)
            for label, got in (("draw", canon(rec.value)), ("drawPoints", canon_points(prec.value))):
                if normal(got, rotate=True, keep_points=False, force_closed=True) != want:
                    kid = hint
                    if superbezier:
                        kid = "C14-ttglyph-superbezier-reinterpreted"
                    elif label == "drawPoints" and implied_cubic_oncurve(g) and normal(canon(rec.value), rotate=True, keep_points=False, force_closed=True) == want:
                        # Glyph.drawPoints hands on > 2 cubic off-curve points in a row, which the pen
                        # protocol (PointToSegmentPen -> BasePen.curveTo) defines as a super-bezier
                        kid = "C14-ttglyph-drawpoints-implied-cubic-oncurve"
                    r.fail("%s, %s, Glyph.%s: redrawn geometry differs from the input %s; redrawn %s" % (what, via, label, show(src), show(rec.value) if label == "draw" else show(prec.value)), known_id=kid)
                    return

    for struct in structures(tier, kinds=tt_kinds()):
        for drop in (False, True):
            ops = glyph_ops(rnd, struct, "even", kinds=tt_kinds(), closed_only=False)
            if drop or rnd.random() < 0.3:
                ops = make_impliable(rnd, ops)
            want = normal(canon(ops), rotate=True, keep_points=False, force_closed=True)
            for penname in ("TTGlyphPen", "TTGlyphPointPen"):
                r.case((struct, penname, drop))
                try:
                    if penname == "TTGlyphPen":
                        pen = TTGlyphPen(None)
                        replay(ops, pen)
                    else:
                        pen = TTGlyphPointPen(None)
                        replay(ops, SegmentToPointPen(pen))
                    glyph = pen.glyph(dropImpliedOnCurves=drop)
                    # TTGlyphPen.closePath drops the last point of a contour when it equals the first one,
                    # also when both are OFF-curve points of a contour without on-curve point
                    hint = "C14-ttglyphpen-blob-coincident-offcurve-dropped" if penname == "TTGlyphPen" and blob_closes_on_itself(ops) else None
                    redraw_all(glyph, want, "%s.glyph(dropImpliedOnCurves=%s)" % (penname, drop), ops, hint=hint)
                except Exception as e:
                    r.fail("%s build/redraw raised %s: %s on %s" % (penname, type(e).__name__, e, show(ops)))
    # components that the pen has to decompose (the glyph mixes contours and components, or a scale does not
    # fit F2Dot14), whose base glyph is itself a composite: the nested outlines must all arrive
    for it in range(40 if tier == "quick" else 400):
        base_ops = make_contour(rnd, ("L", "L", rnd.choice(("L", "Q1"))), True, False, "even")
        other_ops = make_contour(rnd, ("L", "L", "L"), True, False, "even")
        own = make_contour(rnd, ("L", "Q1", "L"), True, False, "even")
        t_in = (1, 0, 0, 1, rnd.randint(-40, 40) * 2, rnd.randint(-40, 40) * 2)
        t_in2 = (1, 0, 0, 1, rnd.randint(-40, 40) * 2, rnd.randint(-40, 40) * 2)
        mode = ("mixed", "overflow", "mixed-deep")[it % 3]
        t_out = (1, 0, 0, 1, rnd.randint(-40, 40) * 2, rnd.randint(-40, 40) * 2) if mode != "overflow" else (rnd.choice((3, 4, -3)), 0, 0, rnd.choice((3, 2)), 0, 0)
        glyphs = {"base": _G(base_ops), "other": _G(other_ops),
                  "mid": _G([("addComponent", ("base", t_in)), ("addComponent", ("other", t_in2))]),
                  "deep": _G([("addComponent", ("mid", (1, 0, 0, 1, 10, -10)))])}
        target = "deep" if mode == "mixed-deep" else "mid"
        inner = mapped(canon(base_ops), apply_t(t_in)) + mapped(canon(other_ops), apply_t(t_in2))
        if target == "deep":
            inner = mapped(inner, apply_t((1, 0, 0, 1, 10, -10)))
        want_c = (canon(own) if mode != "overflow" else []) + mapped(inner, apply_t(t_out))
        want = normal(want_c, rotate=True, keep_points=False, force_closed=True)
        for penname in ("TTGlyphPen", "TTGlyphPointPen"):
            r.case(("nested-components", mode, penname))
            try:
                if penname == "TTGlyphPen":
                    pen = TTGlyphPen(glyphs)
                    if mode != "overflow":
                        replay(own, pen)
                    pen.addComponent(target, t_out)
                else:
                    pen = TTGlyphPointPen(glyphs)
                    if mode != "overflow":
                        replay(own, SegmentToPointPen(pen))
                    pen.addComponent(target, t_out)
                glyph = pen.glyph()
                if glyph.isComposite():
                    r.fail("%s: a glyph with %s was left composite" % (penname, mode))
                    continue
                rec = RecordingPen()
                glyph.draw(rec, glyf)
                got = normal(canon(rec.value), rotate=True, keep_points=False, force_closed=True)
                if sorted(map(repr, got)) != sorted(map(repr, want)):
                    r.fail("%s (%s): component %r %r of nested composite decomposes to %d contours %s, expected %d: %s"
                           % (penname, mode, target, t_out, len(got), show(rec.value), len(want), show(explicit_ops(want_c))))
            except Exception as e:
                r.fail("%s with nested components (%s) raised %s: %s" % (penname, mode, type(e).__name__, e))
    # super-beziers through the glyph pens: same geometry, or an error - not a different curve
    for k in ("C3", "C4", "C5", "C6"):
        for _ in range(3 if tier == "quick" else 20):
            ops = make_contour(rnd, ("L", k), True, False, "even")
            want = normal(canon(ops), rotate=True, keep_points=False, force_closed=True)
            for penname in ("TTGlyphPen", "TTGlyphPointPen"):
                r.case(("super", k, penname))
                try:
                    if penname == "TTGlyphPen":
                        pen = TTGlyphPen(None)
                        replay(ops, pen)
                    else:
                        pen = TTGlyphPointPen(None)
                        replay(ops, SegmentToPointPen(pen))
                    glyph = pen.glyph()
                    rec = RecordingPen()
                    glyph.draw(rec, glyf)
                except Exception:
                    continue      # an error instead of a wrong result is acceptable
                redraw_all(glyph, want, "%s.glyph() of a super-bezier" % penname, ops, superbezier=True)
    # point-pen input, contours starting off-curve
    for it in range(500 if tier == "quick" else 5000):
        start_off, cubic, drop = rnd.random() < 0.7, rnd.random() < 0.25, rnd.random() < 0.7
        if rnd.random() < 0.1:
            contours = [[(point(rnd, "even"), None) for _ in range(rnd.randint(2, 6))]]
            key = ("pt-blob", len(contours[0]), drop)
        else:
            n_on = rnd.randint(1, 4)
            contours = [point_contour(rnd, n_on, "even", True, start_off, cubic) for _ in range(rnd.choice((1, 2, 3)))]
            # make on-curve points impliable, in particular the LAST point of a contour starting off-curve
            for pts in contours:
                for i in range(len(pts)):
                    prv, nxt = pts[i - 1], pts[(i + 1) % len(pts)]
                    if pts[i][1] in ("qcurve", "curve") and prv[1] is None and nxt[1] is None and len(pts) > 2 and rnd.random() < 0.7:
                        pts[i] = (((prv[0][0] + nxt[0][0]) // 2, (prv[0][1] + nxt[0][1]) // 2), pts[i][1])
            key = ("pt", start_off, cubic, n_on, len(contours), drop)
        r.case(key)
        prec = RecordingPointPen()
        draw_points(contours, prec)
        want = normal(canon_points(prec.value), rotate=True, keep_points=False, force_closed=True)
        try:
            pen = TTGlyphPointPen(None)
            draw_points(contours, pen)
            redraw_all(pen.glyph(dropImpliedOnCurves=drop), want, "TTGlyphPointPen.glyph(dropImpliedOnCurves=%s)" % drop, contours)
        except Exception as e:
            r.fail("TTGlyphPointPen build/redraw raised %s: %s on %r" % (type(e).__name__, e, contours))
    r.sample({"points": repr(point_contour(rnd, 2, "even", True, True))})
    return r


@check("C14")
def charstring_and_svg_serialisers(tier, rnd):
    """T2CharStringPen -> getCharString (optimised or not, also compiled to bytecode and decompiled)
    -> T2CharString.draw gives the input geometry with quadratics exactly degree-elevated: exact
    with roundTolerance=0 on dyadic input, and with the default tolerance every redrawn coordinate is
    an integer within 0.5 of the exact one (no drift from relative encoding); the optimised charstring draws the same outline as
    the plain one up to joining lines that continue in the same direction.  SVGPathPen ->
    parse_path gives the input geometry exactly (zero-length lines and anchors may be dropped)."""
    import types
    from fontTools.pens.t2CharStringPen import T2CharStringPen
    from fontTools.pens.svgPathPen import SVGPathPen
    from fontTools.svgLib.path import parse_path
    from fontTools.pens.recordingPen import RecordingPen
    from fontTools.misc.psCharStrings import T2CharString

    r = Result("all structures up to length 2/3 with extra contours and blobs; T2: {roundTolerance 0 on lines/cubics dyadic, 0.5 on all kinds float} x optimize x bytecode round trip; SVG: int/dyadic/float coordinates; distinct = (structure, serialiser)")
    private = types.SimpleNamespace(nominalWidthX=0, defaultWidthX=0)

    def elevate(geo):
        out = []
        for c in geo:
            segs = [s if len(s) != 3 else (s[0], mid(s[0], s[1], Fr(2, 3)), mid(s[2], s[1], Fr(2, 3)), s[2]) for s in c[3]]
            out.append(("c", c[1], c[2], segs))
        return out

    for struct in structures(tier):
        # ---- T2
        for tol, mode in ((0, "dyadic"), (0.5, "float")):
            ops = glyph_ops(rnd, struct, mode, points=False)
            if tol == 0:
                ops = [(o, a) if o != "qCurveTo" else ("curveTo", a[:2] + (a[-1],) if len(a) > 2 else (a[0], a[0], a[-1])) for o, a in ops if not (o == "qCurveTo" and a[-1] is None)]
                if not any(o == "moveTo" for o, _ in ops):
                    continue
                ops = [o for i, o in enumerate(ops) if not (o[0] == "closePath" and (i == 0 or ops[i - 1][0] in ("closePath", "endPath")))]
                ops = [(o, a) if o != "curveTo" or len(a) <= 3 else ("curveTo", a[:2] + (a[-1],)) for o, a in ops]
            r.case((struct, "t2", tol))
            # not optimised: every segment is kept, in order -> compare position by position;
            # optimised: zero-length lines may go, nothing else changes
            want = normal(elevate(canon(ops)), rotate=False, keep_degenerate=True, keep_points=False, force_closed=True)
            for via in ("program", "bytecode"):
                drawn = {}
                for optimize in (False, True):
                    try:
                        pen = T2CharStringPen(500, None, roundTolerance=tol)
                        replay(ops, pen)
                        cs = pen.getCharString(private=private, optimize=optimize)
                        if via == "bytecode":
                            cs.compile()
                            cs = T2CharString(bytecode=cs.bytecode, private=private)
                            cs.decompile()
                        rec = RecordingPen()
                        cs.draw(rec)
                        drawn[optimize] = canon(rec.value)
                    except Exception as e:
                        r.fail("T2CharStringPen(roundTolerance=%s, optimize=%s, %s) raised %s: %s on %s" % (tol, optimize, via, type(e).__name__, e, show(ops)))
                if len(drawn) != 2:
                    continue
                got = normal(drawn[False], rotate=False, keep_degenerate=True, keep_points=False, force_closed=True)
                ok = len(got) == len(want) and all(len(a[2]) == len(b[2]) and all(len(s) == len(t) for s, t in zip(a[2], b[2])) for a, b in zip(got, want))
                if ok:
                    for a, b in zip(got, want):
                        for s, t in zip(a[2], b[2]):
                            for p, q in zip(s, t):
                                for v, w in zip(p, q):
                                    if tol == 0:
                                        ok = ok and (v == w if via == "program" else abs(v - w) <= Fr(1, 65536))
                                    else:
                                        ok = ok and v.denominator == 1 and abs(v - w) <= Fr(1, 2) + Fr(1, 10 ** 6)
                if not ok:
                    r.fail("T2CharStringPen(roundTolerance=%s, optimize=False, %s): redrawn charstring differs from the input: in %s out %s" % (tol, via, show(ops), show(rec.value)))
                opt, plain = (normal(merge_collinear_lines(drawn[k]), rotate=False, keep_points=False, force_closed=True) for k in (True, False))
                if opt != plain and not has_axis_parallel_spike(drawn[False]):
                    # specializeCommands adds up adjacent hlineto/hlineto (vlineto/vlineto) arguments whatever
                    # their signs: a there-and-back spike along an axis is shortened or removed.  Such a
                    # spike encloses nothing, the FILLED outline (what C12/C14 protect without
                    # preserveTopology) is unchanged - not a violation, those cases are skipped.
                    r.fail("T2CharStringPen(roundTolerance=%s, %s): optimised and plain charstring draw different outlines for %s" % (tol, via, show(ops)))
        # ---- SVG
        ops = glyph_ops(rnd, struct, rnd.choice(("int", "dyadic", "float")))
        r.case((struct, "svg"))
        want = normal(canon(ops), rotate=False, keep_points=False)
        try:
            sp = SVGPathPen(None)
            replay(ops, sp)
            rec = RecordingPen()
            parse_path(sp.getCommands(), rec)
            got = normal(canon(rec.value), rotate=False, keep_points=False)
        except Exception as e:
            r.fail("SVGPathPen/parse_path raised %s: %s on %s" % (type(e).__name__, e, show(ops)))
            continue
        # SVGPathPen is a BasePen: it receives super-beziers decomposed in floating point
        same = len(got) == len(want) and all(a[1] == b[1] and len(a[2]) == len(b[2]) for a, b in zip(got, want)) and all(
            len(s) == len(t) and all(close(float(v), float(w), 1e-9) for p, q in zip(s, t) for v, w in zip(p, q)) for a, b in zip(got, want) for s, t in zip(a[2], b[2]))
        if not same:
            r.fail("SVGPathPen -> parse_path changed the geometry: in %s svg %r" % (show(ops), sp.getCommands()[:300]))
    # ---- SVG on a coarse grid: coordinates coincide often, so the H/V/duplicate-point shortcuts of
    # SVGPathPen._lineTo (decided from the pen's remembered current point) are exercised after
    # every kind of segment, including lines that share x or y with a CONTROL point of the curve before
    grid = (0, 10, 20, 30)
    for i in range(400 if tier == "quick" else 6000):
        ops = [("moveTo", ((rnd.choice(grid), rnd.choice(grid)),))]
        for _ in range(rnd.randint(1, 5)):
            kind = rnd.choice(("lineTo", "lineTo", "curveTo", "qCurveTo"))
            n = {"lineTo": 1, "curveTo": 3, "qCurveTo": 2}[kind]
            ops.append((kind, tuple((rnd.choice(grid), rnd.choice(grid)) for _ in range(n))))
        ops.append((rnd.choice(("closePath", "endPath")), ()))
        r.case(("svg-grid", tuple(o for o, _ in ops)))
        want = normal(canon(ops), rotate=False, keep_points=False)
        try:
            sp = SVGPathPen(None)
            replay(ops, sp)
            rec = RecordingPen()
            parse_path(sp.getCommands(), rec)
            got = normal(canon(rec.value), rotate=False, keep_points=False)
        except Exception as e:
            r.fail("SVGPathPen/parse_path raised %s: %s on %s" % (type(e).__name__, e, show(ops)))
            continue
        if got != want:
            r.fail("SVGPathPen -> parse_path changed the geometry (grid): in %s svg %r" % (show(ops), sp.getCommands()[:300]))
    r.sample({"svg": "M0 0Q1 1 2 0Z"})
    return r


@check("C14")
def truetype_binary_against_harfbuzz(tier, rnd):
    """A font built with FontBuilder from TTGlyphPen glyphs (dropImpliedOnCurves on and off) and
    saved: HarfBuzz's draw_glyph_with_pen on the binary gives the geometry that was drawn into
    TTGlyphPen, and the same as TTFont.getGlyphSet()[name].draw; glyf bounds in the binary (xMin..yMax)
    and BoundsPen / ControlBoundsPen agree with HarfBuzz's glyph extents."""
    import io
    import uharfbuzz as hb
    from fontTools.fontBuilder import FontBuilder
    from fontTools.pens.ttGlyphPen import TTGlyphPen
    from fontTools.pens.recordingPen import RecordingPen
    from fontTools.pens.boundsPen import BoundsPen, ControlBoundsPen
    from fontTools.ttLib import TTFont

    r = Result("one font per dropImpliedOnCurves setting with a glyph per structure over (L, Q1, Q2, Q3, Q5) up to length 2/3 (sampled) plus blobs; distinct = (structure, drop)")
    structs = list(structures(tier, kinds=("L", "Q1", "Q2", "Q3", "Q5"), closed_only=True))
    if tier == "quick":
        structs = structs[:10] + rnd.sample(structs[10:], 50)
    for drop in (False, True):
        glyphs, src = {".notdef": TTGlyphPen(None).glyph()}, {}
        for i, struct in enumerate(structs):
            ops = glyph_ops(rnd, struct, "even", kinds=("L", "Q1", "Q2", "Q3", "Q5"), closed_only=True)
            if drop:
                ops = make_impliable(rnd, ops)
            pen = TTGlyphPen(None)
            replay(ops, pen)
            name = "g%d" % i
            glyphs[name] = pen.glyph(dropImpliedOnCurves=drop)
            src[name] = (struct, ops)
        order = list(glyphs)
        fb = FontBuilder(1000, isTTF=True)
        fb.setupGlyphOrder(order)
        fb.setupCharacterMap({})
        fb.setupGlyf(glyphs)
        fb.setupHorizontalMetrics({n: (600, getattr(fb.font["glyf"][n], "xMin", 0)) for n in order})
        fb.setupHorizontalHeader(ascent=800, descent=-200)
        fb.setupNameTable({"familyName": "T", "styleName": "R"})
        fb.setupOS2()
        fb.setupPost()
        buf = io.BytesIO()
        fb.save(buf)
        data = buf.getvalue()
        hbfont = hb.Font(hb.Face(data))
        tt = TTFont(io.BytesIO(data))
        gs = tt.getGlyphSet()
        for name, (struct, ops) in src.items():
            r.case((struct, drop))
            want = normal(canon(ops), rotate=True, keep_points=False, force_closed=True)
            gid = order.index(name)
            hrec, frec = RecordingPen(), RecordingPen()
            hbfont.draw_glyph_with_pen(gid, hrec)
            gs[name].draw(frec)
            # HarfBuzz emits one quadratic per call and may emit explicit closing lines
            hint = "C14-ttglyphpen-blob-coincident-offcurve-dropped" if blob_closes_on_itself(ops) else None
            if normal(canon(hrec.value), rotate=True, keep_points=False, force_closed=True) != want:
                r.fail("HarfBuzz draws a different outline than was drawn into TTGlyphPen (dropImpliedOnCurves=%s): in %s hb %s" % (drop, show(ops), show(hrec.value)), known_id=hint)
            if normal(canon(frec.value), rotate=True, keep_points=False, force_closed=True) != want:
                r.fail("TTFont glyph set draws a different outline than was drawn into TTGlyphPen (dropImpliedOnCurves=%s): in %s out %s" % (drop, show(ops), show(frec.value)), known_id=hint)
            # fontTools stores the extent of all glyf points in the glyph header: the control bounds of
            # what is drawn from the font; HarfBuzz reports the header; the tight bounds lie inside
            ext = hbfont.get_glyph_extents(gid)
            g = tt["glyf"][name]
            if g.numberOfContours > 0:
                bp, cp = BoundsPen(None), ControlBoundsPen(None)
                replay(frec.value, bp), replay(frec.value, cp)
                hb_box = (ext.x_bearing, ext.y_bearing + ext.height, ext.x_bearing + ext.width, ext.y_bearing)
                if (g.xMin, g.yMin, g.xMax, g.yMax) != hb_box or tuple(cp.bounds) != hb_box:
                    r.fail("glyf header bounds %r, HarfBuzz extents %r, ControlBoundsPen %r differ for %s" % ((g.xMin, g.yMin, g.xMax, g.yMax), hb_box, cp.bounds, show(ops)))
                b = bp.bounds
                if not (b[0] >= hb_box[0] and b[2] <= hb_box[2] and b[1] >= hb_box[1] and b[3] <= hb_box[3]):
                    r.fail("BoundsPen %r not inside HarfBuzz extents %r for %s" % (b, hb_box, show(ops)))
    r.sample({"glyphs_per_font": len(structs)})
    return r
