from pyvc.bounded import bounded
from pyvc.native import run_native


@bounded(props=["C20"], kind="enum", bound="5 corpus containers x truncation lengths x single-byte corruptions of the first 400 bytes", quick=True)
def c20_truncations(tier, seed):
    return run_native("c20_truncations.py", [tier, seed])


@bounded(props=["C20"], kind="enum", bound="24 hostile <variable-font> name/filename attributes through `fonttools varLib --output-dir`", quick=True)
def c20_outputs(tier, seed):
    return run_native("c20_outputs.py", [tier, seed])
