"""B-enum for C18: computeMegaGlyphOrder on every small combination of glyph-name lists
(names that already look like renamed ones included): merged names unique, lengths kept,
first font untouched, merger.glyphOrder is the concatenation."""
import itertools

from pyvc.bounded import bounded
from pyvc import loader


@bounded(props=["C18"], kind="enum", bound="2 fonts x all glyph-name lists of length <= 3 over {A, A.1, A.2, B} (+ seeded 3-font cases)", quick=True)
def mega_glyph_order_enum(tier, seed):
    import random
    loader.ensure_repo_on_path()
    from fontTools.merge.cmap import computeMegaGlyphOrder

    names = ["A", "A.1", "A.2", "B"]
    lists = [list(p) for n in (1, 2, 3) for p in itertools.permutations(names, n)]
    rnd = random.Random(seed)
    cases = [(a, b) for a in lists for b in lists]
    for _ in range(2000 if tier == "quick" else 40000):
        cases.append(tuple(rnd.choice(lists) for _ in range(3)))
    violations, distinct = [], set()

    class M:
        pass

    for orders in cases:
        orig = [list(o) for o in orders]
        work = [list(o) for o in orders]
        m = M()
        computeMegaGlyphOrder(m, work)
        flat = [g for o in work for g in o]
        distinct.add(tuple(len(set(o) & set(orig[0])) for o in orig))
        ok = (len(set(flat)) == len(flat) and [len(o) for o in work] == [len(o) for o in orig]
              and work[0] == orig[0] and list(m.glyphOrder) == flat
              and all(w == o or w.startswith(o + ".") for wo, oo in zip(work, orig) for w, o in zip(wo, oo)))
        if not ok:
            violations.append({"what": "computeMegaGlyphOrder(%r) -> %r (merger.glyphOrder %r)" % (orig, work, list(m.glyphOrder))})
            if len(violations) > 4:
                break
    return {"evaluations": len(cases), "distinct_nontrivial": len(distinct), "exhaustive": False,
            "rule": "all ordered pairs of name lists (length <= 3, no repeats inside a font) over {A, A.1, A.2, B}, plus seeded triples; distinct = overlap pattern with the first font",
            "samples": [{"orders": [["A", "A.1"], ["A"]]}], "violations": violations}
