"""Bounded stand-ins implemented as native harness checks (bounded/native/h_*.py)."""
from pyvc.bounded import bounded
from pyvc.native import run_native


def _mk(pid):
    @bounded(props=[pid], kind="enum+run", bound="see rule: enumerations / generated inputs per check in bounded/native/h_%s.py" % pid.lower(),
             quick=True, name="native_harness_" + pid)
    def run(tier, seed, pid=pid):
        return run_native("harness.py", [pid, tier, seed])
    return run


for _p in ("C01", "C02", "C03", "C04", "C05", "C06", "C07", "C08", "C09", "C10", "C12", "C13", "C14", "C15", "C16", "C17",
           "C18", "C19"):
    _mk(_p)
