"""desubroutinizeCharString (C12): the flattened program is the original with every callsubr / callgsubr
(and its subroutine-number operand) replaced by the called subroutine's own flattened program minus
its trailing return - nested calls included, the same subroutine called twice included - and, in
CFF, cut after the first endchar (also one reached inside a subroutine).  Outline operands are
symbolic; subroutine numbers are concrete (biased by 107)."""
from pyvc.core import Contract, contract, prop, internal
from pyvc.spec import And, Or, Not, Implies, Ite, eq

SHAPES = ("local-call", "global-call", "nested", "same-subr-twice", "endchar-inside-subr", "no-calls", "cff2-no-endchar")


def _expand(prog, local, glob, depth=0):
    out = []
    for tok in prog:
        if tok in ("callsubr", "callgsubr"):
            n = out.pop()
            sub = (local if tok == "callsubr" else glob)[n + 107]
            body = _expand(sub, local, glob, depth + 1)
            if body and body[-1] == "return":
                body = body[:-1]
            out += body
        else:
            out.append(tok)
    return out


@contract
class DesubroutinizeCharString(Contract):
    module = "fontTools.cffLib.transforms"
    qualname = "desubroutinizeCharString"
    props = ("C12", "C07")
    shadow_mode = "real"
    variants = SHAPES
    level = "PF"
    assumptions = ("A-REAL: operands as integers; hint operators are not part of these shapes (stem counting is under the bounded draw-before/after harness)",)

    def args(self, S, variant):
        from fontTools.misc.psCharStrings import T2CharString
        n = lambda name: S.int(name, -500, 500)
        cff2 = variant == "cff2-no-endchar"
        end = [] if cff2 else ["endchar"]
        local_progs = [[n("l0a"), n("l0b"), "rlineto", "return"],
                       [n("l1a"), "hlineto", -107, "callgsubr", n("l1b"), "vlineto", "return"],
                       [n("l2a"), n("l2b"), "rlineto", "endchar"]]
        glob_progs = [[n("g0a"), n("g0b"), n("g0c"), n("g0d"), "rlineto", "return"]]
        if cff2:
            local_progs = [[t for t in p if t != "return"] for p in local_progs[:2]] + [local_progs[2][:-1]]
            glob_progs = [[t for t in p if t != "return"] for p in glob_progs]
        main = {
            "local-call": [n("x"), n("y"), "rmoveto", -107, "callsubr", n("z"), "hlineto"] + end,
            "global-call": [n("x"), n("y"), "rmoveto", -107, "callgsubr"] + end,
            "nested": [n("x"), n("y"), "rmoveto", -106, "callsubr", n("z"), "hlineto"] + end,
            "same-subr-twice": [n("x"), n("y"), "rmoveto", -107, "callsubr", -107, "callsubr"] + end,
            "endchar-inside-subr": [n("x"), n("y"), "rmoveto", -105, "callsubr", n("never"), "hlineto", "endchar"],
            "no-calls": [n("x"), n("y"), "rmoveto", n("z"), "hlineto"] + end,
            "cff2-no-endchar": [n("x"), n("y"), "rmoveto", -106, "callsubr", n("z"), "hlineto"],
        }[variant]

        class _Private:
            in_cff2 = cff2
            nominalWidthX = defaultWidthX = 0
        private = _Private()
        gsubrs = [T2CharString(program=list(p), private=private) for p in glob_progs]
        private.Subrs = [T2CharString(program=list(p), private=private, globalSubrs=gsubrs) for p in local_progs]
        for s_ in gsubrs:
            s_.globalSubrs = gsubrs
        cs = T2CharString(program=list(main), private=private, globalSubrs=gsubrs)
        return dict(cs=cs, _main=list(main), _local=[list(p) for p in local_progs], _glob=[list(p) for p in glob_progs], _cff2=cff2)

    def call(self, f, a):
        f(a.cs)
        return list(a.cs.program)

    @staticmethod
    def _post(a, r):
        want = _expand(a._main, a._local, a._glob)
        if not a._cff2 and "endchar" in [t for t in want if isinstance(t, str)]:
            cut = next(i for i, t in enumerate(want) if isinstance(t, str) and t == "endchar")
            want = want[:cut + 1]
        if len(r) != len(want) or hasattr(a.cs, "_desubroutinized") or hasattr(a.cs, "_patches"):
            return False
        cs = []
        for x, y in zip(r, want):
            if isinstance(x, str) or isinstance(y, str):
                if not (isinstance(x, str) and isinstance(y, str) and x == y):
                    return False
            else:
                cs.append(eq(x, y))
        return And(not any(isinstance(t, str) and t in ("callsubr", "callgsubr", "return") for t in r), *cs)

    ensures = [prop("flattened-program-is-the-inlined-program", lambda a, old, r: DesubroutinizeCharString._post(a, r))]


@contract
class RemoveUnusedSubroutines(Contract):
    """remove_unused_subroutines: the local and global subroutine INDEXes keep exactly the
    subroutines reachable from some glyph (directly or through another subroutine), in their old
    order, and every call is renumbered so that each glyph's flattened program is what it was -
    calls from glyphs, from local subroutines to global ones, and a subroutine used only by an
    otherwise unused subroutine (which goes)."""
    module = "fontTools.cffLib.transforms"
    qualname = "remove_unused_subroutines"
    props = ("C12", "C07")
    shadow_mode = "real"
    variants = ("mixed", "nothing-used", "all-used")
    level = "PF"
    assumptions = ("operands as integers; both INDEXes stay below 1240 entries (bias 107 before and after; the bias arithmetic itself is SubsetSubroutineCalls / CalcSubrBias)",)

    def args(self, S, variant):
        from fontTools.misc.psCharStrings import T2CharString
        from fontTools.cffLib import SubrsIndex, GlobalSubrsIndex
        n = lambda name: S.int(name, -500, 500)

        class _Private:
            in_cff2 = False
            nominalWidthX = defaultWidthX = 0
        private = _Private()
        private.rawDict = {"Subrs": 0}
        # local: 0 unused, 1 used by glyph a (calls global 2), 2 used only by local 0 (unused), 3 used by glyph b and by local 1
        local_progs = [[n("l0"), "hlineto", -105, "callsubr", "return"],
                       [n("l1"), "vlineto", -105, "callgsubr", -104, "callsubr", "return"],
                       [n("l2"), n("l2b"), "rlineto", "return"],
                       [n("l3"), n("l3b"), "rlineto", "return"]]
        # global: 0 used by glyph b, 1 unused, 2 used by local 1
        glob_progs = [[n("g0"), "hlineto", "return"], [n("g1"), "vlineto", "return"], [n("g2"), n("g2b"), "rlineto", "return"]]
        mains = {"a": [n("ax"), n("ay"), "rmoveto", -106, "callsubr", "endchar"],
                 "b": [n("bx"), n("by"), "rmoveto", -104, "callsubr", -107, "callgsubr", "endchar"],
                 "c": [n("cx"), n("cy"), "rmoveto", n("cz"), "hlineto", "endchar"]}
        if variant == "nothing-used":
            mains = {"c": mains["c"]}
        elif variant == "all-used":
            mains["d"] = [n("dx"), n("dy"), "rmoveto", -107, "callsubr", -106, "callgsubr", "endchar"]
        gidx = GlobalSubrsIndex()
        lidx = SubrsIndex()
        gidx.items = [T2CharString(program=list(p), private=private) for p in glob_progs]
        lidx.items = [T2CharString(program=list(p), private=private, globalSubrs=gidx) for p in local_progs]
        for s_ in gidx.items:
            s_.globalSubrs = gidx
        private.Subrs = lidx
        css = {g: T2CharString(program=list(p), private=private, globalSubrs=gidx) for g, p in mains.items()}

        class _Font:
            pass
        font = _Font()
        font.CharStrings, font.GlobalSubrs, font.Private = css, gidx, private

        class _CFF(dict):
            pass
        cff = _CFF(TheFont=font)
        before = {g: _expand(p, local_progs, glob_progs) for g, p in mains.items()}
        return dict(cff=cff, _font=font, _before=before, _variant=variant, _nlocal=len(local_progs), _nglob=len(glob_progs))

    def call(self, f, a):
        f(a.cff)
        return a._font

    @staticmethod
    def _post(a, r):
        font = r
        local = [list(s_.program) for s_ in getattr(font.Private, "Subrs", None) or []]
        glob = [list(s_.program) for s_ in font.GlobalSubrs]
        want_sizes = {"mixed": (2, 2), "nothing-used": (0, 0), "all-used": (4, 3)}[a._variant]
        if (len(local), len(glob)) != want_sizes:
            return False
        cs = []
        for g, c in font.CharStrings.items():
            try:
                got = _expand(list(c.program), local, glob)
            except (IndexError, TypeError):
                return False                 # a call that no longer resolves to a subroutine
            want = a._before[g]
            if len(got) != len(want):
                return False
            for x, y in zip(got, want):
                if isinstance(x, str) or isinstance(y, str):
                    if not (isinstance(x, str) and isinstance(y, str) and x == y):
                        return False
                else:
                    cs.append(eq(x, y))
        return And(not any(hasattr(s_, "_used") for s_ in (font.GlobalSubrs, getattr(font.Private, "Subrs", None)) if s_ is not None), *cs)

    ensures = [prop("reachable-subroutines-kept-and-flattened-programs-unchanged", lambda a, old, r: RemoveUnusedSubroutines._post(a, r))]


def _draw(cs):
    from fontTools.pens.recordingPen import RecordingPen
    from fontTools.misc.psCharStrings import T2OutlineExtractor
    pen = RecordingPen()
    subrs = getattr(cs.private, "Subrs", [])
    ex = T2OutlineExtractor(pen, subrs, cs.globalSubrs, cs.private.nominalWidthX, cs.private.defaultWidthX, cs.private)
    ex.execute(cs)
    return pen.value, ex.width


HINT_OPS = ("hstem", "vstem", "hstemhm", "vstemhm", "hintmask", "cntrmask")


@contract
class RemoveHintsKeepsOutlines(Contract):
    """remove_hints: every glyph draws exactly what it drew before (same pen calls, same
    coordinates, same advance width), no stem or mask operator is left in any glyph or in any
    subroutine that is kept, and the Private dictionary's hinting values are cleared - for stems
    before the first move, implicit vstems in front of hintmask / cntrmask, masks between path
    operators, stems inside a subroutine, and a glyph without hints; outline operands and the
    width symbolic."""
    module = "fontTools.cffLib.transforms"
    qualname = "remove_hints"
    props = ("C12",)
    shadow_mode = "real"
    variants = ("stems-and-width", "hintmask-implicit-vstem", "masks-between-paths", "stems-in-subroutine", "no-hints", "cntrmask")
    level = "PF"
    assumptions = ("A-REAL: operands as integers", "T2OutlineExtractor is the oracle for 'draws' (its operators are under contract in t2_operators.py)")

    def args(self, S, variant):
        from fontTools.misc.psCharStrings import T2CharString
        from fontTools.cffLib import SubrsIndex, GlobalSubrsIndex
        n = lambda name: S.int(name, -500, 500)

        class _Private:
            in_cff2 = False
        private = _Private()
        private.nominalWidthX, private.defaultWidthX = 300, 500
        private.rawDict = {"Subrs": 0, "BlueValues": 0}
        private.BlueValues, private.StdHW, private.BlueScale = [0, 10], 80, 0.04
        path = [n("x"), n("y"), "rmoveto", n("a"), n("b"), "rlineto", n("c"), "hlineto"]
        progs = {
            "stems-and-width": [n("w"), 10, 20, "hstem", 30, 40, "vstem"] + path + ["endchar"],
            "hintmask-implicit-vstem": [10, 20, "hstemhm", 30, 40, "hintmask", b"\xc0"] + path + ["endchar"],
            "masks-between-paths": [n("w"), 10, 20, "hstemhm", 30, 40, "vstemhm", "hintmask", b"\xc0", n("x"), n("y"), "rmoveto", n("a"), n("b"), "rlineto",
                                    "hintmask", b"\x40", n("c"), "hlineto", "endchar"],
            "stems-in-subroutine": [n("w"), -107, "callsubr"] + path + [-106, "callsubr", "endchar"],
            "no-hints": [n("w")] + path + ["endchar"],
            "cntrmask": [10, 20, "hstemhm", 30, 40, "vstemhm", "cntrmask", b"\xc0"] + path + ["endchar"],
        }
        gidx, lidx = GlobalSubrsIndex(), SubrsIndex()
        gidx.items = []
        lidx.items = [T2CharString(program=[10, 20, "hstem", 30, 40, "vstem", "return"], private=private, globalSubrs=gidx),
                      T2CharString(program=[n("s1"), n("s2"), "rlineto", "return"], private=private, globalSubrs=gidx)]
        private.Subrs = lidx
        css = {"g": T2CharString(program=list(progs[variant]), private=private, globalSubrs=gidx),
               "plain": T2CharString(program=[n("px"), n("py"), "rmoveto", n("pa"), "vlineto", "endchar"], private=private, globalSubrs=gidx)}

        class _CS(dict):
            pass

        class _Font:
            pass
        font = _Font()
        font.CharStrings, font.GlobalSubrs, font.Private = _CS(css), gidx, private

        class _CFF(dict):
            pass
        cff = _CFF(TheFont=font)
        before = {g: _draw(c) for g, c in css.items()}
        return dict(cff=cff, _font=font, _before=before, _private=private)

    def call(self, f, a):
        f(a.cff)
        return a._font

    @staticmethod
    def _post(a, r):
        cs = []
        for g, c in r.CharStrings.items():
            if any(isinstance(t, str) and t in HINT_OPS for t in c.program) or any(isinstance(t, bytes) for t in c.program):
                return False
            try:
                calls, width = _draw(c)
            except Exception:
                return False
            want_calls, want_width = a._before[g]
            if [x[0] for x in calls] != [x[0] for x in want_calls]:
                return False
            cs.append(eq(width, want_width))
            for (_, pts), (_, wpts) in zip(calls, want_calls):
                if len(pts) != len(wpts):
                    return False
                cs += [eq(p[i], q[i]) for p, q in zip(pts, wpts) for i in (0, 1)]
        for s_ in list(r.GlobalSubrs) + list(getattr(r.Private, "Subrs", None) or []):
            if any(isinstance(t, str) and t in HINT_OPS for t in s_.program):
                return False
        p = a._private
        return And(p.BlueValues is None and p.StdHW is None and p.BlueScale is None, *cs)

    ensures = [prop("same-outline-and-advance-no-hint-operator-left", lambda a, old, r: RemoveHintsKeepsOutlines._post(a, r))]
