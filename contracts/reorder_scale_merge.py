"""Kernels of glyph reordering / em rescaling (C17) and merging (C18), explored by PYVC for
every ordering of small lists (glyph ids symbolic) - bounded in shape."""
from fractions import Fraction
from types import SimpleNamespace

from pyvc.core import Contract, contract, prop, internal
from pyvc.models import std, round_tools
from pyvc.spec import And, Or, Not, Implies, Ite, eq, Abs, floor


def _ot_round(x):
    return floor(x + Fraction(1, 2))


@contract
class SortByGid(Contract):
    """_sort_by_gid: afterwards the glyph list is ascending in the NEW glyph ids and every
    (glyph, parallel item) pair is preserved - for every assignment of distinct ids."""
    module = "fontTools.ttLib.reorderGlyphs"
    qualname = "_sort_by_gid"
    props = ("C17",)
    shadow_mode = "real"
    variants = tuple((n, par) for n in (1, 2, 3, 4) for par in (True, False))
    level = "PF"

    def args(self, S, variant):
        n, par = variant
        names = ["g%d" % i for i in range(n)]
        gid = {g: S.int("gid_" + g, 0, 65535) for g in names}
        self_items = ["item_of_" + g for g in names] if par else None
        return dict(get_glyph_id=lambda g: gid[g], glyphs=list(names), parallel_list=self_items, _gid=gid)

    def requires(self, a):
        g = list(a._gid.values())
        return And(*[Not(eq(g[i], g[j])) for i in range(len(g)) for j in range(i + 1, len(g))])

    def call(self, f, a):
        return f(a.get_glyph_id, a.glyphs, a.parallel_list)

    ensures = [prop("ascending-by-new-id-pairs-preserved", lambda a, old, r: And(
        sorted(a.glyphs) == sorted(old.glyphs),
        *[a._gid[a.glyphs[i]] < a._gid[a.glyphs[i + 1]] for i in range(len(a.glyphs) - 1)])
        and (a.parallel_list is None or [("item_of_" + g) for g in a.glyphs] == a.parallel_list))]


@contract
class ScalerScale(Contract):
    """ScalerVisitor.scale: |scaled - v*factor| <= 1/2 (OpenType rounding), integers stay
    integers - for every value and every positive factor."""
    module = "fontTools.ttLib.scaleUpem"
    qualname = "ScalerVisitor.scale"
    props = ("C17",)
    shadow_mode = "function"
    assumptions = ("A-REAL",)

    def rebind(self):
        return {"otRound": round_tools().otRound}

    def args(self, S, variant):
        cls = self.mod.ScalerVisitor
        v = cls.__new__(cls)
        v.scaleFactor = S.real("factor")
        return dict(self=v, v=S.real("v"))

    def requires(self, a):
        return a.self.scaleFactor > 0

    ensures = [prop("nearest-integer-to-scaled-value", lambda a, old, r: And(
        Abs(r - a.v * a.self.scaleFactor) <= Fraction(1, 2), r.is_int if hasattr(r, "is_int") else isinstance(r, int)))]


class _Merger:
    pass


@contract
class MergeUtil(Contract):
    """merge.util combinators on symbolic ints."""
    module = "fontTools.merge.util"
    qualname = "avg_int"
    props = ("C18",)
    shadow_mode = "real"
    variants = (1, 2, 3)
    level = "PF"

    def args(self, S, variant):
        return dict(lst=[S.int("x%d" % i) for i in range(variant)])

    def call(self, f, a):
        m = self.mod
        return f(list(a.lst)), m.first(list(a.lst)), m.sumLists([[x] for x in a.lst]), m.bitwise_or([x % 2 for x in a.lst])

    ensures = [prop("combinators", lambda a, old, r: And(
        r[0] * len(a.lst) <= sum(a.lst), sum(a.lst) < (r[0] + 1) * len(a.lst),
        eq(r[1], a.lst[0]), len(r[2]) == len(a.lst), *[eq(x, y) for x, y in zip(r[2], a.lst)]))]


@contract
class CffScaleArguments(Contract):
    """scaleUpem._cff_scale on charstring-command argument lists (as programToCommands produces
    them: numbers, hintmask bytes, blend lists [v1..vn, d11.., numBlends]): every number - default
    values and deltas alike - is replaced by round(value * factor), the trailing numBlends of a
    blend list and mask bytes are left alone, the list is modified in place and keeps its shape."""
    module = "fontTools.ttLib.scaleUpem"
    qualname = "_cff_scale"
    props = ("C17",)
    shadow_mode = "real"
    level = "PF"
    assumptions = ("A-REAL",)
    SHAPES = {
        "plain": ["n", "n", "n"],
        "one-blend": ["n", ["n", "n", "n", "n", 2]],
        "two-blends": [["n", "n", 1], ["n", "n", "n", "n", "n", "n", 3], "n"],
        "mask": [b"\xf0"],
        "empty": [],
    }
    variants = tuple(SHAPES)

    def args(self, S, variant):
        k = 0

        def build(shape):
            nonlocal k
            out = []
            for x in shape:
                if x == "n":
                    out.append(S.real("v%d" % k))
                    k += 1
                elif isinstance(x, list):
                    out.append(build(x))
                else:
                    out.append(x)
            return out
        args = build(self.SHAPES[variant])
        factor = S.real("factor")
        visitor = SimpleNamespace(scale=lambda v: _ot_round(v * factor))
        return dict(visitor=visitor, args=args, _factor=factor, _shape=self.SHAPES[variant])

    @staticmethod
    def _post(a, old):
        def walk(new, was, shape):
            if len(new) != len(shape):
                return [False]
            cs = []
            for n, w, s in zip(new, was, shape):
                if s == "n":
                    cs.append(eq(n, _ot_round(w * a._factor)))
                elif isinstance(s, list):
                    if not isinstance(n, list):
                        return [False]
                    cs += walk(n, w, s)
                else:
                    cs.append(n == s)
            return cs
        return And(*walk(a.args, old.args, a._shape))

    ensures = [prop("every-number-scaled-counts-and-masks-kept", lambda a, old, r: CffScaleArguments._post(a, old))]


@contract
class CffScaleDictValue(Contract):
    """scaleUpem._cff_scale_dict_value on Private DICT values: plain lists, blended scalars
    [default, d1..dn] and arrays of those - EVERY entry is scaled (there is no blend count in DICT
    values)."""
    module = "fontTools.ttLib.scaleUpem"
    qualname = "_cff_scale_dict_value"
    props = ("C17",)
    shadow_mode = "real"
    level = "PF"
    assumptions = ("A-REAL",)
    SHAPES = {"plain-array": ["n", "n", "n", "n"], "blended-scalar": ["n", "n", "n"], "blended-array": [["n", "n", "n"], ["n", "n", "n"]], "empty": []}
    variants = tuple(SHAPES)
    args = CffScaleArguments.args

    def call(self, f, a):
        return f(a.visitor, a.args)

    ensures = [prop("every-entry-scaled", lambda a, old, r: CffScaleArguments._post(
        SimpleNamespace(args=a.args, _factor=a._factor, _shape=a._shape), SimpleNamespace(args=old.args)))]
