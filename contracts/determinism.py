"""Contracts for C16 (deterministic output; compiling does not disturb the font) and the
head table codec (C02/C04)."""
from fractions import Fraction

from pyvc.core import Contract, contract, prop, internal
from pyvc.models import std, SymBytes, sstruct_shadow, int_ as _int_model
from pyvc.spec import And, Or, Not, Implies, Ite, eq, floor
from pyvc.sym import SymNum
from contracts._support import FakeFont, ns

EPOCH_DIFF = 2082844800      # seconds from 1904-01-01 (LONGDATETIME epoch) to 1970-01-01, OT spec


class _EnvToken:
    """The text value of SOURCE_DATE_EPOCH: opaque, int(token) is an arbitrary integer E."""

    def __init__(self, value):
        self.value = value


class _IntMeta(type(_int_model)):
    def __call__(cls, *a, **k):
        if a and isinstance(a[0], _EnvToken):
            return a[0].value
        return _int_model(*a, **k)


class _int_env(metaclass=_IntMeta):
    pass


class _NoClock:
    def time(self):
        raise AssertionError("time.time() consulted although SOURCE_DATE_EPOCH is set")


class _Clock:
    def __init__(self, t):
        self.t = t

    def time(self):
        return self.t


@contract
class TimestampNow(Contract):
    """With SOURCE_DATE_EPOCH set the timestamp is (that value - epoch difference) and the
    clock is never read; otherwise it is the truncated clock value."""
    module = "fontTools.misc.timeTools"
    qualname = "timestampNow"
    props = ("C16",)
    variants = ("pinned", "clock")

    def rebind(self):
        return {"int": _int_env, "os": self._os, "time": self._time}

    class _Os:
        environ = {}

    _os = _Os()
    _time = _NoClock()

    def args(self, S, variant):
        if variant == "pinned":
            E = S.int("E")
            self._os.environ = {"SOURCE_DATE_EPOCH": _EnvToken(E) if not S.concrete else str(E)}
            clock = _NoClock()
            out = dict(_E=E, _T=None)
        else:
            T = S.real("T")
            self._os.environ = {}
            clock = _Clock(T)
            out = dict(_E=None, _T=T)
        if S.concrete:
            import os as _real_os
            # native replay: the real module reads the real environment / a pinned clock
            if variant == "pinned":
                _real_os.environ["SOURCE_DATE_EPOCH"] = str(E)
            else:
                _real_os.environ.pop("SOURCE_DATE_EPOCH", None)
                out["_T"] = None
        else:
            self.mod.__dict__["time"] = clock
            self.mod.__dict__["os"] = self._os
        return out

    def call(self, f, a):
        return f()

    ensures = [prop("pinned-or-clock", lambda a, old, r: (
        # LONGDATETIME counts seconds since 1904-01-01: unix time + 2082844800
        eq(r, a._E + EPOCH_DIFF) if a._E is not None else
        (True if a._T is None else
         eq(r, Ite(a._T + EPOCH_DIFF >= 0, floor(a._T + EPOCH_DIFF), -floor(-(a._T + EPOCH_DIFF)))))))]


# -- head ---------------------------------------------------------------------------------------

HEAD_FIELDS = [("tableVersion", "F"), ("fontRevision", "F"), ("checkSumAdjustment", "I"), ("magicNumber", "I"),
               ("flags", "H"), ("unitsPerEm", "H"), ("created", "Q"), ("modified", "Q"), ("xMin", "h"), ("yMin", "h"),
               ("xMax", "h"), ("yMax", "h"), ("macStyle", "H"), ("lowestRecPPEM", "H"), ("fontDirectionHint", "h"),
               ("indexToLocFormat", "h"), ("glyphDataFormat", "h")]
SIZES = {"F": 4, "I": 4, "H": 2, "h": 2, "Q": 8}


def spec_head_decode(bs):
    """OpenType 'head' layout (54 bytes) read independently: name -> integer (16.16 fields as
    their raw signed 32-bit value)."""
    out, pos = {}, 0
    for name, ch in HEAD_FIELDS:
        n = SIZES[ch]
        v = 0
        for b in bs[pos:pos + n]:
            v = v * 256 + b
        if ch in ("h", "F"):
            v = Ite(v >= 2 ** (8 * n - 1), v - 2 ** (8 * n), v)
        out[name] = v
        pos += n
    return out, pos


def _head_rebind():
    return dict(std("struct", "len", "bytes", "int"), sstruct=sstruct_shadow(), timestampNow=lambda: (_ for _ in ()).throw(AssertionError("clock read")))


def _mk_head(mod, S):
    cls = mod.table__h_e_a_d
    t = cls.__new__(cls)
    lim = {"I": (0, 2 ** 32 - 1), "H": (0, 65535), "h": (-32768, 32767), "Q": (0, 2 ** 64 - 1)}
    for name, ch in HEAD_FIELDS:
        if ch == "F":
            k = S.int(name + "_fixed", -2 ** 31, 2 ** 31 - 1)
            setattr(t, name, k / 65536 if S.concrete else SymNum(k.real() / 65536))
            setattr(t, "_k_" + name, k)
        else:
            setattr(t, name, S.int(name, *lim[ch]))
    return t


@contract
class HeadCompile(Contract):
    """head.compile: the 54 bytes decode (independent reader of the OT layout) to the field
    values; with recalcTimestamp/recalcBBoxes off it reads no clock and writes no attribute;
    compiling twice gives the same bytes."""
    module = "fontTools.ttLib.tables._h_e_a_d"
    qualname = "table__h_e_a_d.compile"
    props = ("C16", "C02", "C04", "C01")
    rebind = staticmethod(_head_rebind)
    assumptions = ("A-REAL for the two 16.16 fields: k/65536*65536 is exact in binary64",)

    def args(self, S, variant):
        t = _mk_head(self.mod, S)
        return dict(self=t, ttFont=FakeFont([]))

    def call(self, f, a):
        first = f(a.self, a.ttFont)
        snap = dict(a.self.__dict__)
        second = f(a.self, a.ttFont)
        return first, second, snap

    @staticmethod
    def _decodes(a, r):
        bs = list(SymBytes.of(r[0]).items)
        dec, n = spec_head_decode(bs)
        cs = [len(bs) == 54]
        for name, ch in HEAD_FIELDS:
            want = getattr(a.self, "_k_" + name) if ch == "F" else getattr(a.self, name)
            cs.append(eq(dec[name], want))
        return And(*cs)

    ensures = [
        prop("bytes-decode-to-the-fields", lambda a, old, r: HeadCompile._decodes(a, r)),
        prop("second-compile-identical", lambda a, old, r: SymBytes.of(r[0]) == SymBytes.of(r[1])),
        prop("no-attribute-written", lambda a, old, r: list(a.self.__dict__) == list(old.self.__dict__) and all(
            a.self.__dict__[k] is r[2][k] for k in r[2])),
    ]


@contract
class HeadCompileTimestamp(Contract):
    """recalcTimestamp on: exactly `modified` is rewritten (with timestampNow()), nothing else."""
    module = "fontTools.ttLib.tables._h_e_a_d"
    qualname = "table__h_e_a_d.compile"
    props = ("C16",)

    def rebind(self):
        d = _head_rebind()
        d["timestampNow"] = lambda: self._now
        return d

    def args(self, S, variant):
        t = _mk_head(self.mod, S)
        self._now = S.int("now", 0, 2 ** 64 - 1)
        f = FakeFont([])
        f.recalcTimestamp = True
        return dict(self=t, ttFont=f)

    @property
    def ensures(self):
        return [prop("only-modified-rewritten", lambda a, old, r, self=self: And(
            eq(a.self.modified, self._now),
            *[eq(getattr(a.self, n), getattr(old.self, n)) for n, ch in HEAD_FIELDS if n != "modified"]))]


@contract
class HeadRoundTrip(Contract):
    """decompile(54 arbitrary bytes) then compile returns the same bytes when the two
    timestamps are in the range the decoder leaves alone (C01 struct-table fixed point)."""
    module = "fontTools.ttLib.tables._h_e_a_d"
    qualname = "table__h_e_a_d.decompile"
    props = ("C01", "C02")
    rebind = staticmethod(_head_rebind)

    def args(self, S, variant):
        cls = self.mod.table__h_e_a_d
        return dict(self=cls.__new__(cls), data=S.bytes("data", 54), ttFont=FakeFont([]))

    def requires(self, a):
        def u64(k):
            v = 0
            for b in a.data.items[k:k + 8] if hasattr(a.data, "items") else a.data[k:k + 8]:
                v = v * 256 + b
            return v
        return And(u64(20) >= 0x7C259DC0, u64(20) <= 0xFFFFFFFF, u64(28) >= 0x7C259DC0, u64(28) <= 0xFFFFFFFF)

    def call(self, f, a):
        f(a.self, a.data, a.ttFont)
        return a.self.compile(a.ttFont)

    ensures = [prop("compile-of-decompile-is-identity", lambda a, old, r: SymBytes.of(r) == SymBytes.of(a.data))]
