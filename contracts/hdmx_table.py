"""hdmx (C02, C01): device records are written in ascending ppem order, each as ppem, the maximum
width, one width byte per glyph in GLYPH ORDER and zero padding to a multiple of four; the header
carries version 0, the record count and that record size; decompile returns the same widths by
glyph name.  Widths symbolic, 1..5 glyphs (every padding length)."""
from pyvc.core import Contract, contract, prop, internal
from pyvc.models import std, SymBytes
from pyvc.spec import And, Or, Not, Implies, Ite, eq


def _items(b):
    return list(b.items) if isinstance(b, SymBytes) else list(b)


def _be(items):
    v = 0
    for x in items:
        v = v * 256 + x
    return v


@contract
class HdmxRoundTrip(Contract):
    module = "fontTools.ttLib.tables._h_d_m_x"
    qualname = "table__h_d_m_x.decompile"
    props = ("C02", "C01")
    variants = (1, 2, 3, 4, 5)
    level = "PF"

    def rebind(self):
        from pyvc.models import sstruct_shadow
        return dict(std("struct", "len", "bytes", "int", "array", "bytechr", "byteord"), sstruct=sstruct_shadow())

    def args(self, S, variant):
        names = ["g%d" % i for i in range(variant)]
        order = list(reversed(names))                       # glyph order differs from the dict order of the widths
        hd = {ppem: {n: S.int("w%d_%s" % (ppem, n), 0, 255) for n in names} for ppem in (24, 9)}

        class _Maxp:
            numGlyphs = variant

        class _Font:
            def __getitem__(self, k):
                return _Maxp

            def getGlyphOrder(self):
                return list(order)

            def getReverseGlyphMap(self):
                return {n: i for i, n in enumerate(order)}
        t = self.mod.table__h_d_m_x()
        t.hdmx = hd
        return dict(self=t, ttFont=_Font(), _hd={p: dict(w) for p, w in hd.items()}, _order=order, _n=variant)

    def call(self, f, a):
        cls = type(a.self)
        data = cls.compile(a.self, a.ttFont)
        back = cls()
        f(back, data, a.ttFont)
        return data, back

    @staticmethod
    def _post(a, r):
        data, back = r
        b = _items(data)
        n = a._n
        rec = 4 * ((2 + n + 3) // 4)
        if len(b) != 8 + 2 * rec:
            return False
        cs = [eq(_be(b[0:2]), 0), eq(_be(b[2:4]), 2), eq(_be(b[4:8]), rec)]
        for k, ppem in enumerate((9, 24)):
            at = 8 + k * rec
            ws = [a._hd[ppem][g] for g in a._order]
            mx = ws[0]
            for w in ws[1:]:
                mx = Ite(w > mx, w, mx)
            cs += [eq(b[at], ppem), eq(b[at + 1], mx)]
            cs += [eq(b[at + 2 + i], w) for i, w in enumerate(ws)]
            cs += [eq(x, 0) for x in b[at + 2 + n: at + rec]]
            if sorted(back.hdmx) != [9, 24]:
                return False
            cs += [eq(back.hdmx[ppem][g], a._hd[ppem][g]) for g in a._order]
        return And(*cs)

    ensures = [prop("records-per-spec-and-widths-come-back-by-name", lambda a, old, r: HdmxRoundTrip._post(a, r))]
