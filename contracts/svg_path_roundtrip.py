"""SVGPathPen -> path data -> parse_path (C14): for EVERY contour of one to three segments over
{line, horizontal line, vertical line, cubic, quadratic with no, one or two control points}, closed
or open, closing point on or off the start, with integer and fractional coordinates: the path
data the SVG pen writes, parsed back, draws the same outline - same start, same segments, same
points - up to what SVG cannot say differently (a quadratic with several control points is its
chain of single-control segments through the implied on-curve midpoints; a zero-length line
draws nothing; the closing line may be implied)."""
import itertools

from pyvc.core import Contract, contract, prop


def _norm(ops):
    out, cur = [], None
    for name, args in ops:
        if name == "moveTo":
            cur = [(name, args)]
        elif name in ("closePath", "endPath"):
            out.append((name, cur))
            cur = None
        elif name == "qCurveTo" and len(args) > 2:
            pts = list(args)
            for i in range(len(pts) - 2):
                a, b = pts[i], pts[i + 1]
                cur.append(("qCurveTo", (a, ((a[0] + b[0]) / 2, (a[1] + b[1]) / 2))))
            cur.append(("qCurveTo", (pts[-2], pts[-1])))
        elif name == "qCurveTo" and len(args) == 1:
            cur.append(("lineTo", args))
        else:
            cur.append((name, args))
    res = []
    for name, c in out:
        c = [(m, tuple((float(x), float(y)) for x, y in a)) for m, a in c]
        c2, at = [c[0]], c[0][1][-1]
        for m, a in c[1:]:
            if m == "lineTo" and a[-1] == at:
                continue
            c2.append((m, a))
            at = a[-1]
        if name == "closePath" and len(c2) > 1 and c2[-1][0] == "lineTo" and c2[-1][1][-1] == c2[0][1][0]:
            c2.pop()
        res.append((name, c2))
    return res


@contract
class SVGPathRoundTrip(Contract):
    module = "fontTools.svgLib.path.parser"
    qualname = "parse_path"
    props = ("C14",)
    shadow_mode = "real"
    level = "PF"
    assumptions = ("token-valued: 1596 contours with fixed coordinates (integers, halves and quarters, negative values); number formatting for other values is C15's NumberFormat contracts",)

    def args(self, S, variant):
        return {}

    def call(self, f, a):
        from fontTools.pens.svgPathPen import SVGPathPen
        from fontTools.pens.recordingPen import RecordingPen
        SEGS = {"line": 0, "hline": 0, "vline": 0, "curve2": 2, "qcurve1": 1, "qcurve2": 2, "qcurve0": 0}
        P = [(0, 0), (100, 0), (150, 80), (100.5, 160), (0, 200), (-60, 120.25), (-80, 40), (30, -50), (90, -20), (140, 30)]
        bad, n, kinds = [], 0, set()
        for L in range(1, 4):
            for segs in itertools.product(SEGS, repeat=L):
                for closing, dup in itertools.product(("closePath", "endPath"), (False, True)):
                    ops, k, last = [("moveTo", (P[0],))], 1, P[0]
                    for s in segs:
                        cnt = SEGS[s]
                        pts = [P[(k + i) % len(P)] for i in range(cnt + 1)]
                        k += cnt + 1
                        if s == "hline":
                            pts[-1] = (pts[-1][0], last[1])
                        if s == "vline":
                            pts[-1] = (last[0], pts[-1][1])
                        last = pts[-1]
                        ops.append(("lineTo" if s.endswith("line") else "curveTo" if s.startswith("curve") else "qCurveTo", tuple(pts)))
                    if dup:
                        name, pts = ops[-1]
                        ops[-1] = (name, pts[:-1] + (P[0],))
                    ops.append((closing, ()))
                    sp = SVGPathPen(None)
                    for name, args in ops:
                        getattr(sp, name)(*args)
                    d = sp.getCommands()
                    kinds.update(ch for ch in d if ch.isalpha())
                    rec = RecordingPen()
                    f(d, rec)
                    n += 1
                    if _norm(rec.value) != _norm(ops):
                        bad.append((segs, closing, dup, d, rec.value))
        return n, bad[:5], "".join(sorted(kinds))

    ensures = [prop("parsed-path-draws-what-the-pen-was-given", lambda a, old, r: r[0] == 1596 and not r[1] and set("MLHVCQZ") <= set(r[2]))]
