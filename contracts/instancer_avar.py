"""instantiateAvar, version 1 (C08): limiting an axis to a new range re-expresses its avar segment
map in the new normalised coordinates: for every user position x inside the new range,
   newMap(renormalise(x)) == renormalise_in_mapped_space(oldMap(x)),
i.e. the instance warps the axis exactly as the original font did.  F2Dot14 quantisation
(floatToFixedToFloat) is taken as the identity here - its error budget is the bounded harness's."""
from pyvc.core import Contract, contract, prop, internal
from pyvc.spec import And, Or, Not, Implies, Ite, eq


def _pl(knots, x):
    out = knots[-1][1]
    for (k0, v0), (k1, v1) in reversed(list(zip(knots, knots[1:]))):
        seg = v0 + (x - k0) * (v1 - v0) / (k1 - k0)
        out = Ite(x <= k1, Ite(eq(x, k1), v1, Ite(eq(x, k0), v0, seg)), out)
    return Ite(x <= knots[0][0], knots[0][1], out)


class _Limits:
    def __init__(self, normalized):
        self._n = normalized

    def pinnedLocation(self):
        return {}

    def normalize(self, varfont, usingAvar=True):
        assert usingAvar is False
        return self._n


@contract
class InstantiateAvarV1(Contract):
    module = "fontTools.varLib.instancer"
    qualname = "instantiateAvar"
    props = ("C08",)
    shadow_mode = "function"
    variants = ("upper-side-one-knot", "lower-side-one-knot", "axis-without-request", "pinned-all")   # knots on both sides at once: > 15 min, not kept
    level = "PF"
    assumptions = ("A-REAL", "floatToFixedToFloat is the identity (quantisation is outside the contract)",
                   "the default of the axis is not moved (new default 0); moved defaults are under the bounded harness",
                   "NormalizedAxisTripleAndDistances.renormalizeValue is the real one; piecewiseLinearMap is used through its contract")
    timeout_ms = 60000
    deadline_s = 900

    def rebind(self):
        # piecewiseLinearMap through its contract (PiecewiseLinearMap): the piecewise-linear function of the knots
        return {"floatToFixedToFloat": lambda v, bits: v, "piecewiseLinearMap": lambda v, mapping: _pl(self._old_knots, v)}

    def args(self, S, variant):
        from fontTools.varLib.instancer import NormalizedAxisTripleAndDistances as NT

        class _Avar:
            pass
        avar = _Avar()
        avar.majorVersion = 1
        kp, vp = S.real("k_pos"), S.real("v_pos")
        kn, vn = S.real("k_neg"), S.real("v_neg")
        mapping = {-1.0: -1.0}
        if variant in ("lower-side-one-knot", "both-sides"):
            mapping[kn] = vn
        mapping[0.0] = 0.0
        if variant in ("upper-side-one-knot", "both-sides", "axis-without-request", "pinned-all"):
            mapping[kp] = vp
        mapping[1.0] = 1.0
        avar.segments = {"wght": mapping}
        lo, hi = S.real("lo"), S.real("hi")
        rng = NT.__new__(NT)
        for k, v in (("minimum", lo), ("default", 0), ("maximum", hi), ("distanceNegative", 1), ("distancePositive", 1)):
            object.__setattr__(rng, k, v)
        normalized = {} if variant == "axis-without-request" else {"wght": rng}

        class _Ax:
            axisTag = "wght"

        class _Fvar:
            axes = [_Ax()]
        limits = _Limits(normalized)
        if variant == "pinned-all":
            limits.pinnedLocation = lambda: {"wght": 400}
        font = {"avar": avar, "fvar": _Fvar()}
        old = [(-1.0, -1.0)] + ([(kn, vn)] if kn in [k for k in mapping if k is kn] else []) + [(0.0, 0.0)] + ([(kp, vp)] if any(k is kp for k in mapping) else []) + [(1.0, 1.0)]
        self._old_knots = old
        return dict(varfont=font, axisLimits=limits, normalizedLimits={}, _avar=avar, _old=old, _lo=lo, _hi=hi, _x=S.real("x"),
                    _kp=kp, _vp=vp, _kn=kn, _vn=vn, _variant=variant, _mapping=mapping)

    def requires(self, a):
        return And(0 < a._kp, a._kp < 1, 0 < a._vp, a._vp < 1, -1 < a._kn, a._kn < 0, -1 < a._vn, a._vn < 0,
                   -1 <= a._lo, a._lo < 0, 0 < a._hi, a._hi <= 1, a._lo <= a._x, a._x <= a._hi)

    def call(self, f, a):
        r = f(a.varfont, a.axisLimits, a.normalizedLimits)
        avar = a.varfont.get("avar")
        if avar is None:
            return r, None
        items = []
        for k, v in avar.segments.get("wght", {}).items():       # re-unite keys a proxy-keyed dict keeps apart (see varlib_add_avar.py)
            for i, (k0, _) in enumerate(items):
                if bool(eq(k0, k)):
                    items[i] = (k0, v)
                    break
            else:
                items.append((k, v))
        items.sort(key=lambda kv: kv[0])
        return r, items

    @staticmethod
    def _post(a, r):
        ret, new = r
        if a._variant == "pinned-all":
            return new is None and "avar" not in a.varfont
        if new is None or ret != {}:
            return False
        x, lo, hi = a._x, a._lo, a._hi
        if a._variant == "axis-without-request":
            return And(*[eq(_pl(new, k), v) for k, v in a._old], *[eq(_pl(a._old, k), v) for k, v in new])
        old_at = lambda t: _pl(a._old, t)
        mlo, mhi = old_at(lo), old_at(hi)
        rx = Ite(x >= 0, x / hi, x / (-lo))                      # renormalise in the new range (default stays 0)
        y = old_at(x)
        ry = Ite(y >= 0, y / mhi, y / (-mlo))                    # renormalise in the mapped range
        return eq(_pl(new, rx), ry)

    ensures = [prop("instance-warps-the-axis-as-the-original-did", lambda a, old, r: InstantiateAvarV1._post(a, r))]
