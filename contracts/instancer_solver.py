"""Contracts on fontTools.varLib.instancer.solver (C09, C08): re-expressing a
region (tent) under new axis limits leaves every value on the new range unchanged."""
from pyvc.core import Contract, contract, prop, internal
from pyvc.spec import And, Or, Not, Implies, Ite, eq, div
from contracts.varlib_models import spec_region_axis_scalar


def _limit(S):
    from fontTools.varLib.instancer import NormalizedAxisTripleAndDistances

    # distances only matter to renormalizeValue; keep them symbolic and positive
    return ("limit", S.real("axisMin"), S.real("axisDef"), S.real("axisMax"), S.real("dNeg"), S.real("dPos"))


def tent_value(v, tent):
    """OT region scalar of the ORIGINAL tent (coordinates normalised around 0)."""
    return 1 if tent is None else spec_region_axis_scalar(v, *tent)


def plain_tent(v, tent):
    """A returned tent, still in the old coordinates: the triangle itself (the OT
    special cases for peak == 0 / straddling 0 are relative to the *new* default and
    are covered by the separate clause `tents-valid-around-new-default`)."""
    if tent is None:
        return 1
    l, p, u = tent
    return Ite(eq(v, p), 1, Ite(Or(v <= l, v >= u), 0, Ite(v < p, div(v - l, p - l), div(u - v, u - p))))


def well_formed(lower, peak, upper, axisMin, axisDef, axisMax):
    """The quantifier of C09: well-formed tents (lower <= peak <= upper within -2..2,
    peak != 0, not straddling zero, continuous over the axis range) x all axis limits."""
    return And(-2 <= lower, lower <= peak, peak <= upper, upper <= 2,
               Not(eq(peak, 0)), Not(And(lower < 0, upper > 0)),
               Or(lower < peak, peak <= -1), Or(peak < upper, peak >= 1),
               -1 <= axisMin, axisMin <= axisDef, axisDef <= axisMax, axisMax <= 1)


@contract
class SolveExact(Contract):
    """For every v in the new range: sum_i scalar_i * T(v; tent_i) == T(v; tent)."""
    module = "fontTools.varLib.instancer.solver"
    qualname = "_solve"
    props = ("C09", "C08")
    timeout_ms = 20000

    def args(self, S, variant):
        from fontTools.varLib.instancer import NormalizedAxisTripleAndDistances

        lim = NormalizedAxisTripleAndDistances.__new__(NormalizedAxisTripleAndDistances)
        for k, v in (("minimum", S.real("axisMin")), ("default", S.real("axisDef")), ("maximum", S.real("axisMax")),
                     ("distanceNegative", S.real("dNeg")), ("distancePositive", S.real("dPos"))):
            object.__setattr__(lim, k, v)
        return dict(tent=(S.real("lower"), S.real("peak"), S.real("upper")), axisLimit=lim, v=S.real("v"))

    def requires(self, a):
        L = a.axisLimit
        return And(well_formed(*a.tent, L.minimum, L.default, L.maximum),
                   L.minimum <= a.v, a.v <= L.maximum)

    def call(self, f, a):
        return f(a.tent, a.axisLimit)

    @staticmethod
    def _sum(a, r):
        total = 0
        for scalar, t in r:
            total = total + scalar * plain_tent(a.v, t)
        return total

    ensures = [
        prop("exact-on-new-range", lambda a, old, r: eq(SolveExact._sum(a, r), tent_value(a.v, a.tent))),
        # a tent that survives (scalar != 0) must mean the same thing once the new default
        # becomes 0: ordered, peak not at the new default, not straddling it
        prop("tents-valid-around-new-default", lambda a, old, r: And(*[
            Implies(Not(eq(s, 0)), And(t[0] <= t[1], t[1] <= t[2], Not(eq(t[1], a.axisLimit.default)),
                                       Not(And(t[0] < a.axisLimit.default, a.axisLimit.default < t[2]))))
            for s, t in r if t is not None])),
        internal("first-is-gain", lambda a, old, r: len(r) == 0 or r[0][1] is None),
    ]


def _mk_limit(S):
    from fontTools.varLib.instancer import NormalizedAxisTripleAndDistances

    lim = NormalizedAxisTripleAndDistances.__new__(NormalizedAxisTripleAndDistances)
    for k, v in (("minimum", S.real("axisMin")), ("default", S.real("axisDef")), ("maximum", S.real("axisMax")),
                 ("distanceNegative", S.real("dNeg")), ("distancePositive", S.real("dPos"))):
        object.__setattr__(lim, k, v)
    return lim


def limit_ok(L):
    return And(-1 <= L.minimum, L.minimum <= L.default, L.default <= L.maximum, L.maximum <= 1,
               L.distanceNegative > 0, L.distancePositive > 0)


@contract
class RenormalizeValue(Contract):
    """New normalisation: new default -> 0, new min -> -1, new max -> +1, linear on each
    side of the new default when the old default (0) does not fall strictly inside that
    side or both old distances agree."""
    module = "fontTools.varLib.instancer"
    qualname = "NormalizedAxisTripleAndDistances.renormalizeValue"
    props = ("C09", "C08")

    def args(self, S, variant):
        return dict(self=_mk_limit(S), v=S.real("v"))

    def requires(self, a):
        return limit_ok(a.self)

    # undefined (division by zero) exactly on a degenerate side of the new default
    raises = {ZeroDivisionError: lambda a: Or(And(a.v > a.self.default, eq(a.self.default, a.self.maximum)),
                                              And(a.v < a.self.default, eq(a.self.default, a.self.minimum)))}

    ensures = [
        prop("anchors", lambda a, old, r: And(
            Implies(eq(a.v, a.self.default), eq(r, 0)),
            Implies(And(eq(a.v, a.self.minimum), a.self.minimum < a.self.default), eq(r, -1)),
            Implies(And(eq(a.v, a.self.maximum), a.self.default < a.self.maximum), eq(r, 1)))),
        prop("linear-where-no-kink", lambda a, old, r: And(
            Implies(And(a.v > a.self.default, Or(a.self.default >= 0, eq(a.self.distanceNegative, a.self.distancePositive))),
                    eq(r, div(a.v - a.self.default, a.self.maximum - a.self.default))),
            Implies(And(a.v < a.self.default, Or(a.self.default <= 0, a.self.minimum >= 0,
                                                  eq(a.self.distanceNegative, a.self.distancePositive))),
                    eq(r, div(a.v - a.self.default, a.self.default - a.self.minimum))))),
    ]


@contract
class RenormalizeValueMonotone(Contract):
    module = "fontTools.varLib.instancer"
    qualname = "NormalizedAxisTripleAndDistances.renormalizeValue"
    props = ("C09", "C08")

    def args(self, S, variant):
        return dict(self=_mk_limit(S), v1=S.real("v1"), v2=S.real("v2"))

    def requires(self, a):
        L = a.self
        return And(limit_ok(L), a.v1 < a.v2,
                   Or(L.minimum < L.default, a.v1 >= L.default), Or(L.default < L.maximum, a.v2 <= L.default))

    def call(self, f, a):
        return (f(a.self, a.v1), f(a.self, a.v2))

    ensures = [prop("strictly-monotone-where-nondegenerate", lambda a, old, r: And(
        r[0] <= r[1],
        Implies(And(a.self.minimum < a.self.default, a.self.default < a.self.maximum), r[0] < r[1])))]


@contract
class RebaseTent(Contract):
    tiers = ("thorough",)   # ~400 s of nonlinear real arithmetic; the quick tier carries the
    # same claim as _solve-exactness + structure + the tent-transport lemma below
    """End to end, in the NEW normalised coordinates and with OT semantics: for every
    point v of the new range, sum_i scalar_i * T(n(v); tent_i) == T(v; tent), n = the
    axis limit's own renormalisation.  (When the old default lies strictly inside one
    side of the new range and the two old distances differ, n has a kink there and the
    instancer compensates with avar; that case is excluded here and stated.)"""
    module = "fontTools.varLib.instancer.solver"
    qualname = "rebaseTent"
    props = ("C09", "C08")
    timeout_ms = 30000

    def args(self, S, variant):
        return dict(tent=(S.real("lower"), S.real("peak"), S.real("upper")), axisLimit=_mk_limit(S), v=S.real("v"))

    def requires(self, a):
        L = a.axisLimit
        return And(well_formed(*a.tent, L.minimum, L.default, L.maximum), limit_ok(L),
                   L.minimum <= a.v, a.v <= L.maximum,
                   Or(eq(L.distanceNegative, L.distancePositive),
                      Not(Or(And(L.minimum < 0, 0 < L.default), And(L.default < 0, 0 < L.maximum)))))

    def call(self, f, a):
        return f(a.tent, a.axisLimit)

    @staticmethod
    def _sum(a, r):
        nv = a.axisLimit.renormalizeValue(a.v)
        total = 0
        for scalar, t in r:
            total = total + scalar * tent_value(nv, t)
        return total

    ensures = [
        prop("exact-on-new-range-renormalised", lambda a, old, r: eq(RebaseTent._sum(a, r), tent_value(a.v, a.tent))),
        prop("no-zero-scalars-no-peak-at-default", lambda a, old, r: And(*[
            And(Not(eq(s, 0)), True if t is None else Not(eq(t[1], 0))) for s, t in r])),
    ]


@contract
class RebaseTentAsserts(Contract):
    """rebaseTent refuses ill-formed input with AssertionError (its documented domain)."""
    module = "fontTools.varLib.instancer.solver"
    qualname = "rebaseTent"
    props = ("C09", "C08")
    timeout_ms = 30000

    def args(self, S, variant):
        return dict(tent=(S.real("lower"), S.real("peak"), S.real("upper")), axisLimit=_mk_limit(S))

    def requires(self, a):
        L = a.axisLimit
        # outside the domain on purpose: only shape of the failure is specified
        return Not(And(-1 <= L.minimum, L.minimum <= L.default, L.default <= L.maximum, L.maximum <= 1,
                       -2 <= a.tent[0], a.tent[0] <= a.tent[1], a.tent[1] <= a.tent[2], a.tent[2] <= 2,
                       Not(eq(a.tent[1], 0))))

    raises = {AssertionError: None}
    expect_exceptional_only = True
    ensures = [prop("never-returns-on-ill-formed-input", lambda a, old, r: False)]


@contract
class RebaseTentStructure(Contract):
    """rebaseTent == the non-zero solutions of _solve with every tent coordinate passed
    through the axis limit's renormalisation (so the exactness proved for _solve carries
    over by the transport lemma)."""
    module = "fontTools.varLib.instancer.solver"
    qualname = "rebaseTent"
    props = ("C09", "C08")
    timeout_ms = 20000

    def args(self, S, variant):
        return dict(tent=(S.real("lower"), S.real("peak"), S.real("upper")), axisLimit=_mk_limit(S))

    def requires(self, a):
        L = a.axisLimit
        return And(well_formed(*a.tent, L.minimum, L.default, L.maximum), limit_ok(L))

    @staticmethod
    def _expected(a):
        from pyvc import loader

        solve = loader.real("fontTools.varLib.instancer.solver", "_solve")
        n = a.axisLimit.renormalizeValue
        return [(s, None if t is None else (n(t[0]), n(t[1]), n(t[2]))) for s, t in solve(a.tent, a.axisLimit) if s]

    @staticmethod
    def _same(x, y):
        if len(x) != len(y):
            return False
        cs = []
        for (s1, t1), (s2, t2) in zip(x, y):
            cs.append(eq(s1, s2))
            if (t1 is None) != (t2 is None):
                return False
            if t1 is not None:
                cs.append(eq(t1, t2))
        return And(*cs)

    ensures = [prop("is-renormalised-nonzero-solution", lambda a, old, r: RebaseTentStructure._same(r, RebaseTentStructure._expected(a)))]


@contract
class TentTransportLemma(Contract):
    """Lemma (no code): a tent that lies on one side of the new default d, with peak != d,
    means the same after a map n that is increasing and linear on that side with n(d) = 0:
    T_plain(v; l,p,u) == T_OT(n(v); n(l),n(p),n(u)) for every v on the new range.  With
    _solve/exact-on-new-range, tents-valid-around-new-default and renormalizeValue/
    linear-where-no-kink this yields exactness of rebaseTent in the new coordinates."""
    module = None
    qualname = None
    props = ("C09", "C08")
    variants = ("tent-above-default", "tent-below-default")

    def args(self, S, variant):
        return dict(l=S.real("l"), p=S.real("p"), u=S.real("u"), v=S.real("v"), d=S.real("d"),
                    k=S.real("k"), k2=S.real("k2"), above=(variant == "tent-above-default"))

    def requires(self, a):
        side = And(a.d <= a.l) if a.above else And(a.u <= a.d)
        return And(a.l <= a.p, a.p <= a.u, Not(eq(a.p, a.d)), side, a.k > 0, a.k2 > 0)

    def call(self, f, a):
        return None

    @staticmethod
    def _n(a, x):
        # slope k on the tent's side of d, any positive slope k2 on the other side
        if a.above:
            return Ite(x >= a.d, (x - a.d) * a.k, (x - a.d) * a.k2)
        return Ite(x <= a.d, (x - a.d) * a.k, (x - a.d) * a.k2)

    ensures = [prop("tent-transported", lambda a, old, r: eq(
        plain_tent(a.v, (a.l, a.p, a.u)),
        tent_value(TentTransportLemma._n(a, a.v), (TentTransportLemma._n(a, a.l), TentTransportLemma._n(a, a.p), TentTransportLemma._n(a, a.u)))))]
