"""Contracts on fontTools.cu2qu.cu2qu (C13).  Points are complex numbers = pairs of reals
(A-REAL).  Spec vocabulary: the polar form (blossom) of a cubic Bezier; a sub-curve over
[t0,t1] has control points B(t0,t0,t0), B(t0,t0,t1), B(t0,t1,t1), B(t1,t1,t1)."""
import builtins
import math
from fractions import Fraction

from pyvc.core import Contract, contract, prop, internal, FracComplex
from pyvc.spec import And, Or, Not, Implies, Ite, eq
from pyvc import sym as _sym
from pyvc.sym import SymComplex, SymNum, SymBool


# -- models bound into the cu2qu module namespace ------------------------------------

class _ComplexMeta(type):
    def __instancecheck__(cls, obj):
        return isinstance(obj, (builtins.complex, SymComplex, FracComplex))

    def __call__(cls, re=0, im=0):
        if isinstance(re, (SymNum, SymBool)) or isinstance(im, (SymNum, SymBool)):
            return SymComplex(re, im)
        if isinstance(re, SymComplex):
            return re
        if isinstance(re, Fraction) or isinstance(im, Fraction) or isinstance(re, FracComplex):
            return FracComplex(re, im) if not isinstance(re, FracComplex) else re
        return builtins.complex(re, im)


class complex_(metaclass=_ComplexMeta):
    pass


class _Math:
    def __getattr__(self, name):
        return getattr(math, name)

    @staticmethod
    def isnan(x):
        if isinstance(x, (SymNum, Fraction, int)):
            return False            # a real number is never NaN (A-REAL)
        return math.isnan(x)


REBIND = {"complex": complex_, "math": _Math()}
A_REAL = "A-REAL: floats as mathematical reals; float literals (0.125, 1.5, 1/27, 2/3) denote the simplest rational in their rounding interval"


def _c(n):
    return n.concrete() if hasattr(n, "concrete") else int(n)


def pts(S, name, n=4):
    return [S.complex("%s%d" % (name, i)) for i in range(n)]


# -- spec ---------------------------------------------------------------------------------

def lerp(a, b, t):
    return a + (b - a) * t


def blossom(p, u, v, w):
    """Polar form of the cubic with control points p[0..3]."""
    a0, a1, a2 = lerp(p[0], p[1], u), lerp(p[1], p[2], u), lerp(p[2], p[3], u)
    b0, b1 = lerp(a0, a1, v), lerp(a1, a2, v)
    return lerp(b0, b1, w)


def subcurve(p, t0, t1):
    return (blossom(p, t0, t0, t0), blossom(p, t0, t0, t1), blossom(p, t0, t1, t1), blossom(p, t1, t1, t1))


def ceq(a, b):
    """complex equality over proxies / exact complex / floats"""
    if isinstance(a, (SymComplex, SymNum)) or isinstance(b, (SymComplex, SymNum)):
        return SymComplex.lift(a) == b
    a, b = FracComplex.lift(a), FracComplex.lift(b)
    return eq(float(a.real), float(b.real)) and eq(float(a.imag), float(b.imag))


def same_cubic(c, d):
    return And(*[ceq(x, y) for x, y in zip(c, d)])


def frac(a, b):
    return Fraction(a, b)


def elevate(q0, q1, q2):
    """Degree elevation: the cubic control points of the quadratic (q0, q1, q2)."""
    return (q0, q0 + (q1 - q0) * frac(2, 3), q2 + (q1 - q2) * frac(2, 3), q2)


# -- de Casteljau splits ---------------------------------------------------------------------

class _Split(Contract):
    module = "fontTools.cu2qu.cu2qu"
    props = ("C13",)
    rebind = REBIND
    assumptions = (A_REAL,)
    n = None

    def args(self, S, variant):
        p = pts(S, "p")
        return dict(p0=p[0], p1=p[1], p2=p[2], p3=p[3])

    @property
    def ensures(self):
        n = self.n
        return [prop("parts-are-the-de-Casteljau-subcurves", lambda a, old, r: And(
            len(r) == n, *[same_cubic(r[i], subcurve([a.p0, a.p1, a.p2, a.p3], frac(i, n), frac(i + 1, n))) for i in range(n)]))]


@contract
class SplitCubicIntoTwo(_Split):
    qualname = "split_cubic_into_two"
    n = 2


@contract
class SplitCubicIntoThree(_Split):
    qualname = "split_cubic_into_three"
    n = 3


@contract
class SplitCubicIntoN(Contract):
    """split_cubic_into_n_iter for concrete n (dispatch to the hand-coded 2,3,4,6 cases and the
    generic generator): the i-th yielded cubic is the restriction to [i/n, (i+1)/n]."""
    module = "fontTools.cu2qu.cu2qu"
    qualname = "split_cubic_into_n_iter"
    props = ("C13",)
    rebind = REBIND
    assumptions = (A_REAL,)
    level = "PF"
    variants = (2, 3, 4, 5, 6, 7, 13)

    def variants_for(self, tier):
        return self.variants if tier == "quick" else tuple(range(2, 41)) + (64, 100)

    def args(self, S, variant):
        p = pts(S, "p")
        return dict(p0=p[0], p1=p[1], p2=p[2], p3=p[3], n=S.pin(variant))

    def call(self, f, a):
        return list(f(a.p0, a.p1, a.p2, a.p3, a.n))

    ensures = [prop("parts-are-the-de-Casteljau-subcurves", lambda a, old, r: And(
        len(r) == _c(a.n), *[same_cubic(r[i], subcurve([a.p0, a.p1, a.p2, a.p3], frac(i, _c(a.n)), frac(i + 1, _c(a.n))))
                         for i in range(_c(a.n))]))]


@contract
class CubicParametersPoints(Contract):
    """calc_cubic_points(calc_cubic_parameters(p)) == p, and the parameters are the power
    basis: B(t) = a t^3 + b t^2 + c t + d."""
    module = "fontTools.cu2qu.cu2qu"
    qualname = "calc_cubic_parameters"
    props = ("C13",)
    rebind = REBIND
    assumptions = (A_REAL,)

    def args(self, S, variant):
        p = pts(S, "p")
        return dict(p0=p[0], p1=p[1], p2=p[2], p3=p[3], t=S.real("t"))

    def call(self, f, a):
        prm = f(a.p0, a.p1, a.p2, a.p3)
        return prm, self.mod.calc_cubic_points(*prm)

    ensures = [
        prop("points-of-parameters-is-identity", lambda a, old, r: same_cubic(r[1], (a.p0, a.p1, a.p2, a.p3))),
        prop("power-basis", lambda a, old, r: ceq(
            ((r[0][0] * a.t + r[0][1]) * a.t + r[0][2]) * a.t + r[0][3], blossom([a.p0, a.p1, a.p2, a.p3], a.t, a.t, a.t))),
    ]


@contract
class CubicApproxControl(Contract):
    module = "fontTools.cu2qu.cu2qu"
    qualname = "cubic_approx_control"
    props = ("C13",)
    rebind = REBIND
    assumptions = (A_REAL,)

    def args(self, S, variant):
        p = pts(S, "p")
        return dict(t=S.real("t"), p0=p[0], p1=p[1], p2=p[2], p3=p[3])

    # the candidate off-curve point: interpolation between the two "3/2 handle" points
    ensures = [prop("lerp-of-extended-handles", lambda a, old, r: ceq(
        r, lerp(a.p0 + (a.p1 - a.p0) * frac(3, 2), a.p3 + (a.p2 - a.p3) * frac(3, 2), a.t)))]


# -- the fit test -----------------------------------------------------------------------------

class FitLog:
    """Stub for the recursive / modular use of cubic_farthest_fit_inside: records the
    arguments and returns an arbitrary boolean (its contract is the recursive statement)."""

    def __init__(self):
        self.calls = []
        self.real = None
        self.depth = 0

    def __call__(self, p0, p1, p2, p3, tolerance):
        if self.real is not None:
            # native replay: pure recorder around the real function; only the calls made
            # directly by the function under test (depth 0) are recorded
            self.depth += 1
            try:
                r = self.real(p0, p1, p2, p3, tolerance)
            finally:
                self.depth -= 1
            if self.depth == 0:
                self.calls.append(((p0, p1, p2, p3, tolerance), r))
            return r
        r = _sym.ctx().fresh_bool("fit")
        self.calls.append(((p0, p1, p2, p3, tolerance), r))
        return r


def norm2(z):
    z = SymComplex.lift(z) if not isinstance(z, FracComplex) else z
    return z.real * z.real + z.imag * z.imag


def within(z, tol):
    return norm2(z) <= tol * tol


@contract
class CubicFarthestFitInside(Contract):
    """Recursive contract: (|p0| <= tol and |p3| <= tol and result) ==> for all t in [0,1]:
    |B(t)| <= tol.  This obligation checks the step: True is returned only (a) when both
    inner control points are within tol (base case; with the end points that is the whole
    control polygon, hence the curve, by the convex-hull property A-HULL), or (b) when
    |B(1/2)| <= tol and the function recursed on exactly the two de Casteljau halves and both
    calls returned True (each half then satisfies the precondition of the contract)."""
    module = "fontTools.cu2qu.cu2qu"
    qualname = "cubic_farthest_fit_inside"
    props = ("C13",)
    assumptions = (A_REAL, "A-HULL: a Bezier curve lies in the convex hull of its control points and a disc is convex (textbook fact, used for the base case of the recursive contract; not machine-checked)")

    def replay_recorders(self):
        self.log = FitLog()
        return {"cubic_farthest_fit_inside": self.log}

    def rebind(self):
        self.log = FitLog()
        return dict(REBIND, cubic_farthest_fit_inside=self.log)

    def args(self, S, variant):
        self.log.calls = []
        p = pts(S, "p")
        return dict(p0=p[0], p1=p[1], p2=p[2], p3=p[3], tolerance=S.real("tol"))

    def call(self, f, a):
        if self.log.real is not None:      # native replay: this top-level call is not a recorded one
            r = self.log.real(a.p0, a.p1, a.p2, a.p3, a.tolerance)
        else:
            r = f(a.p0, a.p1, a.p2, a.p3, a.tolerance)
        a._calls = list(self.log.calls)     # the log belongs to THIS path
        return r

    def requires(self, a):
        return a.tolerance >= 0

    @staticmethod
    def _step(self, a, r):
        if not r:
            return True
        if And(within(a.p1, a.tolerance), within(a.p2, a.tolerance)):
            return True                                   # base case
        calls = a._calls
        if len(calls) != 2:
            return False
        P = [a.p0, a.p1, a.p2, a.p3]
        h1, h2 = subcurve(P, 0, frac(1, 2)), subcurve(P, frac(1, 2), 1)
        (c1, r1), (c2, r2) = calls
        return And(within(blossom(P, frac(1, 2), frac(1, 2), frac(1, 2)), a.tolerance),
                   same_cubic(c1[:4], h1), same_cubic(c2[:4], h2),
                   eq(c1[4], a.tolerance), eq(c2[4], a.tolerance), r1, r2)

    @property
    def ensures(self):
        return [prop("true-only-via-base-case-or-both-halves", lambda a, old, r, self=self: CubicFarthestFitInside._step(self, a, r))]


# -- single quadratic -----------------------------------------------------------------------------

@contract
class CubicApproxQuadratic(Contract):
    """A returned quadratic starts/ends on the cubic's end points and was accepted by the fit
    test applied to exactly the control points of (elevated quadratic - cubic), whose end
    points are 0 - so (fit contract) it is within tolerance of the cubic everywhere."""
    module = "fontTools.cu2qu.cu2qu"
    qualname = "cubic_approx_quadratic"
    props = ("C13",)
    assumptions = (A_REAL,)

    def replay_recorders(self):
        self.log = FitLog()
        return {"cubic_farthest_fit_inside": self.log}

    def rebind(self):
        self.log = FitLog()
        return dict(REBIND, cubic_farthest_fit_inside=self.log)

    def args(self, S, variant):
        self.log.calls = []
        return dict(cubic=pts(S, "c"), tolerance=S.real("tol"))

    def requires(self, a):
        return a.tolerance >= 0

    def call(self, f, a):
        r = f(a.cubic, a.tolerance)
        a._calls = list(self.log.calls)
        return r

    @staticmethod
    def _post(self, a, r):
        if r is None:
            return True
        c = a.cubic
        if len(r) != 3 or len(a._calls) != 1:
            return False
        (args, ok) = a._calls[0]
        e = elevate(r[0], r[1], r[2])
        return And(ceq(r[0], c[0]), ceq(r[2], c[3]), ok,
                   ceq(args[0], 0), ceq(args[3], 0), ceq(args[1], e[1] - c[1]), ceq(args[2], e[2] - c[2]),
                   eq(args[4], a.tolerance))

    @property
    def ensures(self):
        return [prop("endpoints-kept-and-error-curve-accepted", lambda a, old, r, self=self: CubicApproxQuadratic._post(self, a, r))]


# -- spline of n quadratics ------------------------------------------------------------------------

@contract
class CubicApproxSpline(Contract):
    """For a given n: a returned spline has n+2 points, starts and ends on the cubic's end
    points, and every one of its n quadratic segments (implied on-curve points = midpoints of
    consecutive off-curve points, TrueType convention) was accepted: the fit test received
    exactly the control points of (elevated segment - i-th sub-cubic), its end deltas are
    within tolerance, and the test returned True."""
    module = "fontTools.cu2qu.cu2qu"
    qualname = "cubic_approx_spline"
    props = ("C13",)
    assumptions = (A_REAL,)
    level = "PF"
    variants = ("2", "3", "4", "5", "2-mixed", "1")
    timeout_ms = 20000

    def variants_for(self, tier):
        return self.variants if tier == "quick" else self.variants + tuple(str(k) for k in (6, 7, 8, 10, 16))

    def replay_recorders(self):
        self.log = FitLog()
        return {"cubic_farthest_fit_inside": self.log}

    def rebind(self):
        self.log = FitLog()
        return dict(REBIND, cubic_farthest_fit_inside=self.log)

    def args(self, S, variant):
        self.log.calls = []
        n = int(variant.split("-")[0])
        return dict(cubic=pts(S, "c"), n=S.pin(n), tolerance=S.real("tol"), all_quadratic=not variant.endswith("mixed"))

    def requires(self, a):
        return a.tolerance >= 0

    def call(self, f, a):
        r = f(a.cubic, a.n, a.tolerance, a.all_quadratic)
        a._calls = list(self.log.calls)
        return r

    @staticmethod
    def _post(self, a, r):
        if r is None:
            return True
        c, n = a.cubic, int(a.n) if not hasattr(a.n, "concrete") else a.n.concrete()
        if n == 1:
            return len(r) == 3 and And(ceq(r[0], c[0]), ceq(r[2], c[3]))
        if n == 2 and not a.all_quadratic:
            return len(r) == 4 and same_cubic(r, c)       # the cubic itself, unchanged
        if len(r) != n + 2 or len(a._calls) != n:
            return False
        cs = [ceq(r[0], c[0]), ceq(r[n + 1], c[3])]
        # on-curve points of the spline: r[0], midpoints of consecutive off-curves, r[n+1]
        on = [r[0]] + [(r[i] + r[i + 1]) * frac(1, 2) for i in range(1, n)] + [r[n + 1]]
        for i in range(n):
            sub = subcurve(c, frac(i, n), frac(i + 1, n))
            e = elevate(on[i], r[i + 1], on[i + 1])
            (args, ok) = a._calls[i]
            cs += [ok, eq(args[4], a.tolerance),
                   ceq(args[0], e[0] - sub[0]), ceq(args[1], e[1] - sub[1]),
                   ceq(args[2], e[2] - sub[2]), ceq(args[3], e[3] - sub[3]),
                   within(e[0] - sub[0], a.tolerance), within(e[3] - sub[3], a.tolerance)]
        return And(*cs)

    @property
    def ensures(self):
        return [prop("endpoints-kept-and-every-segment-accepted", lambda a, old, r, self=self: CubicApproxSpline._post(self, a, r))]


# -- the n search -------------------------------------------------------------------------------------

class SplineLog:
    """Stub for cubic_approx_spline in the callers: arbitrary accept/reject, the accepted
    spline has the shape the callee's contract promises."""

    def __init__(self):
        self.calls = []
        self.real = None

    def __call__(self, cubic, n, tolerance, all_quadratic):
        if self.real is not None:
            res = self.real(cubic, n, tolerance, all_quadratic)
            self.calls.append((cubic, n, tolerance, all_quadratic, res))
            return res
        cx = _sym.ctx()
        ok = bool(cx.fresh_bool("accept"))
        k = len(self.calls)
        if ok:
            out = ("spline", k, n, [SymComplex(cx.fresh_real("s"), cx.fresh_real("s")) for _ in range(3)])
            res = out[3]
        else:
            res = None
        self.calls.append((cubic, n, tolerance, all_quadratic, res))
        return res


@contract
class CurveToQuadratic(Contract):
    """Returns only a spline that cubic_approx_spline accepted for this curve and tolerance;
    tries n = 1, 2, ... in order; if every n up to MAX_N is rejected an error is raised
    rather than a worse curve (MAX_N rebound to 6 to bound the search: stated)."""
    module = "fontTools.cu2qu.cu2qu"
    qualname = "curve_to_quadratic"
    props = ("C13",)
    level = "PF"

    def replay_recorders(self):
        self.log = SplineLog()
        return {"cubic_approx_spline": self.log}

    def rebind(self):
        self.log = SplineLog()
        return dict(REBIND, cubic_approx_spline=self.log, MAX_N=6)

    def args(self, S, variant):
        self.log.calls = []
        return dict(curve=[(S.real("x%d" % i), S.real("y%d" % i)) for i in range(4)], max_err=S.real("tol"))

    from fontTools.cu2qu.errors import ApproxNotFoundError as _E
    raises = {_E: None}

    def call(self, f, a):
        try:
            return f(a.curve, a.max_err)
        finally:
            a._calls = list(self.log.calls)

    @staticmethod
    def _post(self, a, r):
        calls = a._calls
        if not calls or calls[-1][4] is None:
            return False
        last = calls[-1]
        cs = [eq(last[2], a.max_err), len(r) == len(last[4])]
        cs += [And(eq(x, s.real), eq(y, s.imag)) for (x, y), s in zip(r, last[4])]
        cs += [ceq(p, complex_(*q)) for p, q in zip(last[0], a.curve)]
        cs += [c[4] is None for c in calls[:-1]]
        cs += [c[1] == i + 1 for i, c in enumerate(calls)]
        return And(*cs)

    @property
    def ensures(self):
        return [prop("returns-only-an-accepted-spline-of-this-curve", lambda a, old, r, self=self: CurveToQuadratic._post(self, a, r)),
                ]

    def _raise_ok(self, a):
        return True


@contract
class CurveToQuadraticError(CurveToQuadratic):
    """ApproxNotFoundError iff every n in 1..MAX_N was rejected."""

    @property
    def ensures(self):
        return []

    @property
    def raises(self):
        E = CurveToQuadratic._E
        return {E: lambda a: len(a._calls) == 6 and all(c[4] is None for c in a._calls)}


@contract
class CurvesToQuadratic(Contract):
    """Several curves converted together: every returned spline was accepted by
    cubic_approx_spline for ITS curve, ITS tolerance and the SAME final n (hence the same
    number of segments); otherwise ApproxNotFoundError.  Shapes: 1..3 curves, MAX_N rebound
    to 4 (bounded search depth: stated)."""
    module = "fontTools.cu2qu.cu2qu"
    qualname = "curves_to_quadratic"
    props = ("C13",)
    level = "PF"
    variants = (1, 2, 3)
    max_paths = 60000

    def replay_recorders(self):
        self.log = SplineLog()
        return {"cubic_approx_spline": self.log}

    def rebind(self):
        self.log = SplineLog()
        return dict(REBIND, cubic_approx_spline=self.log, MAX_N=4)

    def args(self, S, variant):
        self.log.calls = []
        curves = [[(S.real("x%d_%d" % (k, i)), S.real("y%d_%d" % (k, i))) for i in range(4)] for k in range(variant)]
        return dict(curves=curves, max_errors=[S.real("tol%d" % k) for k in range(variant)])

    from fontTools.cu2qu.errors import ApproxNotFoundError as _E
    raises = {_E: None}

    def call(self, f, a):
        try:
            return f(a.curves, a.max_errors)
        finally:
            a._calls = list(self.log.calls)

    @staticmethod
    def _post(self, a, r):
        calls = a._calls
        l = len(a.curves)
        if len(r) != l:
            return False
        n_final = calls[-1][1]
        cs = []
        for k in range(l):
            # the LAST call made for curve k must be an accepting one, with n_final and tol_k
            mine = [c for c in calls if And(*[ceq(p, complex_(*q)) for p, q in zip(c[0], a.curves[k])]) is True or
                    all(p is q or True for p, q in zip(c[0], a.curves[k])) and c[0] is not None and _same_curve(c[0], a.curves[k])]
            if not mine:
                return False
            last = mine[-1]
            if last[4] is None or last[1] != n_final:
                return False
            cs.append(eq(last[2], a.max_errors[k]))
            cs.append(len(r[k]) == len(last[4]))
            cs += [And(eq(x, s.real), eq(y, s.imag)) for (x, y), s in zip(r[k], last[4])]
        return And(*cs)

    @property
    def ensures(self):
        return [prop("each-spline-accepted-for-its-curve-its-tolerance-same-n", lambda a, old, r, self=self: CurvesToQuadratic._post(self, a, r))]


def _same_curve(cplx_pts, tuples):
    """syntactic identity of a converted curve with input curve k (symbols are distinct per curve)"""
    for p, (x, y) in zip(cplx_pts, tuples):
        p = SymComplex.lift(p) if not isinstance(p, (FracComplex, complex)) else p
        if isinstance(p, SymComplex):
            import z3
            if not (z3.eq(z3.simplify(p.re.real()), z3.simplify(_sym._lift(x).real())) and
                    z3.eq(z3.simplify(p.im.real()), z3.simplify(_sym._lift(y).real()))):
                return False
        else:
            if not (p.real == x and p.imag == y):
                return False
    return True
