"""_add_avar (C10): the segment map written for an axis is, as a piecewise-linear function on
[-1, 1], the designspace <map> of that axis seen in normalised coordinates - the statement the
composition lemma (varlib_avar.py) takes as given.  Checked on the real function with symbolic
map entries; equality of the two piecewise-linear functions = each takes the other's value at
every one of the other's knots."""
from collections import OrderedDict

from pyvc.core import Contract, contract, prop, internal
from pyvc.spec import And, Or, Not, Implies, Ite, eq

SHAPES = {
    # where the default sits among the map keys, and how many intermediate entries there are
    "min<a<default<max": (4, 2),
    "min<default<b<max": (4, 1),
    "min<a<default<b<max": (5, 2),
    "min<default<b<c<max": (5, 1),
    "min<a<b<default<max": (5, 3),
    "default-at-min": (3, 0),
    "default-at-max": (3, 2),
}


class _Axis:
    def __init__(self, tag, keys, vals, d):
        self.tag, self.name = tag, "Axis " + tag
        self.keys, self.vals = keys, vals
        self.minimum, self.default, self.maximum = keys[0], keys[d], keys[-1]
        self._d = d

    def get_validated_map(self):
        return list(zip(self.keys, self.vals))

    def map_forward(self, v):
        # only asked for minimum / default / maximum, which are map keys
        for k, w in zip(self.keys, self.vals):
            if v is k:
                return w
        raise AssertionError("map_forward called with a value that is not min/default/max")


def _pl(knots, x):
    """piecewise-linear function through knots sorted by key (spec term); outside: clamped ends"""
    out = knots[-1][1]
    for (k0, v0), (k1, v1) in reversed(list(zip(knots, knots[1:]))):
        seg = v0 + (x - k0) * (v1 - v0) / (k1 - k0)
        out = Ite(x <= k1, Ite(eq(x, k1), v1, Ite(eq(x, k0), v0, seg)), out)
    return Ite(x <= knots[0][0], knots[0][1], out)


@contract
class AddAvarWritesTheAxisMap(Contract):
    module = "fontTools.varLib"
    qualname = "_add_avar"
    props = ("C10",)
    variants = tuple(SHAPES)
    level = "PF"
    assumptions = ("A-REAL", "F2Dot14 quantisation happens when the table is compiled, outside this function",
                   "strictly ascending map keys and outputs (a repeated output value is a vertical step the lemma does not cover)")
    timeout_ms = 60000
    deadline_s = 900

    def args(self, S, variant):
        n, d = SHAPES[variant]
        keys = [S.real("k%d" % i) for i in range(n)]
        vals = [S.real("v%d" % i) for i in range(n)]
        ax = _Axis("wght", keys, vals, d)
        return dict(font={}, axes=OrderedDict([(ax.name, ax)]), mappings=[], axisTags=["wght"], _ax=ax, _d=d)

    def requires(self, a):
        k, v = a._ax.keys, a._ax.vals
        return And(*[x < y for x, y in zip(k, k[1:])], *[x < y for x, y in zip(v, v[1:])])

    def call(self, f, a):
        avar = f(a.font, a.axes, a.mappings, a.axisTags)
        if avar is None:
            return None, None, a.font.get("avar")
        # A dict keyed by proxies keeps 1.0 and a symbolic key that EQUALS 1 apart (constant proxy
        # hash); a real dict has one entry, holding the value stored last.  Re-unite them here.
        items = []
        for k, v in avar.segments["wght"].items():
            for i, (k0, _) in enumerate(items):
                if bool(eq(k0, k)):
                    items[i] = (k0, v)
                    break
            else:
                items.append((k, v))
        items.sort(key=lambda kv: kv[0])
        return avar, items, a.font.get("avar")

    @staticmethod
    def _norm(x, lo, de, hi):
        return Ite(x < de, -(de - x) / (de - lo) if lo is not de else 0 * x, (x - de) / (hi - de) if hi is not de else 0 * x)

    @staticmethod
    def _post(a, r):
        avar, curve, stored = r
        ax, d = a._ax, a._d
        k, v = ax.keys, ax.vals
        nk = [AddAvarWritesTheAxisMap._norm(x, k[0], k[d], k[-1]) for x in k]
        nv = [AddAvarWritesTheAxisMap._norm(x, v[0], v[d], v[-1]) for x in v]
        want = list(zip(nk, nv))
        # a default at the minimum / maximum leaves one side of the normalised axis without entries:
        # there the map is the identity
        if d == 0:
            want = [(-1, -1)] + want
        if d == len(k) - 1:
            want = want + [(1, 1)]
        identity = And(*[eq(x, y) for x, y in want])
        if avar is None:
            return And(identity, stored is None)
        if stored is not avar:
            return False
        cs = [eq(_pl(curve, x), y) for x, y in want] + [eq(_pl(want, ck), cv) for ck, cv in curve]
        return And(*cs)

    ensures = [prop("segment-map-is-the-designspace-map-in-normalised-coordinates", lambda a, old, r: AddAvarWritesTheAxisMap._post(a, r))]
