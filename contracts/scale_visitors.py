"""scale_upem's per-table visit functions (C17): every font-unit field of a table object is
replaced by scale(old value), every other field is left alone.  `scale` is an uninterpreted
function here (ScalerVisitor.scale itself - round to nearest - is under contract in
reorder_scale_merge.py), so a field scaled twice, not at all, or with another field's value
cannot satisfy the clause.  The objects are the real table classes, reached through the real
visitor dispatch (ScalerVisitor.visit -> registered visit functions)."""
from pyvc.core import Contract, contract, prop, internal
from pyvc.spec import And, Or, Not, Implies, Ite, eq


def _scaler(S):
    """a ScalerVisitor whose scale() is the uninterpreted SC"""
    from fontTools.ttLib.scaleUpem import ScalerVisitor
    v = ScalerVisitor(2)
    if S.concrete:
        v.scale = lambda x: x * 3 + 1            # native replay: some injective function
        return v, v.scale
    import z3
    from pyvc.sym import SymNum, _lift
    fn = z3.Function("SC", z3.IntSort(), z3.IntSort())
    v.scale = lambda x: SymNum(fn(_lift(x).t))
    return v, v.scale


# (table tag or otTables class name, scaled fields, fields that must stay)
ATTR_TABLES = {
    "head": (("unitsPerEm", "xMin", "yMin", "xMax", "yMax"), ("fontRevision", "flags", "macStyle", "lowestRecPPEM", "indexToLocFormat")),
    "post": (("underlinePosition", "underlineThickness"), ("italicAngle", "isFixedPitch", "formatType")),
    "hhea": (("ascent", "descent", "lineGap", "advanceWidthMax", "minLeftSideBearing", "minRightSideBearing", "xMaxExtent", "caretOffset"),
             ("caretSlopeRise", "caretSlopeRun", "numberOfHMetrics")),
    "vhea": (("ascent", "descent", "lineGap", "advanceHeightMax", "minTopSideBearing", "minBottomSideBearing", "yMaxExtent", "caretOffset"),
             ("caretSlopeRise", "caretSlopeRun", "numberOfVMetrics")),
    "OS/2": (("xAvgCharWidth", "ySubscriptXSize", "ySubscriptYSize", "ySubscriptXOffset", "ySubscriptYOffset", "ySuperscriptXSize",
              "ySuperscriptYSize", "ySuperscriptXOffset", "ySuperscriptYOffset", "yStrikeoutSize", "yStrikeoutPosition", "sTypoAscender",
              "sTypoDescender", "sTypoLineGap", "usWinAscent", "usWinDescent", "sxHeight", "sCapHeight"),
             ("version", "usWeightClass", "usWidthClass", "fsType", "fsSelection", "usFirstCharIndex", "usMaxContext", "usLowerOpticalPointSize")),
    "ot:ValueRecord": (("XAdvance", "YAdvance", "XPlacement", "YPlacement"), ()),
    "ot:Anchor": (("XCoordinate", "YCoordinate"), ("Format", "AnchorPoint")),
    "ot:CaretValue": (("Coordinate",), ("Format",)),
    "ot:BaseCoord": (("Coordinate",), ("Format", "BaseCoordPoint")),
    "ot:MathValueRecord": (("Value",), ()),
    "ot:ClipBox": (("xMin", "yMin", "xMax", "yMax"), ("Format",)),
    "ot:MathConstants": (("DelimitedSubFormulaMinHeight", "DisplayOperatorMinHeight"),
                         ("ScriptPercentScaleDown", "ScriptScriptPercentScaleDown", "RadicalDegreeBottomRaisePercent")),
    "ot:MathVariants": (("MinConnectorOverlap",), ("VertGlyphCount", "HorizGlyphCount")),
    "ot:MathGlyphVariantRecord": (("AdvanceMeasurement",), ()),
    "ot:GlyphPartRecord": (("StartConnectorLength", "EndConnectorLength", "FullAdvance"), ("PartFlags",)),
}


@contract
class ScalerVisitsDeclaredFields(Contract):
    module = "fontTools.ttLib.scaleUpem"
    qualname = "ScalerVisitor"
    props = ("C17",)
    shadow_mode = "real"
    variants = tuple(ATTR_TABLES)
    level = "PF"
    assumptions = ("scale() is an uninterpreted function (its own contract: ScalerVisitorScale)",)

    def args(self, S, variant):
        from fontTools.ttLib import getTableClass
        from fontTools.ttLib.tables import otTables, otBase
        scaled, kept = ATTR_TABLES[variant]
        if variant.startswith("ot:"):
            cls = getattr(otTables, variant[3:], None) or getattr(otBase, variant[3:])
            obj = cls()
        else:
            obj = getTableClass(variant)()
        vals = {}
        for n in scaled + kept:
            vals[n] = S.int("f_" + n, -30000, 30000)
            setattr(obj, n, vals[n])
        visitor, sc = _scaler(S)
        return dict(visitor=visitor, obj=obj, _vals=vals, _scaled=scaled, _kept=kept, _sc=sc)

    def call(self, f, a):
        a.visitor.visit(a.obj)
        return a.obj

    ensures = [prop("declared-fields-scaled-once-others-untouched", lambda a, old, r: And(
        *[eq(getattr(r, n), a._sc(a._vals[n])) for n in a._scaled], *[eq(getattr(r, n), a._vals[n]) for n in a._kept]))]


@contract
class ScalerVisitsContainers(Contract):
    """hmtx / vmtx metrics, VORG (default and per-glyph origins), kern pair values, glyf (boxes,
    component offsets, every coordinate), gvar (every explicit delta; None stays None) and the
    rows of an ItemVariationStore's VarData (followed by a recomputation of the column widths)."""
    module = "fontTools.ttLib.scaleUpem"
    qualname = "ScalerVisitor"
    props = ("C17",)
    shadow_mode = "real"
    variants = ("hmtx", "vmtx", "VORG", "kern", "glyf", "gvar", "VarData", "avar")
    level = "PF"
    assumptions = ScalerVisitsDeclaredFields.assumptions + ("glyph coordinates are held in a plain list standing in for GlyphCoordinates",)

    def args(self, S, variant):
        from fontTools.ttLib import getTableClass
        visitor, sc = _scaler(S)
        obj = getTableClass(variant)() if variant != "VarData" else None
        cells = []                      # (getter, old value, scaled?)

        def num(name):
            return S.int(name, -30000, 30000)
        if variant in ("hmtx", "vmtx"):
            obj.metrics = {g: (num(g + ".adv"), num(g + ".sb")) for g in ("a", "b")}
            for g in ("a", "b"):
                for k in (0, 1):
                    cells.append((lambda g=g, k=k: obj.metrics[g][k], obj.metrics[g][k], True))
        elif variant == "VORG":
            obj.defaultVertOriginY = num("default")
            obj.VOriginRecords = {g: num(g + ".y") for g in ("a", "b")}
            obj.majorVersion, obj.minorVersion = 1, 0
            cells.append((lambda: obj.defaultVertOriginY, obj.defaultVertOriginY, True))
            for g in ("a", "b"):
                cells.append((lambda g=g: obj.VOriginRecords[g], obj.VOriginRecords[g], True))
        elif variant == "kern":
            class _Sub:
                pass
            subs = []
            for i in range(2):
                t = _Sub()
                t.kernTable = {("a", "b"): num("k%d.ab" % i), ("b", "a"): num("k%d.ba" % i)}
                t.coverage = num("k%d.coverage" % i)
                subs.append(t)
                for pair in t.kernTable:
                    cells.append((lambda t=t, pair=pair: t.kernTable[pair], t.kernTable[pair], True))
                cells.append((lambda t=t: t.coverage, t.coverage, False))
            obj.kernTables = subs
            obj.version = 0
        elif variant == "glyf":
            from fontTools.ttLib.tables._g_l_y_f import Glyph, GlyphComponent
            simple, comp, empty = Glyph(), Glyph(), Glyph()
            simple.numberOfContours = 1
            simple.coordinates = [(num("x%d" % i), num("y%d" % i)) for i in range(3)]
            simple.flags, simple.endPtsOfContours = bytearray([1, 1, 1]), [2]
            comp.numberOfContours = -1
            comp.components = []
            for i in range(2):
                c = GlyphComponent()
                c.glyphName, c.flags, c.x, c.y = "simple", 0x4, num("c%d.x" % i), num("c%d.y" % i)
                comp.components.append(c)
                cells.append((lambda c=c: c.x, c.x, True))
                cells.append((lambda c=c: c.y, c.y, True))
            empty.numberOfContours = 0
            for tag, g in (("s", simple), ("c", comp)):
                for n in ("xMin", "yMin", "xMax", "yMax"):
                    setattr(g, n, num(tag + "." + n))
                    cells.append((lambda g=g, n=n: getattr(g, n), getattr(g, n), True))
            for i in range(3):
                for k in (0, 1):
                    cells.append((lambda i=i, k=k: simple.coordinates[i][k], simple.coordinates[i][k], True))
            obj.glyphs = {"simple": simple, "comp": comp, "empty": empty}
            obj.glyphOrder = ["simple", "comp", "empty"]
        elif variant == "VarData":
            from fontTools.ttLib.tables import otTables as ot
            obj = ot.VarData()
            obj.VarRegionIndex, obj.VarRegionCount = [0, 1], 2
            obj.Item = [[num("r%d.c%d" % (i, j)) for j in range(2)] for i in range(2)]
            obj.ItemCount, obj.NumShorts = 2, 0
            obj.calculateNumShorts = lambda optimize=False: setattr(obj, "_recalculated", True)     # width bookkeeping is varLib.builder's
            for i in range(2):
                for j in range(2):
                    cells.append((lambda i=i, j=j: obj.Item[i][j], obj.Item[i][j], True))
        elif variant == "avar":
            # version 2: an ItemVariationStore of NORMALIZED-coordinate deltas - not font units, nothing to scale
            from fontTools.ttLib.tables import otTables as ot
            obj.majorVersion, obj.segments = 2, {"wght": {-1.0: -1.0, 0.0: 0.0, 1.0: 1.0}}
            obj.table = ot.avar()
            obj.table.VarStore = ot.VarStore()
            vd = ot.VarData()
            vd.VarRegionIndex, vd.VarRegionCount, vd.ItemCount, vd.NumShorts = [0], 1, 2, 0
            vd.Item = [[num("n0")], [num("n1")]]
            vd.calculateNumShorts = lambda optimize=False: None
            obj.table.VarStore.VarData = [vd]
            for i in range(2):
                cells.append((lambda i=i: vd.Item[i][0], vd.Item[i][0], False))
        elif variant == "gvar":
            class _TV:
                pass
            tv1, tv2 = _TV(), _TV()
            tv1.coordinates = [(num("d0.x"), num("d0.y")), None, (num("d2.x"), num("d2.y"))]
            tv2.coordinates = [None, (num("e1.x"), num("e1.y"))]
            tv1.axes = tv2.axes = {"wght": (0, 1, 1)}
            obj.variations = {"a": [tv1, tv2], "b": []}
            visitor.font = {"glyf": {"a": object(), "b": object()}}
            for tv in (tv1, tv2):
                for i, xy in enumerate(tv.coordinates):
                    if xy is not None:
                        for k in (0, 1):
                            cells.append((lambda tv=tv, i=i, k=k: tv.coordinates[i][k], xy[k], True))
            nones = [(tv1, 1), (tv2, 0)]
        return dict(visitor=visitor, obj=obj, _cells=cells, _sc=sc, _variant=variant, _nones=nones if variant == "gvar" else [])

    def call(self, f, a):
        a.visitor.visit(a.obj)
        return a.obj

    @staticmethod
    def _post(a):
        cs = [eq(get(), a._sc(old) if scaled else old) for get, old, scaled in a._cells]
        cs += [tv.coordinates[i] is None for tv, i in a._nones]
        if a._variant == "VarData":
            cs.append(getattr(a.obj, "_recalculated", False))         # the column widths are recomputed after scaling
        return And(len(a._cells) > 0, *cs)

    ensures = [prop("every-font-unit-value-scaled-once", lambda a, old, r: ScalerVisitsContainers._post(a))]


class _Ns:
    def __init__(self, **kw):
        self.__dict__.update(kw)


class _CharStringsStub:
    def __init__(self, d):
        self.d = d

    def getItemAndSelector(self, g):
        return self.d[g], None


class _CFFStub:
    def __init__(self, topDict, font):
        self.topDictIndex = [topDict]
        self._font = font
        self.desubroutinized = 0

    def desubroutinize(self):
        self.desubroutinized += 1

    def keys(self):
        return ["TheFont"]

    def __getitem__(self, name):
        assert name == "TheFont"
        return self._font


@contract
class ScalerVisitsCFF(Contract):
    """The CFF / CFF2 visit function: every charstring operand (width included) of every glyph,
    the top dict's UnderlinePosition / UnderlineThickness / FontBBox / StrokeWidth and each
    DISTINCT Private dict's blues, stems and default / nominal widths are scaled once - a
    Private dict shared by several glyphs is not scaled once per glyph; FontMatrix is divided
    by the factor; BlueScale / BlueShift / BlueFuzz and operators stay."""
    module = "fontTools.ttLib.scaleUpem"
    qualname = "ScalerVisitor"
    props = ("C17", "C12")
    shadow_mode = "real"
    variants = ("CFF ", "CFF2")
    level = "PF"
    assumptions = ScalerVisitsDeclaredFields.assumptions + ("the CFF object graph is a minimal stand-in; programToCommands / commandsToProgram are the real ones (under contract in specializer.py)",)

    def args(self, S, variant):
        from fontTools.ttLib import getTableClass
        visitor, sc = _scaler(S)

        def num(name):
            return S.int(name, -3000, 3000)
        shared = _Ns(BlueValues=[num("bv0"), num("bv1")], OtherBlues=[num("ob0"), num("ob1")], StdHW=num("stdhw"), StemSnapH=[num("ss0")],
                     defaultWidthX=num("dwx"), nominalWidthX=num("nwx"), BlueScale=num("bluescale"), BlueShift=num("blueshift"), BlueFuzz=num("bluefuzz"))
        other = _Ns(BlueValues=[num("p2bv0"), num("p2bv1")], StdVW=num("p2stdvw"), FamilyBlues=[num("fb0"), num("fb1")])
        progs = {"a": [num("a.w"), num("a.x"), num("a.y"), "rmoveto", num("a.dx"), num("a.dy"), "rlineto", "endchar"],
                 "b": [num("b.x"), "hmoveto", num("b.d1"), num("b.d2"), num("b.d3"), num("b.d4"), "rlineto", "endchar"],
                 "c": [num("c.y"), "vmoveto", "endchar"]}
        if variant == "CFF2":
            for p in progs.values():
                p.remove("endchar")
            progs["a"] = progs["a"][1:]              # CFF2 charstrings carry no width
        css = {g: _Ns(program=list(p), private=(other if g == "c" else shared)) for g, p in progs.items()}
        topDict = _Ns(UnderlinePosition=num("ulpos"), UnderlineThickness=num("ulthick"), FontBBox=[num("bb%d" % i) for i in range(4)],
                      FontMatrix=[0.001, 0, 0, 0.001, 0, 0], PaintType=num("painttype"))
        font = _Ns(CharStrings=_CharStringsStub(css), charset=["a", "b", "c"])
        table = getTableClass(variant)()
        table.cff = _CFFStub(topDict, font)
        snap = dict(progs={g: list(p) for g, p in progs.items()}, shared={k: (list(v) if isinstance(v, list) else v) for k, v in vars(shared).items()},
                    other={k: (list(v) if isinstance(v, list) else v) for k, v in vars(other).items()},
                    top={k: (list(v) if isinstance(v, list) else v) for k, v in vars(topDict).items()})
        return dict(visitor=visitor, obj=table, _sc=sc, _snap=snap, _css=css, _shared=shared, _other=other, _top=topDict)

    def call(self, f, a):
        a.visitor.visit(a.obj)
        return a.obj

    @staticmethod
    def _post(a):
        sc, snap, cs = a._sc, a._snap, []

        def same(new, old, scaled):
            if isinstance(old, list):
                if not isinstance(new, list) or len(new) != len(old):
                    return False
                return And(*[same(x, y, scaled) for x, y in zip(new, old)])
            if isinstance(old, str) or isinstance(new, str):
                return new == old
            return eq(new, sc(old) if scaled else old)
        for g, old in snap["progs"].items():
            cs.append(same(a._css[g].program, old, True))
        unscaled = ("BlueScale", "BlueShift", "BlueFuzz")
        for ns, old in ((a._shared, snap["shared"]), (a._other, snap["other"])):
            for k, v in old.items():
                cs.append(same(getattr(ns, k), v, k not in unscaled))
        for k, v in snap["top"].items():
            if k == "FontMatrix":
                cs.append(all(abs(x - y / a.visitor.scaleFactor) < 1e-12 for x, y in zip(a._top.FontMatrix, v)))
            else:
                cs.append(same(getattr(a._top, k), v, k != "PaintType"))
        return And(a.obj.cff.desubroutinized >= 1, *cs)

    ensures = [prop("every-font-unit-number-scaled-once", lambda a, old, r: ScalerVisitsCFF._post(a))]
