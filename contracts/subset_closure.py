"""GSUB glyph closure, per subtable type (C07): closure_glyphs adds to the glyph set exactly the
glyphs the subtable can PRODUCE from the position glyphs it is applied to, given the glyphs already
in the set (ligature components, context glyphs), for every current set and every position set -
so that no glyph retained text can shape to is missing from the subset, and none is added that
cannot occur."""
from types import SimpleNamespace

from pyvc.core import Contract, contract, prop, internal
from pyvc.ghost import SymSet
from pyvc.spec import And, Or, Not, Implies, Ite, eq
from contracts.subset_kernels import _K, U


def _cov(ot, glyphs):
    c = ot.Coverage()
    c.glyphs = list(glyphs)
    return c


class _Closure(_K):
    variants = ("closure",)

    def build(self, ot):
        raise NotImplementedError

    def producible(self, st, cur, have):
        """{glyph: spec Bool 'is produced'}; cur / have: glyph -> membership term"""
        raise NotImplementedError

    def args(self, S, variant):
        from fontTools.ttLib.tables import otTables as ot
        G = SymSet("have", U, S)
        C = SymSet("cur", U, S)
        st = self.build(ot)
        return dict(self=st, s=SimpleNamespace(glyphs=G), cur_glyphs=C, _before=dict(G.member), _cur=dict(C.member), _st=st)

    def requires(self, a):
        # the position glyphs are glyphs of the current set
        return And(*[Implies(a._cur[u], a._before[u]) for u in U])

    def _check(self, a):
        prod = self.producible(a._st, a._cur, a._before)
        G = a.s.glyphs
        cs = []
        for u in G.universe:
            before = a._before.get(u, False)
            cs.append(eq(G.member[u], Or(before, prod.get(u, False))))
        return And(*cs)


def _closure_contract(cls):
    cls.ensures = [prop("adds-exactly-the-producible-glyphs", lambda a, old, r, cls=cls: cls()._check(a))]
    return contract(cls)


@_closure_contract
class SingleSubstClosure(_Closure):
    qualname = "SingleSubst.closure_glyphs"

    def build(self, ot):
        st = ot.SingleSubst()
        st.mapping = {"a": "b", "b": "x1", "c": "x1", "e": "a"}
        return st

    def producible(self, st, cur, have):
        out = {}
        for g, v in st.mapping.items():
            out[v] = Or(out.get(v, False), cur[g])
        return out


@_closure_contract
class MultipleSubstClosure(_Closure):
    qualname = "MultipleSubst.closure_glyphs"

    def build(self, ot):
        st = ot.MultipleSubst()
        st.mapping = {"a": ["b", "x1"], "c": [], "d": ["x2", "x2", "e"]}
        return st

    def producible(self, st, cur, have):
        out = {}
        for g, vs in st.mapping.items():
            for v in vs:
                out[v] = Or(out.get(v, False), cur[g])
        return out


@_closure_contract
class AlternateSubstClosure(_Closure):
    qualname = "AlternateSubst.closure_glyphs"

    def build(self, ot):
        st = ot.AlternateSubst()
        st.alternates = {"a": ["x1", "x2"], "b": ["c"], "e": ["x2"]}
        return st

    def producible(self, st, cur, have):
        out = {}
        for g, vs in st.alternates.items():
            for v in vs:
                out[v] = Or(out.get(v, False), cur[g])
        return out


@_closure_contract
class LigatureSubstClosure(_Closure):
    """a ligature is producible when its first glyph is among the position glyphs and ALL its
    other components are in the current set"""
    qualname = "LigatureSubst.closure_glyphs"

    def build(self, ot):
        st = ot.LigatureSubst()
        st.ligatures = {}
        for first, comps, lig in (("a", ("b", "c"), "x1"), ("a", ("d",), "x2"), ("b", (), "x3"), ("c", ("c", "e"), "x1"), ("e", ("a",), "d")):
            l = ot.Ligature()
            l.Component, l.LigGlyph = list(comps), lig
            st.ligatures.setdefault(first, []).append(l)
        return st

    def producible(self, st, cur, have):
        out = {}
        for first, ls in st.ligatures.items():
            for l in ls:
                out[l.LigGlyph] = Or(out.get(l.LigGlyph, False), And(cur[first], *[have[c] for c in l.Component]))
        return out


@_closure_contract
class ReverseChainClosure(_Closure):
    """substitutes of covered position glyphs, provided every backtrack / lookahead coverage
    still has a glyph in the current set"""
    qualname = "ReverseChainSingleSubst.closure_glyphs"

    def build(self, ot):
        st = ot.ReverseChainSingleSubst()
        st.Format = 1
        st.Coverage = _cov(ot, ["a", "c", "d"])
        st.Substitute = ["x1", "x2", "b"]
        st.BacktrackCoverage = [_cov(ot, ["e", "b"])]
        st.LookAheadCoverage = [_cov(ot, ["a"]), _cov(ot, ["c", "d"])]
        return st

    def producible(self, st, cur, have):
        ctx = And(*[Or(*[have[g] for g in c.glyphs]) for c in st.BacktrackCoverage + st.LookAheadCoverage])
        out = {}
        for g, v in zip(st.Coverage.glyphs, st.Substitute):
            out[v] = Or(out.get(v, False), And(cur[g], ctx))
        return out
