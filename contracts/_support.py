"""Small stand-ins for the objects that table compile()/decompile() methods receive."""
from types import SimpleNamespace


class FakeFont:
    """What a table's compile/decompile sees of a TTFont: glyph order and sibling tables."""

    def __init__(self, glyphOrder, **tables):
        self.glyphOrder = list(glyphOrder)
        self.tables = dict(tables)
        self.recalcTimestamp = False
        self.recalcBBoxes = False

    def getGlyphOrder(self):
        return self.glyphOrder

    def get(self, tag, default=None):
        return self.tables.get(tag, default)

    def __getitem__(self, tag):
        return self.tables[tag]

    def __contains__(self, tag):
        return tag in self.tables

    def has_key(self, tag):
        return tag in self.tables

    def getGlyphID(self, name):
        return self.glyphOrder.index(name)

    def getGlyphName(self, gid):
        return self.glyphOrder[gid]

    def __deepcopy__(self, memo):
        import copy
        f = FakeFont(self.glyphOrder)
        f.tables = {k: copy.deepcopy(v, memo) for k, v in self.tables.items()}
        f.recalcTimestamp, f.recalcBBoxes = self.recalcTimestamp, self.recalcBBoxes
        return f


def ns(**kw):
    return SimpleNamespace(**kw)
