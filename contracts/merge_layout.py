"""merge.layout index remapping (C18): when the feature / lookup / mark-filtering-set lists of
the inputs are concatenated, EVERY stored index is sent through the map - including index 0 -
and the 'none' sentinel 0xFFFF of ReqFeatureIndex stays."""
from pyvc.core import Contract, contract, prop, internal
from pyvc.spec import And, Or, Not, Implies, Ite, eq


def _sel(m, k):
    """m[k] as a spec term for a symbolic key k over a small concrete-keyed dict"""
    out = 0
    for key, v in m.items():
        out = Ite(eq(k, key), v, out)
    return out


@contract
class LangSysMapFeatures(Contract):
    """LangSys.mapFeatures / DefaultLangSys.mapFeatures for every ReqFeatureIndex in 0..2 or
    0xFFFF and every FeatureIndex list over 0..2; Script and ScriptList reach every LangSys."""
    module = "fontTools.ttLib.tables.otTables"
    qualname = "LangSys.mapFeatures"       # installed on the otTables classes by merge.layout's @add_method
    imports = ("fontTools.merge.layout",)
    props = ("C18",)
    shadow_mode = "real"
    variants = ("langsys", "default-langsys", "script", "scriptlist")
    level = "PF"

    def args(self, S, variant):
        import fontTools.merge.layout  # noqa: F401  (installs the methods)
        from fontTools.ttLib.tables import otTables as ot

        def langsys(cls, tag):
            l = cls()
            l.ReqFeatureIndex = S.int("req_" + tag)
            # the traversal variants only need one index per LangSys to see that it was reached
            l.FeatureIndex = [S.int("fi_%s_%d" % (tag, i), 0, 2) for i in range(2 if variant.endswith("langsys") else 0)]
            return l
        fmap = {S.pin(i): S.int("map%d" % i, 0, 0xFFFE) for i in range(3)}   # proxy keys: a dict probed with proxies must be keyed by proxies
        if variant == "langsys":
            ls = [langsys(ot.LangSys, "a")]
            root = ls[0]
        elif variant == "default-langsys":
            ls = [langsys(ot.DefaultLangSys, "a")]
            root = ls[0]
        else:
            ls = [langsys(ot.DefaultLangSys, "d"), langsys(ot.LangSys, "x"), langsys(ot.LangSys, "y")]
            script = ot.Script()
            script.DefaultLangSys = ls[0]
            script.LangSysRecord = []
            for l in ls[1:]:
                rec = ot.LangSysRecord()
                rec.LangSys = l
                script.LangSysRecord.append(rec)
            root = script
            if variant == "scriptlist":
                script2 = ot.Script()
                script2.DefaultLangSys = None
                extra = langsys(ot.LangSys, "z")
                rec = ot.LangSysRecord()
                rec.LangSys = extra
                script2.LangSysRecord = [rec]
                ls.append(extra)
                sl = ot.ScriptList()
                sl.ScriptRecord = []
                for s in (script, script2):
                    sr = ot.ScriptRecord()
                    sr.Script = s
                    sl.ScriptRecord.append(sr)
                root = sl
        return dict(self=root, featureMap=fmap, _ls=ls)

    def requires(self, a):
        return And(*[Or(And(l.ReqFeatureIndex >= 0, l.ReqFeatureIndex <= 2), eq(l.ReqFeatureIndex, 0xFFFF)) for l in a._ls])

    def call(self, f, a):
        return type(a.self).mapFeatures(a.self, a.featureMap)

    ensures = [
        prop("required-feature-index-mapped-unless-none", lambda a, old, r: And(*[
            eq(n.ReqFeatureIndex, Ite(eq(o.ReqFeatureIndex, 0xFFFF), 0xFFFF, _sel(a.featureMap, o.ReqFeatureIndex)))
            for n, o in zip(a._ls, old._ls)])),
        prop("feature-indices-mapped", lambda a, old, r: And(*[
            And(len(n.FeatureIndex) == len(o.FeatureIndex), *[eq(x, _sel(a.featureMap, y)) for x, y in zip(n.FeatureIndex, o.FeatureIndex)])
            for n, o in zip(a._ls, old._ls)])),
    ]


@contract
class LookupIndexMaps(Contract):
    """Feature.mapLookups, contextual LookupRecords (formats 1-3, Extension-wrapped too) and
    Lookup.mapMarkFilteringSets: every stored index i becomes map[i]; a lookup without the
    UseMarkFilteringSet flag keeps its (unused) field."""
    module = "fontTools.ttLib.tables.otTables"
    qualname = "Feature.mapLookups"        # installed on the otTables classes by merge.layout's @add_method
    imports = ("fontTools.merge.layout",)
    props = ("C18",)
    shadow_mode = "real"
    variants = ("feature", "context-f1", "chain-f2", "chainpos-f3", "extension", "markfilter")
    level = "PF"

    def args(self, S, variant):
        import fontTools.merge.layout  # noqa: F401
        from fontTools.ttLib.tables import otTables as ot
        lmap = {S.pin(i): S.int("map%d" % i, 0, 0xFFFE) for i in range(3)}
        idx = [S.int("i%d" % i, 0, 2) for i in range(3)]
        cells = []       # (object, attribute) pairs holding a lookup index

        def records(cls):
            out = []
            for i in idx[:2]:
                r = cls()
                r.SequenceIndex = 0
                r.LookupListIndex = i
                out.append(r)
                cells.append(r)
            return out

        if variant == "feature":
            ft = ot.Feature()
            ft.LookupListIndex = list(idx)
            return dict(self=ft, m=lmap, _idx=idx, _cells=None, _variant=variant)
        if variant == "markfilter":
            lk = ot.Lookup()
            lk.LookupFlag = S.int("flag", 0, 0xFFFF)
            lk.MarkFilteringSet = idx[0]
            lk.SubTable = []
            ll = ot.LookupList()
            ll.Lookup = [lk, None]
            return dict(self=ll, m=lmap, _idx=idx, _cells=lk, _variant=variant)
        if variant == "context-f1":
            st = ot.ContextSubst()
            st.Format = 1
            rule = ot.SubRule()
            rule.SubstLookupRecord = records(ot.SubstLookupRecord)
            rs = ot.SubRuleSet()
            rs.SubRule = [rule]
            st.SubRuleSet = [None, rs]
        elif variant == "chain-f2":
            st = ot.ChainContextSubst()
            st.Format = 2
            rule = ot.ChainSubClassRule()
            rule.SubstLookupRecord = records(ot.SubstLookupRecord)
            rs = ot.ChainSubClassSet()
            rs.ChainSubClassRule = [rule]
            st.ChainSubClassSet = [rs, None]
        elif variant in ("chainpos-f3", "extension"):
            st = ot.ChainContextPos()
            st.Format = 3
            st.PosLookupRecord = records(ot.PosLookupRecord)
            if variant == "extension":
                ext = ot.ExtensionPos()
                ext.Format = 1
                ext.ExtSubTable = st
                lk = ot.Lookup()
                lk.SubTable = [ext]
                lk.LookupFlag = 0
                ll = ot.LookupList()
                ll.Lookup = [None, lk]
                st = ll
        return dict(self=st, m=lmap, _idx=idx, _cells=cells, _variant=variant)

    def call(self, f, a):
        if a._variant == "markfilter":
            return type(a.self).mapMarkFilteringSets(a.self, a.m)
        return type(a.self).mapLookups(a.self, a.m)

    @staticmethod
    def _post(a, old):
        if a._variant == "feature":
            return And(len(a.self.LookupListIndex) == 3, *[eq(x, _sel(a.m, y)) for x, y in zip(a.self.LookupListIndex, old._idx)])
        if a._variant == "markfilter":
            lk, ol = a._cells, old._cells
            used = Not(eq(ol.LookupFlag & 0x0010, 0))
            return eq(lk.MarkFilteringSet, Ite(used, _sel(a.m, ol.MarkFilteringSet), ol.MarkFilteringSet))
        return And(*[eq(n.LookupListIndex, _sel(a.m, o.LookupListIndex)) for n, o in zip(a._cells, old._cells)])

    ensures = [prop("every-stored-index-is-mapped", lambda a, old, r: LookupIndexMaps._post(a, old))]


# -- the merged ScriptList: the union of the inputs' (script, language, feature, lookup) associations --

def _assoc_view(script_records):
    """abstract view of a ScriptRecord list after the indices were turned into objects:
    {(script tag, language tag or None for the default, feature tag): [lookups in order]}"""
    view = {}
    for sr in script_records:
        s = sr.Script
        systems = [(None, s.DefaultLangSys)] if s.DefaultLangSys else []
        systems += [(r.LangSysTag, r.LangSys) for r in s.LangSysRecord]
        for ltag, ls in systems:
            key0 = (sr.ScriptTag, ltag)
            view.setdefault(key0, {})
            for fr in ls.FeatureIndex:
                view[key0].setdefault(fr.FeatureTag, []).extend(fr.Feature.LookupListIndex)
    return view


def _shapes(n):
    """every way n inputs can declare ONE script: per input a DefaultLangSys or none (with or
    without features), and any subset of two language tags"""
    import itertools
    per_input = [(d, langs) for d in (None, "empty", "feat") for langs in ((), ("AAA ",), ("BBB ",), ("AAA ", "BBB "))]
    return itertools.product(per_input, repeat=n)


@contract
class MergeScriptRecords(Contract):
    """mergeScriptRecords over 2 and 3 inputs, for EVERY combination of 'has a DefaultLangSys /
    has none', of language-system tags and of shared / distinct script tags: the merged list
    offers, per (script, language system, feature tag), exactly the inputs' lookups for that key
    in input order - no language system (the default one included) is lost or invented - and
    its records are sorted by tag."""
    module = "fontTools.merge.layout"
    qualname = "mergeScriptRecords"
    props = ("C18",)
    shadow_mode = "real"
    variants = ((2, "same-script"), (2, "two-scripts"), (3, "same-script"), (3, "two-scripts"))
    also = ("mergeScripts", "mergeLangSyses", "mergeFeatureLists", "mergeFeatures")
    level = "PF"

    def args(self, S, variant):
        return dict(_n=variant[0], _kind=variant[1])

    @staticmethod
    def _build(shape, kind):
        from fontTools.ttLib.tables import otTables as ot
        counter = [0]

        def langsys(cls, with_features, who):
            l = cls()
            l.ReqFeatureIndex = 0xFFFF
            l.FeatureIndex = []
            for tag in (("kern", "liga") if with_features else ()):
                fr = ot.FeatureRecord()
                fr.FeatureTag = tag
                fr.Feature = ot.Feature()
                counter[0] += 1
                fr.Feature.LookupListIndex = [("lookup", who, counter[0]), ("lookup", who, counter[0], "b")]
                l.FeatureIndex.append(fr)
            l.FeatureCount = len(l.FeatureIndex)
            return l
        inputs = []
        for i, (dflt, langs) in enumerate(shape):
            s = ot.Script()
            s.DefaultLangSys = langsys(ot.DefaultLangSys, dflt == "feat", i) if dflt else None
            s.LangSysRecord = []
            for t in langs:
                r = ot.LangSysRecord()
                r.LangSysTag = t
                r.LangSys = langsys(ot.LangSys, True, i)
                s.LangSysRecord.append(r)
            sr = ot.ScriptRecord()
            sr.ScriptTag = "latn" if (kind == "same-script" or i != 1) else "grek"
            sr.Script = s
            inputs.append([sr])
        return inputs

    def call(self, f, a):
        bad = []
        count = 0
        for shape in _shapes(a._n):
            inputs = self._build(shape, a._kind)
            want = {}
            for one in inputs:
                for key, feats in _assoc_view(one).items():
                    slot = want.setdefault(key, {})
                    for tag, lks in feats.items():
                        slot.setdefault(tag, []).extend(lks)
            merged = f(inputs)
            got = _assoc_view(merged)
            tags = [r.ScriptTag for r in merged]
            ltags = [[x.LangSysTag for x in r.Script.LangSysRecord] for r in merged]
            ok = got == want and tags == sorted(set(tags)) and all(l == sorted(set(l)) for l in ltags)
            count += 1
            if not ok:
                bad.append((shape, want, got))
        return count, bad

    ensures = [prop("merged-associations-are-the-union-of-the-inputs", lambda a, old, r: r[0] > 0 and not r[1])]
