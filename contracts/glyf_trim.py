"""Glyph.trim (C07): on the RAW data of a glyph it removes exactly the padding behind the outline
data - the cut is where the OpenType simple-glyph layout ends (end points, instructions, flags
with repeats, x then y coordinates of the sizes the flags announce) or behind the last component
(and its instructions) - and, when asked, the instructions: a simple glyph's instruction bytes are
spliced out and their length set to 0, a composite's WE_HAVE_INSTRUCTIONS bits are cleared and
the trailing instructions cut; every other byte stays.  A header-only glyph (numberOfContours 0)
is left alone.  Flag layouts are enumerated, all other bytes are symbolic."""
from pyvc.core import Contract, contract, prop, internal
from pyvc.models import std, SymBytes
from pyvc.spec import And, Or, Not, Implies, Ite, eq

# flag bytes of the point stream (with their repeat counts expanded by the spec below)
SIMPLE = {
    "words": [0x01, 0x01, 0x01],                                   # x, y as words
    "shorts-and-same": [0x37, 0x31, 0x07],                         # x short/same, y short/same mixes
    "x-same-y-word": [0x11, 0x01],                                 # the two 'same' bits must not be confused
    "x-word-y-same": [0x21, 0x01],
    "repeat": [0x01 | 0x08, 2, 0x36],                              # one flag repeated twice more, then one short/short
}
COMPOSITE = {"one-plain": [0x0002], "two-with-instructions": [0x0021 | 0x0100, 0x0008 | 0x0100], "xy-scale-words": [0x0041], "two-by-two": [0x0080]}


def _items(b):
    return list(b.items) if hasattr(b, "items") and not isinstance(b, (bytes, bytearray, dict)) else list(b)


def _point_stream(flags):
    """(number of points, coordinate bytes) of a flag byte list with repeat counts inline"""
    n = cb = i = 0
    while i < len(flags):
        f = flags[i]
        i += 1
        rep = 1
        if f & 0x08:
            rep = flags[i] + 1
            i += 1
        xb = 1 if f & 0x02 else (0 if f & 0x10 else 2)
        yb = 1 if f & 0x04 else (0 if f & 0x20 else 2)
        n += rep
        cb += (xb + yb) * rep
    return n, cb


@contract
class GlyphTrim(Contract):
    module = "fontTools.ttLib.tables._g_l_y_f"
    qualname = "Glyph.trim"
    props = ("C07", "C04")
    rebind = staticmethod(lambda: std("struct", "len", "bytes", "bytearray", "int"))
    variants = tuple(("simple", k, instr, pad, rh) for k in SIMPLE for instr in (0, 3) for pad in (0, 3) for rh in (False, True)) + \
        tuple(("composite", k, 2, pad, rh) for k in COMPOSITE for pad in (0, 2) for rh in (False, True)) + (("header-only", "", 0, 2, True),)
    level = "PF"

    def variants_for(self, tier):
        return self.variants if tier != "quick" else tuple(v for v in self.variants if v[3] != 0 or v[0] == "header-only")

    def args(self, S, variant):
        kind, key, ninstr, pad, rh = variant
        g = self.mod.Glyph.__new__(self.mod.Glyph)
        sym = lambda tag, n: [S.byte("%s%d" % (tag, i)) for i in range(n)]
        if kind == "header-only":
            data = [0, 0] + sym("box", 8) + [0] * pad
            g.data = SymBytes(data)
            return dict(self=g, remove_hinting=rh, _data=data, _want=list(data), _v=variant)
        box = sym("box", 8)
        padding = sym("pad", pad)
        instr = sym("ins", ninstr)
        if kind == "simple":
            flags = SIMPLE[key]
            npts, cbytes = _point_stream(flags)
            ends = [0, npts - 1] if npts > 1 else [npts - 1]
            head = [0, len(ends)] + box
            endb = [b for e in ends for b in (e >> 8, e & 0xFF)]
            coords = sym("xy", cbytes)
            data = head + endb + [ninstr >> 8, ninstr & 0xFF] + instr + list(flags) + coords + padding
            want = head + endb + ([0, 0] if rh else [ninstr >> 8, ninstr & 0xFF] + instr) + list(flags) + coords
        else:
            comps = COMPOSITE[key]
            body, want_body, has_instr = [], [], False
            for ci, fl in enumerate(comps):
                nargs = 4 if fl & 0x0001 else 2
                nxf = 2 if fl & 0x0008 else 4 if fl & 0x0040 else 8 if fl & 0x0080 else 0
                tail = sym("c%d_" % ci, 2 + nargs + nxf)           # glyph index, arguments, transform
                new_fl = fl & ~0x0100 if rh else fl
                has_instr = has_instr or bool(fl & 0x0100)
                body += [fl >> 8, fl & 0xFF] + tail
                want_body += [new_fl >> 8, new_fl & 0xFF] + tail
            head = [0xFF, 0xFF] + box
            trailer = ([ninstr >> 8, ninstr & 0xFF] + instr) if has_instr else []
            data = head + body + trailer + padding
            want = head + want_body + ([] if rh else trailer)
            g.numberOfContours = -1
        g.data = SymBytes(data)
        return dict(self=g, remove_hinting=rh, _data=data, _want=want, _v=variant)

    def call(self, f, a):
        f(a.self, a.remove_hinting)
        return a.self.data

    @staticmethod
    def _post(a, r):
        got = _items(r)
        if len(got) != len(a._want):
            return False
        return And(*[eq(x, y) for x, y in zip(got, a._want)])

    ensures = [prop("padding-and-requested-instructions-removed-nothing-else", lambda a, old, r: GlyphTrim._post(a, r))]
