"""ReverseContourPen's kernel (C14): reversedContour over every contour structure of up to
three segments (lines, cubics, quadratics, open and closed, both outputImpliedClosingLine
settings) with SYMBOLIC points: read as a list of directed Bezier segments - the closing line
of a closed contour included, zero-length lines ignored - the output is the input's segments in
reverse order, each with its control points reversed; a closed contour keeps its start point;
applying it twice gives the input back."""
import itertools

from pyvc.core import Contract, contract, prop, internal
from pyvc.spec import And, Or, Not, Implies, Ite, eq

SEG = {"lineTo": 1, "curveTo": 3, "qCurveTo": 2}


def _structures():
    out = []
    for n in (1, 2, 3):
        for ops in itertools.product(SEG, repeat=n):
            out.append(ops)
    return out


def _same_pt(p, q):
    return bool(And(eq(p[0], q[0]), eq(p[1], q[1])))


def segments(contour):
    """pen commands -> list of segments (tuples of points, start first); closed contours get their
    closing line; zero-length LINES are dropped (decided on the path).  Runs inside a clause."""
    contour = list(contour)
    if not contour:
        return [], None
    closed = contour[-1][0] == "closePath"
    body = contour[:-1]
    start = body[0][1][-1]
    cur, segs = start, []
    for op, pts in body[1:]:
        segs.append((op, (cur,) + tuple(pts)))
        cur = pts[-1]
    if closed and len(body) > 1:
        segs.append(("lineTo", (cur, start)))
    segs = [(op, ps) for op, ps in segs if not (op == "lineTo" and _same_pt(ps[0], ps[1]))]
    return segs, (start, closed)


def _eq_segs(a, b):
    if len(a) != len(b):
        return False
    cs = []
    for (op1, p1), (op2, p2) in zip(a, b):
        if op1 != op2 or len(p1) != len(p2):
            return False
        cs += [And(eq(x[0], y[0]), eq(x[1], y[1])) for x, y in zip(p1, p2)]
    return And(*cs)


@contract
class ReversedContour(Contract):
    module = "fontTools.pens.reverseContourPen"
    qualname = "reversedContour"
    props = ("C14",)
    shadow_mode = "real"
    level = "PF"
    assumptions = ("A-REAL",)
    variants = tuple((ops, closed, implied) for ops in _structures() for closed in (True, False) for implied in (False, True)
                     if not (implied and not closed))
    max_paths = 20000

    def variants_for(self, tier):
        if tier == "quick":
            return tuple(v for v in self.variants if len(v[0]) <= 2 or v[0] in (("lineTo", "curveTo", "lineTo"), ("curveTo", "lineTo", "qCurveTo"),
                                                                                 ("lineTo", "lineTo", "lineTo"), ("qCurveTo", "qCurveTo", "curveTo")))
        return self.variants

    def args(self, S, variant):
        ops, closed, implied = variant
        k = 0

        def pt():
            nonlocal k
            k += 1
            return (S.real("x%d" % k), S.real("y%d" % k))
        contour = [("moveTo", (pt(),))]
        for op in ops:
            contour.append((op, tuple(pt() for _ in range(SEG[op]))))
        contour.append(("closePath" if closed else "endPath", ()))
        return dict(contour=contour, outputImpliedClosingLine=implied, _orig=[(o, tuple(p)) for o, p in contour], _closed=closed)

    def call(self, f, a):
        once = list(f(list(a.contour), a.outputImpliedClosingLine))
        twice = list(f(list(once), a.outputImpliedClosingLine))
        return once, twice

    @staticmethod
    def _reversed_ok(a, r):
        segs, (start, closed) = segments(a._orig)
        got, (gstart, gclosed) = segments(r[0])
        want = [(op, tuple(reversed(ps))) for op, ps in reversed(segs)]
        if gclosed != closed or r[0][0][0] != "moveTo":
            return False
        first = And(eq(gstart[0], start[0]), eq(gstart[1], start[1])) if closed else \
            And(eq(gstart[0], a._orig[-2][1][-1][0]), eq(gstart[1], a._orig[-2][1][-1][1]))
        return And(first, _eq_segs(got, want))

    @staticmethod
    def _involution(a, r):
        segs, _ = segments(a._orig)
        back, _ = segments(r[1])
        return _eq_segs(back, segs)

    ensures = [
        prop("segments-reversed-start-point-kept-when-closed", lambda a, old, r: ReversedContour._reversed_ok(a, r)),
        prop("reversing-twice-restores-the-geometry", lambda a, old, r: ReversedContour._involution(a, r)),
    ]


# -- segment pen -> point pen -> segment pen ----------------------------------------------------------

def _rot_eq(got, want, closed):
    """equal segment lists; for closed contours up to a rotation of the start point"""
    if not closed or not want:
        return _eq_segs(got, want)
    if len(got) != len(want):
        return False
    return Or(*[_eq_segs(got, want[k:] + want[:k]) for k in range(len(want))])


@contract
class SegmentPointRoundTrip(Contract):
    """SegmentToPointPen feeding PointToSegmentPen feeding a RecordingPen: the recorded contour
    has the same Bezier segments as the drawn one (closed contours: possibly starting at another
    on-curve point), for every structure of up to three segments, open and closed, both
    outputImpliedClosingLine settings; all points symbolic."""
    module = "fontTools.pens.pointPen"
    qualname = "PointToSegmentPen._flushContour"
    props = ("C14",)
    shadow_mode = "real"
    level = "PF"
    assumptions = ("A-REAL",)
    variants = ReversedContour.variants
    max_paths = 20000

    variants_for = ReversedContour.variants_for
    args = ReversedContour.args

    def call(self, f, a):
        from fontTools.pens.pointPen import PointToSegmentPen, SegmentToPointPen
        from fontTools.pens.recordingPen import RecordingPen
        rec = RecordingPen()
        pen = SegmentToPointPen(PointToSegmentPen(rec, outputImpliedClosingLine=a.outputImpliedClosingLine), guessSmooth=False)   # smooth guessing uses atan2: outside the verifier, and not geometry
        for op, pts in a.contour:
            getattr(pen, op)(*pts)
        return rec.value

    @staticmethod
    def _post(a, r):
        want, (start, closed) = segments(a._orig)
        if not r:
            return False
        got, (gstart, gclosed) = segments(r)
        if not want:
            # every segment has zero length: the contour is a single point, which encloses nothing
            # (it may come back open); it must not grow a segment
            return len(got) == 0 and And(eq(gstart[0], start[0]), eq(gstart[1], start[1]))
        if gclosed != closed:
            return False
        return _rot_eq(got, want, closed)

    ensures = [prop("same-segments-after-the-point-protocol", lambda a, old, r: SegmentPointRoundTrip._post(a, r))]


# -- transform / rounding / record-and-replay -------------------------------------------------------

def _map_contour(contour, f):
    return [(op, tuple(None if p is None else f(p) for p in pts)) for op, pts in contour]


def _eq_contour(a, b):
    if len(a) != len(b):
        return False
    cs = []
    for (o1, p1), (o2, p2) in zip(a, b):
        if o1 != o2 or len(p1) != len(p2):
            return False
        for x, y in zip(p1, p2):
            if x is None or y is None:
                if x is not y:
                    return False
                continue
            cs.append(And(eq(x[0], y[0]), eq(x[1], y[1])))
    return And(*cs)


@contract
class TransformAndRoundingPens(Contract):
    """TransformPen maps every point of every command by the affine matrix and nothing else
    (commands, order, point counts kept); two nested TransformPens equal one pen with the
    composed matrix; RoundingPen(roundFunc=otRound) moves every coordinate to the nearest integer
    (ties up); RecordingPen.replay reproduces the recorded commands.  Structures of up to two
    segments, all coordinates and matrix entries symbolic."""
    module = "fontTools.pens.transformPen"
    qualname = "TransformPen.__init__"
    props = ("C14",)
    shadow_mode = "real"
    level = "PF"
    assumptions = ("A-REAL",)
    variants = tuple(v for v in ReversedContour.variants if len(v[0]) <= 2 and not v[2])

    args = ReversedContour.args

    def call(self, f, a):
        from fontTools.pens.transformPen import TransformPen
        from fontTools.pens.roundingPen import RoundingPen
        from fontTools.pens.recordingPen import RecordingPen
        from pyvc.models import round_tools
        S = self._S
        m = tuple(S.real("m%d" % i) for i in range(6))
        n = tuple(S.real("n%d" % i) for i in range(6))
        r1, r2, r3, r4 = RecordingPen(), RecordingPen(), RecordingPen(), RecordingPen()
        src = RecordingPen()
        src.value = list(a.contour)
        src.replay(r4)
        src.replay(TransformPen(r1, m))
        src.replay(TransformPen(TransformPen(r2, n), m))
        src.replay(RoundingPen(r3, roundFunc=round_tools().otRound))
        return r1.value, r2.value, r3.value, r4.value, m, n

    def args(self, S, variant):
        self._S = S
        return ReversedContour.args(self, S, variant)

    @staticmethod
    def _affine(m):
        return lambda p: (m[0] * p[0] + m[2] * p[1] + m[4], m[1] * p[0] + m[3] * p[1] + m[5])

    @staticmethod
    def _round_ok(a, r):
        from pyvc.spec import floor
        from fractions import Fraction
        want = _map_contour(a._orig, lambda p: (floor(p[0] + Fraction(1, 2)), floor(p[1] + Fraction(1, 2))))
        return _eq_contour(r[2], want)

    ensures = [
        prop("every-point-mapped-by-the-matrix", lambda a, old, r: _eq_contour(r[0], _map_contour(a._orig, TransformAndRoundingPens._affine(r[4])))),
        prop("nested-pens-compose", lambda a, old, r: _eq_contour(r[1], _map_contour(
            _map_contour(a._orig, TransformAndRoundingPens._affine(r[4])), TransformAndRoundingPens._affine(r[5])))),
        prop("rounding-pen-rounds-to-nearest", lambda a, old, r: TransformAndRoundingPens._round_ok(a, r)),
        prop("replay-reproduces-the-recording", lambda a, old, r: _eq_contour(r[3], a._orig)),
    ]


# -- AreaPen: the signed area is the line integral of the outline --------------------------------------

def _bez(ps, t):
    """de Casteljau value of a Bezier segment (tuple of points) at parameter t"""
    pts = list(ps)
    while len(pts) > 1:
        pts = [((1 - t) * a[0] + t * b[0], (1 - t) * a[1] + t * b[1]) for a, b in zip(pts, pts[1:])]
    return pts[0]


def spec_area(contour):
    """Green's theorem, exactly: A = 1/2 * sum over segments of the integral of (x dy - y dx),
    evaluated in closed form from the Bernstein representation of each segment."""
    from fractions import Fraction
    from math import comb
    segs, _ = segments_keep_all(contour)
    total = 0
    for op, ps in segs:
        n = len(ps) - 1
        # x(t) = sum_i B_i^n(t) x_i ; dy/dt = n * sum_j B_j^{n-1}(t) (y_{j+1} - y_j)
        # integral_0^1 B_i^n B_j^{n-1} dt = C(n,i) C(n-1,j) / (C(2n-1, i+j) * 2n)
        acc = 0
        for i in range(n + 1):
            for j in range(n):
                w = Fraction(comb(n, i) * comb(n - 1, j), comb(2 * n - 1, i + j) * 2 * n) * n
                acc = acc + w * (ps[i][0] * (ps[j + 1][1] - ps[j][1]) - ps[i][1] * (ps[j + 1][0] - ps[j][0]))
        total = total + acc
    return total / 2


def segments_keep_all(contour):
    contour = list(contour)
    closed = contour[-1][0] == "closePath"
    body = contour[:-1]
    start = body[0][1][-1]
    cur, segs = start, []
    for op, pts in body[1:]:
        segs.append((op, (cur,) + tuple(pts)))
        cur = pts[-1]
    if closed:
        segs.append(("lineTo", (cur, start)))
    return segs, (start, closed)


@contract
class AreaPenValue(Contract):
    """AreaPen on closed contours of up to three segments (lines, quadratics, cubics; all points
    symbolic): the value is the exact signed area enclosed by the outline (line integral of the
    Bezier segments in closed form), it is negated by reversedContour, and it does not change when
    the contour is translated."""
    module = "fontTools.pens.areaPen"
    qualname = "AreaPen._curveToOne"
    props = ("C14",)
    shadow_mode = "real"
    level = "PF"
    assumptions = ("A-REAL (0.5, 0.15 and /3 as exact rationals)",)
    variants = tuple(v for v in ReversedContour.variants if v[1] and not v[2])

    def variants_for(self, tier):
        return tuple(v for v in self.variants if len(v[0]) <= 2) if tier == "quick" else self.variants

    def args(self, S, variant):
        self._S = S
        return ReversedContour.args(self, S, variant)

    def call(self, f, a):
        from fontTools.pens.areaPen import AreaPen
        from fontTools.pens.reverseContourPen import reversedContour
        S = self._S
        dx, dy = S.real("dx"), S.real("dy")

        def area(contour):
            pen = AreaPen()
            for op, pts in contour:
                getattr(pen, op)(*pts)
            return pen.value
        moved = [(op, tuple((p[0] + dx, p[1] + dy) for p in pts)) for op, pts in a.contour]
        return area(list(a.contour)), area(list(reversedContour(list(a.contour)))), area(moved)

    ensures = [
        prop("equals-the-line-integral-of-the-outline", lambda a, old, r: eq(r[0], spec_area(a._orig))),
        prop("negated-by-reversing", lambda a, old, r: eq(r[1], -r[0])),
        prop("translation-invariant", lambda a, old, r: eq(r[2], r[0])),
    ]


@contract
class SegmentPointSegmentRoundTrip(Contract):
    """SegmentToPointPen (moveTo / lineTo / curveTo / qCurveTo / closePath / endPath) feeding
    PointToSegmentPen, for EVERY contour of up to three segments over {line, cubic with one or two
    control points, quadratic with none, one or two}, closed or open, with the last point on or
    off the start point, with and without smooth-guessing and the implied closing line: what
    comes out draws what went in - the same moveTo and the same segments with the same points in
    the same order, up to the two spellings the protocols leave open (a closing straight segment
    back to the start may be implied; a contour that is a single point is an anchor and comes
    out open); a quadratic blob (no on-curve point) keeps every point, also one equal to the
    first."""
    module = "fontTools.pens.pointPen"
    qualname = "SegmentToPointPen.closePath"
    props = ("C14",)
    shadow_mode = "real"
    level = "PF"
    assumptions = ("token-valued: the family is every contour of 0..3 segments x closed / open x closing point on / off the start x guessSmooth x outputImpliedClosingLine (4144 contours) plus four quadratic blobs; PointToSegmentPen._flushContour has its own contract",)

    SEGS = {"line": 0, "curve2": 2, "curve1": 1, "qcurve1": 1, "qcurve2": 2, "qcurve0": 0}

    def args(self, S, variant):
        return {}

    @staticmethod
    def _norm(ops):
        out, cur = [], None
        for name, args in ops:
            if name == "moveTo":
                cur = [(name, args)]
            elif name in ("closePath", "endPath"):
                # a closing straight segment back to the start (lineTo, or a q/curveTo without control points) may be implied
                if name == "closePath" and len(cur) > 1 and len(cur[-1][1]) == 1 and cur[-1][1][-1] == cur[0][1][0]:
                    cur.pop()
                out.append(("anchor", cur) if len(cur) == 1 else (name, cur))
                cur = None
            else:
                cur.append((name, args))
        return out

    def call(self, f, a):
        import itertools
        from fontTools.pens.pointPen import SegmentToPointPen, PointToSegmentPen
        from fontTools.pens.recordingPen import RecordingPen
        SEGS = self.SEGS
        bad, n = [], 0
        for L in range(0, 4):
            for segs in itertools.product(SEGS, repeat=L):
                for closing, dup, guess, implied in itertools.product(("closePath", "endPath"), (False, True), (False, True), (False, True)):
                    ops, k = [("moveTo", ((0, 0),))], 1
                    for s in segs:
                        cnt = SEGS[s]
                        pts = tuple((10 * (k + i), 7 * (k + i) % 13) for i in range(cnt + 1))
                        k += cnt + 1
                        ops.append(("lineTo" if s == "line" else "curveTo" if s.startswith("curve") else "qCurveTo", pts))
                    if dup and len(ops) > 1:
                        name, pts = ops[-1]
                        ops[-1] = (name, pts[:-1] + ((0, 0),))
                    rec = RecordingPen()
                    pen = SegmentToPointPen(PointToSegmentPen(rec, outputImpliedClosingLine=implied), guessSmooth=guess)
                    for name, args in ops:
                        getattr(pen, name)(*args)
                    if closing == "closePath":
                        f(pen)
                    else:
                        pen.endPath()
                    n += 1
                    if self._norm(rec.value) != self._norm(ops + [(closing, ())]):
                        bad.append((segs, closing, dup, guess, implied, rec.value))
        # quadratic blobs (no on-curve point at all): every point is kept, also one that repeats the first
        for pts in (((0, 0), (10, 0), (10, 10)), ((0, 0), (10, 0), (0, 0)), ((0, 0), (0, 0)), ((0, 0), (10, 0), (10, 10), (0, 10))):
            for guess, implied in itertools.product((False, True), (False, True)):
                rec = RecordingPen()
                pen = SegmentToPointPen(PointToSegmentPen(rec, outputImpliedClosingLine=implied), guessSmooth=guess)
                pen.qCurveTo(*(pts + (None,)))
                f(pen)
                n += 1
                if rec.value != [("qCurveTo", pts + (None,)), ("closePath", ())]:
                    bad.append((("blob", pts), guess, implied, rec.value))
        return n, bad[:5]

    ensures = [prop("same-segments-come-out", lambda a, old, r: r[0] == 4160 and not r[1])]


@contract
class ReversePensAgreeAndInvolute(Contract):
    """ReverseContourPen (segments) and ReverseContourPointPen (points), for EVERY contour of one
    to three segments over {line, cubic, quadratic with one or two control points}, closed or open,
    closing point on or off the start, with and without the implied closing line: both pens
    draw the same reversed contour, and reversing twice draws the original one (same start,
    same segments, same points; a closing straight segment may be implied, a single point is
    an anchor)."""
    module = "fontTools.pens.reverseContourPen"
    qualname = "ReverseContourPen.filterContour"
    props = ("C14",)
    shadow_mode = "real"
    level = "PF"
    assumptions = ("token-valued: 672 contours; reversedContour itself is under contract for symbolic points (ReversedContour)",)

    def args(self, S, variant):
        return {}

    def call(self, f, a):
        import itertools
        from fontTools.pens.pointPen import SegmentToPointPen, PointToSegmentPen, ReverseContourPointPen
        from fontTools.pens.reverseContourPen import ReverseContourPen
        from fontTools.pens.recordingPen import RecordingPen
        norm = SegmentPointSegmentRoundTrip._norm
        SEGS = {"line": 0, "curve2": 2, "qcurve1": 1, "qcurve2": 2}
        P = [(0, 0), (100, 0), (150, 80), (100, 160), (0, 200), (-60, 120), (-80, 40), (30, -50), (90, -20), (140, 30)]
        real = ReverseContourPen.filterContour
        calls = [0]

        def counted(self_, contour):
            calls[0] += 1
            return f(self_, contour)
        ReverseContourPen.filterContour = counted
        bad, n, changed = [], 0, 0
        try:
            for L in range(1, 4):
                for segs in itertools.product(SEGS, repeat=L):
                    for closing, dup, implied in itertools.product(("closePath", "endPath"), (False, True), (False, True)):
                        ops, k = [("moveTo", (P[0],))], 1
                        for s in segs:
                            cnt = SEGS[s]
                            pts = tuple(P[(k + i) % len(P)] for i in range(cnt + 1))
                            k += cnt + 1
                            ops.append(("lineTo" if s == "line" else "curveTo" if s.startswith("curve") else "qCurveTo", pts))
                        if dup:
                            name, pts = ops[-1]
                            ops[-1] = (name, pts[:-1] + (P[0],))
                        ops.append((closing, ()))
                        r1, r2, r3 = RecordingPen(), RecordingPen(), RecordingPen()
                        pens = (ReverseContourPen(r1, outputImpliedClosingLine=implied),
                                SegmentToPointPen(ReverseContourPointPen(PointToSegmentPen(r2, outputImpliedClosingLine=implied)), guessSmooth=False),
                                ReverseContourPen(ReverseContourPen(r3, outputImpliedClosingLine=implied), outputImpliedClosingLine=implied))
                        for pen in pens:
                            for name, args in ops:
                                getattr(pen, name)(*args)
                        n += 1
                        once, once_pt, twice = norm(r1.value), norm(r2.value), norm(r3.value)
                        changed += once != norm(ops)
                        if once != once_pt or twice != norm(ops):
                            bad.append((segs, closing, dup, implied, r1.value, r2.value, r3.value))
        finally:
            ReverseContourPen.filterContour = real
        return n, bad[:5], calls[0], changed

    ensures = [prop("both-pens-agree-and-twice-is-identity", lambda a, old, r: r[0] == 672 and not r[1] and r[2] == 3 * 672 and r[3] > 600)]
