"""Contracts on OTTableWriter (C06): the written offsets are exactly the distances between
table positions, in exactly offsetSize bytes, or an error is raised - never a wrapped or
truncated offset; lengths and layout positions are consistent."""
import struct

from pyvc.core import Contract, contract, prop, internal
from pyvc.models import std, SymBytes
from pyvc.spec import And, Or, Not, Implies, Ite, eq

REBIND = std("struct", "len", "bytes", "bytesjoin")


def _items(b):
    return list(SymBytes.of(b).items)


def be(bs):
    v = 0
    for b in bs:
        v = v * 256 + b
    return v


def _mk(mod, S, sizes, with_count=False):
    w = mod.OTTableWriter()
    w.pos = S.int("pos")
    w.getOverflowErrorRecord = lambda sub: ("overflow", sub)
    layout = []       # (kind, size, ref)
    subs = []
    for k, sz in enumerate(sizes):
        d = S.bytes("d%d" % k, 2)
        w.items.append(d)
        layout.append(("data", 2, d))
        sub = mod.OTTableWriter()
        sub.pos = S.int("subpos%d" % k)
        subs.append(sub)
        w.items.append(mod.OffsetToWriter(sub, sz))
        layout.append(("offset", sz, sub))
    if with_count:
        table = {"Count": S.int("count")}
        w.items.append(mod.CountReference(table, "Count", size=2))
        layout.append(("count", 2, table))
    return w, layout, subs


@contract
class WriterGetData(Contract):
    module = "fontTools.ttLib.tables.otBase"
    qualname = "OTTableWriter.getData"
    props = ("C06",)
    rebind = REBIND
    shadow_mode = "function"
    also = ("packUShort", "packULong", "packUInt24", "packUInt8")
    variants = tuple((a, b) for a in (2, 3, 4) for b in (2, 3, 4)) + ((1, 2),)
    level = "PF"
    expect_exceptional_only = ((1, 2),)
    assumptions = ("asserts enabled (no python -O): the 3- and 4-byte offset range checks are assert statements",)

    def args(self, S, variant):
        w, layout, subs = _mk(self.mod, S, variant)
        return dict(self=w, _layout=layout, _subs=subs, _sizes=variant)

    def call(self, f, a):
        return f(a.self)

    @staticmethod
    def _in_range(a, k):
        d = a._subs[k].pos - a.self.pos
        return And(d >= 0, d < 256 ** a._sizes[k])

    @property
    def raises(self):
        OE = self.mod.OTLOffsetOverflowError if hasattr(self, "mod") and self.mod else None
        from fontTools.ttLib.tables.otBase import OTLOffsetOverflowError

        def cond(size):
            return lambda a: Or(*[Not(WriterGetData._in_range(a, k)) for k in range(len(a._sizes)) if a._sizes[k] == size] or [False])

        return {OTLOffsetOverflowError: cond(2), AssertionError: lambda a: Or(cond(3)(a), cond(4)(a)),
                ValueError: lambda a: any(s not in (2, 3, 4) for s in a._sizes)}

    raises_iff = False      # which error wins when several offsets are out of range is not specified

    @staticmethod
    def _post(a, r):
        bs = _items(r)
        pos = 0
        cs = []
        k = 0
        for kind, size, ref in a._layout:
            piece = bs[pos:pos + size]
            if len(piece) != size:
                return False
            if kind == "data":
                cs.append(SymBytes(piece) == ref)
            else:
                cs.append(eq(be(piece), ref.pos - a.self.pos))
                cs.append(WriterGetData._in_range(a, k))
                k += 1
            pos += size
        return And(len(bs) == pos, *cs)

    ensures = [prop("offsets-are-exact-distances-in-offsetSize-bytes-data-verbatim", lambda a, old, r: WriterGetData._post(a, r)),
               prop("items-not-modified", lambda a, old, r: len(a.self.items) == len(a._layout) and all(
                   (it is ref) if kind == "data" else (it.subWriter is ref) for it, (kind, size, ref) in zip(a.self.items, a._layout)))]


@contract
class WriterGetDataLength(Contract):
    module = "fontTools.ttLib.tables.otBase"
    qualname = "OTTableWriter.getDataLength"
    props = ("C06",)
    rebind = REBIND
    shadow_mode = "function"
    also = ("OTTableWriter.getData", "packUShort", "packULong", "packUInt24", "packUInt8")
    variants = ((2, 2), (3, 4), (4, 2, 3))
    level = "PF"

    def args(self, S, variant):
        w, layout, subs = _mk(self.mod, S, variant, with_count=True)
        return dict(self=w, _layout=layout)

    def call(self, f, a):
        return f(a.self)

    ensures = [prop("length-equals-sum-of-item-sizes", lambda a, old, r: eq(r, sum(sz for k, sz, ref in a._layout)))]


@contract
class WriterGetAllData(Contract):
    """A small tree (root -> A, B; A -> C; B -> C shared): after getAllData every table's pos
    is the sum of the lengths of the tables laid out before it, the output is the
    concatenation in that order and every offset field decodes to (child.pos - parent.pos)."""
    module = "fontTools.ttLib.tables.otBase"
    qualname = "OTTableWriter.getAllData"
    props = ("C06",)
    rebind = REBIND
    shadow_mode = "module"
    level = "PF"
    variants = ("shared-leaf", "chain")

    def args(self, S, variant):
        m = self.mod
        W = m.OTTableWriter
        root, A, B, C = W(), W(), W(), W()
        C.items = [S.bytes("c", 3)]
        if variant == "shared-leaf":
            A.items = [S.bytes("a", 2), m.OffsetToWriter(C, 2)]
            B.items = [m.OffsetToWriter(C, 4), S.bytes("b", 1)]
            root.items = [S.bytes("r", 2), m.OffsetToWriter(A, 2), m.OffsetToWriter(B, 3)]
            tabs = [root, A, B, C]
        else:
            A.items = [S.bytes("a", 2), m.OffsetToWriter(B, 2)]
            B.items = [m.OffsetToWriter(C, 2), S.bytes("b", 1)]
            root.items = [m.OffsetToWriter(A, 4), S.bytes("r", 2)]
            tabs = [root, A, B, C]
        snapshot = {id(t): list(t.items) for t in tabs}
        return dict(self=root, _tabs=tabs, _snap=snapshot)

    def call(self, f, a):
        return f(a.self)

    @staticmethod
    def _post(a, r):
        bs = _items(r)
        tabs = sorted(a._tabs, key=lambda t: t.pos)
        cs = []
        pos = 0
        for t in tabs:
            if t.pos != pos:
                return False
            for it in a._snap[id(t)]:
                if hasattr(it, "subWriter"):
                    n = it.offsetSize
                    cs.append(eq(be(bs[pos:pos + n]), it.subWriter.pos - t.pos))
                else:
                    n = len(_items(it))
                    cs.append(SymBytes(bs[pos:pos + n]) == it)
                pos += n
        return And(len(bs) == pos, a.self.pos == 0, *cs)

    ensures = [prop("layout-positions-offsets-and-content", lambda a, old, r: WriterGetAllData._post(a, r))]


# -- subtable sharing: _doneWriting interns equal subtables ---------------------------------------------

@contract
class WriterDoneWriting(Contract):
    """OTTableWriter._doneWriting on a root with three leaf subtables whose contents are SYMBOLIC
    byte strings: two offsets end up pointing at the same writer object exactly when the two
    subtables have equal content (and sharing is allowed: not under DontShare, and never across
    the boundary of an Extension subtree unless shareExtension), no leaf's content changes, count
    references become their data, and items are frozen into a tuple.  The outcome is a function of
    the contents only (C16: no dependence on object identity or hashing)."""
    module = "fontTools.ttLib.tables.otBase"
    qualname = "OTTableWriter._doneWriting"
    props = ("C06", "C16")
    rebind = REBIND
    shadow_mode = "function"
    also = ("OTTableWriter.__hash__", "OTTableWriter.__eq__")
    variants = ("plain", "dont-share", "extension", "extension-shared")
    level = "PF"
    max_paths = 20000

    def args(self, S, variant):
        m = self.mod
        W = m.OTTableWriter
        root = W()
        datas = [S.bytes("leaf%d" % i, 2) for i in range(3)]
        leaves = []
        for d in datas:
            w = W()
            w.items = [d]
            leaves.append(w)
        mid = None
        if variant.startswith("extension"):
            # leaf 2 hangs under an Extension subtable; leaves 0 and 1 directly under the root
            mid = W()
            mid.Extension = True
            mid.items = [m.OffsetToWriter(leaves[2], 4)]
            root.items = [m.OffsetToWriter(leaves[0], 2), m.OffsetToWriter(leaves[1], 2), m.OffsetToWriter(mid, 2)]
        else:
            root.items = [m.OffsetToWriter(l, 2) for l in leaves]
        if variant == "dont-share":
            root.DontShare = True
        return dict(self=root, internedTables={}, shareExtension=(variant == "extension-shared"),
                    _datas=datas, _leaves=leaves, _mid=mid, _variant=variant)

    @staticmethod
    def _post(a, r):
        root = a.self
        if not isinstance(root.items, tuple):
            return False
        if a._mid is None:
            subs = [it.subWriter for it in root.items]
        else:
            subs = [root.items[0].subWriter, root.items[1].subWriter, root.items[2].subWriter.items[0].subWriter]
        cs = []
        for i, (w, d) in enumerate(zip(subs, a._datas)):
            if not (isinstance(w.items, tuple) and len(w.items) == 1):
                return False
            cs.append(SymBytes.of(w.items[0]) == SymBytes.of(d))        # content never changes
        for i in range(3):
            for j in range(i + 1, 3):
                same_obj = subs[i] is subs[j]
                equal = SymBytes.of(a._datas[i]) == SymBytes.of(a._datas[j])
                allowed = a._variant != "dont-share"
                if a._variant == "extension" and j == 2:
                    allowed = False          # leaf 2 lives in the Extension's own sharing scope
                if allowed:
                    cs.append(eq(equal, True) if same_obj else Not(equal))
                elif same_obj:
                    return False
        return And(*cs)

    ensures = [prop("offsets-share-a-subtable-exactly-when-contents-are-equal-and-sharing-is-allowed", lambda a, old, r: WriterDoneWriting._post(a, r))]
