"""qu2cu kernels (C13, the quadratic -> cubic direction): the module's own copy of the fit test
under the same recursive contract as cu2qu's, exact degree elevation, and merge_curves (the
reconstructed cubic keeps the spline's end points and end tangent directions; the cut
parameters it reports are strictly increasing inside (0, 1))."""
from fractions import Fraction

from pyvc.core import Contract, contract, prop, internal
from pyvc.spec import And, Or, Not, Implies, Ite, eq
from pyvc.sym import SymComplex
from contracts.cu2qu import (REBIND, A_REAL, pts, blossom, subcurve, same_cubic, frac, FitLog, within,
                             CubicFarthestFitInside)


@contract
class Qu2cuFarthestFitInside(CubicFarthestFitInside):
    """qu2cu carries its own copy of cubic_farthest_fit_inside: same recursive contract."""
    module = "fontTools.qu2cu.qu2cu"
    qualname = "cubic_farthest_fit_inside"
    props = ("C13",)


def _cplx(z):
    return SymComplex.lift(z) if not hasattr(z, "re") else z


@contract
class ElevateQuadratic(Contract):
    """elevate_quadratic: the returned cubic IS the quadratic, as a polynomial (equal blossoms:
    end points kept, inner control points at 1/3 and 2/3 towards the quadratic's control point)."""
    module = "fontTools.qu2cu.qu2cu"
    qualname = "elevate_quadratic"
    props = ("C13", "C14")
    rebind = REBIND
    assumptions = (A_REAL,)

    def args(self, S, variant):
        p = pts(S, "q", 3)
        return dict(p0=p[0], p1=p[1], p2=p[2], _t=S.real("t"))

    @staticmethod
    def _same_curve(a, r):
        t = a._t
        q = a.p0 * ((1 - t) * (1 - t)) + a.p1 * (2 * t * (1 - t)) + a.p2 * (t * t)
        c = r[0] * ((1 - t) ** 3) + r[1] * (3 * t * (1 - t) * (1 - t)) + r[2] * (3 * t * t * (1 - t)) + r[3] * (t * t * t)
        return eq(_cplx(q), _cplx(c))

    ensures = [
        prop("cubic-equals-quadratic-at-every-parameter", lambda a, old, r: ElevateQuadratic._same_curve(a, r)),
        internal("control-points-at-thirds", lambda a, old, r: And(
            eq(_cplx(r[0]), _cplx(a.p0)), eq(_cplx(r[3]), _cplx(a.p2)),
            eq(_cplx(r[1] * 3), _cplx(a.p0 + a.p1 * 2)), eq(_cplx(r[2] * 3), _cplx(a.p2 + a.p1 * 2)))),
    ]


def _cross(u, v):
    u, v = _cplx(u), _cplx(v)
    return u.re * v.im - u.im * v.re


def _dot(u, v):
    u, v = _cplx(u), _cplx(v)
    return u.re * v.re + u.im * v.im


@contract
class MergeCurves(Contract):
    """merge_curves(curves, start, n) for n = 1..3 joined cubics with non-degenerate handles at
    the joins: the single cubic starts and ends where the spline does, its first and last
    handles point along the spline's first and last handles (same direction, not reversed),
    and the reported cut parameters are strictly increasing inside (0, 1), n-1 of them."""
    module = "fontTools.qu2cu.qu2cu"
    qualname = "merge_curves"
    props = ("C13",)
    rebind = REBIND
    variants = (1, 2, 3)
    level = "PF"
    assumptions = (A_REAL, "abs() of a complex number: the unique non-negative real square root")
    timeout_ms = 30000

    def variants_for(self, tier):
        return (1, 2) if tier == "quick" else self.variants      # three segments: ~80 s of nonlinear arithmetic

    def args(self, S, variant):
        n = variant
        curves = []
        prev_end = None
        for k in range(n):
            p = pts(S, "c%d_" % k, 4)
            if prev_end is not None:
                p = [prev_end] + list(p[1:])
            curves.append(tuple(p))
            prev_end = p[3]
        return dict(curves=curves, start=0, n=n)

    def requires(self, a):
        cs = []
        for k in range(1, a.n):
            ck, cb = a.curves[k], a.curves[k - 1]
            cs.append(Not(eq(_cplx(cb[3]), _cplx(cb[2]))))      # the divisor |c_before[3] - c_before[2]|
            cs.append(Not(eq(_cplx(ck[1]), _cplx(ck[0]))))      # a zero ratio would repeat a parameter
        return And(*cs)

    @staticmethod
    def _post(a, r):
        curve, ts = r
        first, last = a.curves[0], a.curves[a.n - 1]
        h0, g0 = curve[1] - curve[0], first[1] - first[0]
        h1, g1 = curve[2] - curve[3], last[2] - last[3]
        cs = [eq(_cplx(curve[0]), _cplx(first[0])), eq(_cplx(curve[3]), _cplx(last[3])),
              eq(_cross(h0, g0), 0), _dot(h0, g0) >= 0, eq(_cross(h1, g1), 0), _dot(h1, g1) >= 0,
              len(ts) == a.n - 1]
        prev = 0
        for t in ts:
            cs += [t > prev, t < 1]
            prev = t
        return And(*cs)

    ensures = [prop("end-points-tangent-directions-and-parameters", lambda a, old, r: MergeCurves._post(a, r))]


# -- spline_to_curves: every accepted merge was checked on ALL of its pieces ---------------------------

class _Piece:
    """one control point of a reconstructed piece: only differences to the original are taken"""
    def __init__(self, key, idx):
        self.key, self.idx = key, idx

    def __sub__(self, other):
        return _PieceDiff(self.key, self.idx)


class _PieceDiff:
    def __init__(self, key, idx):
        self.key, self.idx = key, idx
        self.hook = None

    def __abs__(self):
        return _PieceDiff.hook(self.key)


class _Merged(tuple):
    """the cubic returned by the merge_curves stub for quadratics start..start+n"""


@contract
class SplineToCurvesChecksEveryPiece(Contract):
    """spline_to_curves over 2-4 quadratic segments, merge_curves / splitCubicAtTC /
    cubic_farthest_fit_inside used through stubs: the distance of each reconstructed knot and
    the fit verdict of each reconstructed piece are free symbols per (merge candidate, piece).
    Whatever these are, a cubic in the result that replaces quadratics j..j+n has every inner
    knot within the tolerance and EVERY one of its n pieces accepted by the fit test; the
    result covers the segments in order, each once; and no cubic spans a sharp corner."""
    module = "fontTools.qu2cu.qu2cu"
    qualname = "spline_to_curves"
    props = ("C13",)
    rebind = REBIND
    variants = ((2, False, None), (3, False, None), (2, True, None), (4, False, 2), (3, False, 1), (3, True, 2))
    level = "PF"
    assumptions = (A_REAL, "merge_curves, splitCubicAtTC and cubic_farthest_fit_inside are used through stubs: the geometric meaning of "
                   "their results is under the contracts MergeCurves / Qu2cuFarthestFitInside, not here",)

    def variants_for(self, tier):
        return self.variants if tier != "quick" else tuple(v for v in self.variants if v != (3, True, 2))

    def args(self, S, variant):
        nq, all_cubic, corner = variant
        mod = self.mod
        knots, fits, asked = {}, {}, []

        def knot(key):
            if key not in knots:
                knots[key] = S.real("knot_%d_%d_%d" % key)
            return knots[key]

        def fit(key):
            if key not in fits:
                fits[key] = S.bool("fit_%d_%d_%d" % key)
            return fits[key]
        _PieceDiff.hook = staticmethod(knot)

        def merge_curves(curves, start, n):
            return _Merged((("merged", start, n), None, None, None)), ()

        def split(tag, *rest):
            _, start, n = tag
            for k in range(n):
                yield tuple(_Piece((start, n, k), idx) for idx in range(4))

        def inside(p0, p1, p2, p3, tolerance):
            asked.append(p0.key)
            return fit(p0.key)
        mod.merge_curves, mod.splitCubicAtTC, mod.cubic_farthest_fit_inside = merge_curves, split, inside
        # a smooth arc: inner on-curve points are the midpoints of their off-curve neighbours; the
        # optional corner pulls on-curve point `corner` far off that line
        offs = [complex(10 + 20 * k, 10 - (k - (nq - 1) / 2) ** 2) for k in range(nq)]
        q = [complex(0, 0)]
        for k in range(nq):
            q.append(offs[k])
            q.append((offs[k] + offs[k + 1]) / 2 if k + 1 < nq else offs[k] + complex(10, -10))
        if corner is not None:
            q[2 * corner] += complex(0, -40)
        # vacuity guard: the sharp-corner test of the real code must see exactly the intended corner
        from fontTools.qu2cu.qu2cu import elevate_quadratic as _elev
        el = [_elev(*q[i: i + 3]) for i in range(0, len(q) - 2, 2)]
        forced = {i for i in range(1, len(el)) if abs(el[i][0] - el[i - 1][2]) + abs(el[i][1] - el[i][0]) > 0.5 + abs(el[i][1] - el[i - 1][2])}
        assert forced == ({corner} if corner is not None else set()), forced
        return dict(q=q, costs=list(range(1, len(q) + 1)), tolerance=0.5, all_cubic=all_cubic,
                    _nq=nq, _corner=corner, _knot=knot, _fit=fit, _knots=knots)

    def requires(self, a):
        return True

    @staticmethod
    def _post(a, r):
        cs, pos = [], 0
        for c in r:
            if isinstance(c, _Merged):
                _, start, n = c[0]
                if start != pos:
                    return False
                cs += [a._knot((start, n, k)) <= a.tolerance for k in range(n - 1)]
                cs += [a._fit((start, n, k)) for k in range(n)]
                if a._corner is not None and start < a._corner < start + n:
                    return False
                pos += n
            else:
                if list(c) != a.q[2 * pos: 2 * pos + 3]:
                    return False
                pos += 1
        return And(pos == a._nq, *cs)

    ensures = [prop("accepted-merges-were-checked-on-every-piece", lambda a, old, r: SplineToCurvesChecksEveryPiece._post(a, r))]
