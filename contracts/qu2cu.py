"""qu2cu kernels (C13, the quadratic -> cubic direction): the module's own copy of the fit test
under the same recursive contract as cu2qu's, exact degree elevation, and merge_curves (the
reconstructed cubic keeps the spline's end points and end tangent directions; the cut
parameters it reports are strictly increasing inside (0, 1))."""
from fractions import Fraction

from pyvc.core import Contract, contract, prop, internal
from pyvc.spec import And, Or, Not, Implies, Ite, eq
from pyvc.sym import SymComplex
from contracts.cu2qu import (REBIND, A_REAL, pts, blossom, subcurve, same_cubic, frac, FitLog, within,
                             CubicFarthestFitInside)


@contract
class Qu2cuFarthestFitInside(CubicFarthestFitInside):
    """qu2cu carries its own copy of cubic_farthest_fit_inside: same recursive contract."""
    module = "fontTools.qu2cu.qu2cu"
    qualname = "cubic_farthest_fit_inside"
    props = ("C13",)


def _cplx(z):
    return SymComplex.lift(z) if not hasattr(z, "re") else z


@contract
class ElevateQuadratic(Contract):
    """elevate_quadratic: the returned cubic IS the quadratic, as a polynomial (equal blossoms:
    end points kept, inner control points at 1/3 and 2/3 towards the quadratic's control point)."""
    module = "fontTools.qu2cu.qu2cu"
    qualname = "elevate_quadratic"
    props = ("C13", "C14")
    rebind = REBIND
    assumptions = (A_REAL,)

    def args(self, S, variant):
        p = pts(S, "q", 3)
        return dict(p0=p[0], p1=p[1], p2=p[2], _t=S.real("t"))

    @staticmethod
    def _same_curve(a, r):
        t = a._t
        q = a.p0 * ((1 - t) * (1 - t)) + a.p1 * (2 * t * (1 - t)) + a.p2 * (t * t)
        c = r[0] * ((1 - t) ** 3) + r[1] * (3 * t * (1 - t) * (1 - t)) + r[2] * (3 * t * t * (1 - t)) + r[3] * (t * t * t)
        return eq(_cplx(q), _cplx(c))

    ensures = [
        prop("cubic-equals-quadratic-at-every-parameter", lambda a, old, r: ElevateQuadratic._same_curve(a, r)),
        internal("control-points-at-thirds", lambda a, old, r: And(
            eq(_cplx(r[0]), _cplx(a.p0)), eq(_cplx(r[3]), _cplx(a.p2)),
            eq(_cplx(r[1] * 3), _cplx(a.p0 + a.p1 * 2)), eq(_cplx(r[2] * 3), _cplx(a.p2 + a.p1 * 2)))),
    ]


def _cross(u, v):
    u, v = _cplx(u), _cplx(v)
    return u.re * v.im - u.im * v.re


def _dot(u, v):
    u, v = _cplx(u), _cplx(v)
    return u.re * v.re + u.im * v.im


@contract
class MergeCurves(Contract):
    """merge_curves(curves, start, n) for n = 1..3 joined cubics with non-degenerate handles at
    the joins: the single cubic starts and ends where the spline does, its first and last
    handles point along the spline's first and last handles (same direction, not reversed),
    and the reported cut parameters are strictly increasing inside (0, 1), n-1 of them."""
    module = "fontTools.qu2cu.qu2cu"
    qualname = "merge_curves"
    props = ("C13",)
    rebind = REBIND
    variants = (1, 2, 3)
    level = "PF"
    assumptions = (A_REAL, "abs() of a complex number: the unique non-negative real square root")
    timeout_ms = 30000

    def variants_for(self, tier):
        return (1, 2) if tier == "quick" else self.variants      # three segments: ~80 s of nonlinear arithmetic

    def args(self, S, variant):
        n = variant
        curves = []
        prev_end = None
        for k in range(n):
            p = pts(S, "c%d_" % k, 4)
            if prev_end is not None:
                p = [prev_end] + list(p[1:])
            curves.append(tuple(p))
            prev_end = p[3]
        return dict(curves=curves, start=0, n=n)

    def requires(self, a):
        cs = []
        for k in range(1, a.n):
            ck, cb = a.curves[k], a.curves[k - 1]
            cs.append(Not(eq(_cplx(cb[3]), _cplx(cb[2]))))      # the divisor |c_before[3] - c_before[2]|
            cs.append(Not(eq(_cplx(ck[1]), _cplx(ck[0]))))      # a zero ratio would repeat a parameter
        return And(*cs)

    @staticmethod
    def _post(a, r):
        curve, ts = r
        first, last = a.curves[0], a.curves[a.n - 1]
        h0, g0 = curve[1] - curve[0], first[1] - first[0]
        h1, g1 = curve[2] - curve[3], last[2] - last[3]
        cs = [eq(_cplx(curve[0]), _cplx(first[0])), eq(_cplx(curve[3]), _cplx(last[3])),
              eq(_cross(h0, g0), 0), _dot(h0, g0) >= 0, eq(_cross(h1, g1), 0), _dot(h1, g1) >= 0,
              len(ts) == a.n - 1]
        prev = 0
        for t in ts:
            cs += [t > prev, t < 1]
            prev = t
        return And(*cs)

    ensures = [prop("end-points-tangent-directions-and-parameters", lambda a, old, r: MergeCurves._post(a, r))]
