"""Cu2QuPen and Cu2QuPointPen (C13): for EVERY contour of one to three segments over {line, cubic,
quadratic with one or two control points}, closed or open, closing point on or off the start,
with and without all_quadratic, the segment pen and the point pen (fed through the protocol
adapters) draw the same contour: same start, same segment kinds, same points.  Every cubic is
gone when all_quadratic is set, and every quadratic segment is passed through untouched.  curve_to_quadratic itself is under its own contracts (error bound, end points)."""
import itertools

from pyvc.core import Contract, contract, prop
from contracts.pens_reverse import SegmentPointSegmentRoundTrip


@contract
class Cu2QuPensAgree(Contract):
    module = "fontTools.pens.cu2quPen"
    qualname = "Cu2QuPointPen._drawPoints"
    props = ("C13", "C14")
    shadow_mode = "real"
    level = "PF"
    assumptions = ("token-valued: 672 contours with fixed coordinates, max_err 1.0",)

    def args(self, S, variant):
        return {}

    def call(self, f, a):
        from fontTools.pens.pointPen import SegmentToPointPen, PointToSegmentPen
        from fontTools.pens.cu2quPen import Cu2QuPen, Cu2QuPointPen
        from fontTools.pens.recordingPen import RecordingPen
        norm = SegmentPointSegmentRoundTrip._norm
        SEGS = {"line": 0, "curve2": 2, "qcurve1": 1, "qcurve2": 2}
        P = [(0, 0), (100, 0), (150, 80), (100, 160), (0, 200), (-60, 120), (-80, 40), (30, -50), (90, -20), (140, 30)]
        real = Cu2QuPointPen._drawPoints
        calls = [0]

        def counted(self_, segments):
            calls[0] += 1
            return f(self_, segments)
        Cu2QuPointPen._drawPoints = counted
        bad, n, converted = [], 0, 0
        try:
            for L in range(1, 4):
                for segs in itertools.product(SEGS, repeat=L):
                    for closing, dup, allq in itertools.product(("closePath", "endPath"), (False, True), (False, True)):
                        ops, k = [("moveTo", (P[0],))], 1
                        for s in segs:
                            cnt = SEGS[s]
                            pts = tuple(P[(k + i) % len(P)] for i in range(cnt + 1))
                            k += cnt + 1
                            ops.append(("lineTo" if s == "line" else "curveTo" if s.startswith("curve") else "qCurveTo", pts))
                        if dup:
                            name, pts = ops[-1]
                            ops[-1] = (name, pts[:-1] + (P[0],))
                        ops.append((closing, ()))
                        r1, r2 = RecordingPen(), RecordingPen()
                        p1 = Cu2QuPen(r1, 1.0, all_quadratic=allq)
                        p2 = SegmentToPointPen(Cu2QuPointPen(PointToSegmentPen(r2), 1.0, all_quadratic=allq), guessSmooth=False)
                        for pen in (p1, p2):
                            for name, args in ops:
                                getattr(pen, name)(*args)
                        n += 1
                        a1, a2 = norm(r1.value), norm(r2.value)
                        kinds_in = [o[0] for o in ops]
                        kinds_out = [o[0] for o in r1.value]
                        converted += "curveTo" in kinds_in and "curveTo" not in kinds_out
                        quads_in = [o for o in ops if o[0] == "qCurveTo"]
                        if a1 != a2 or (allq and "curveTo" in kinds_out) or any(o not in r1.value for o in quads_in):
                            bad.append((segs, closing, dup, allq, r1.value, r2.value))
        finally:
            Cu2QuPointPen._drawPoints = real
        return n, bad[:4], calls[0], converted

    ensures = [prop("segment-pen-and-point-pen-draw-the-same", lambda a, old, r: r[0] == 672 and not r[1] and r[2] == 672 and r[3] > 100)]
