"""Type 2 charstring path operators as a spec function, transcribed from Adobe Technical
Note #5177 ("The Type 2 Charstring Format", section 4.1-4.3).  Independent of fontTools:
plain list manipulation, arguments are opaque values."""
from pyvc.spec import Ite, Abs


class Illegal(Exception):
    pass


def _curves_hv(args, start_horizontal):
    """hvcurveto / vhcurveto: alternating curves; an optional last argument is the 'other'
    coordinate of the final end point."""
    n = len(args)
    if n < 4 or n % 8 not in (0, 1, 4, 5):
        raise Illegal
    extra = None
    if n % 2 == 1:
        extra, args = args[-1], args[:-1]
    out = []
    horiz = start_horizontal
    groups = [args[i:i + 4] for i in range(0, len(args), 4)]
    for k, (a, b, c, d) in enumerate(groups):
        last = k == len(groups) - 1
        e = extra if (last and extra is not None) else 0
        if horiz:
            out.append(("rrcurveto", [a, 0, b, c, e, d]))
        else:
            out.append(("rrcurveto", [0, a, b, c, d, e]))
        horiz = not horiz
    return out


def t2_relative(op, args):
    """-> list of ('rmoveto'|'rlineto'|'rrcurveto', [relative args]) or raises Illegal."""
    args = list(args)
    n = len(args)
    if op == "rmoveto":
        if n != 2:
            raise Illegal
        return [("rmoveto", args)]
    if op == "hmoveto":
        if n != 1:
            raise Illegal
        return [("rmoveto", [args[0], 0])]
    if op == "vmoveto":
        if n != 1:
            raise Illegal
        return [("rmoveto", [0, args[0]])]
    if op == "rlineto":
        if n < 2 or n % 2:
            raise Illegal
        return [("rlineto", args[i:i + 2]) for i in range(0, n, 2)]
    if op in ("hlineto", "vlineto"):
        if n < 1:
            raise Illegal
        horiz = op == "hlineto"
        out = []
        for a in args:
            out.append(("rlineto", [a, 0] if horiz else [0, a]))
            horiz = not horiz
        return out
    if op == "rrcurveto":
        if n < 6 or n % 6:
            raise Illegal
        return [("rrcurveto", args[i:i + 6]) for i in range(0, n, 6)]
    if op == "hhcurveto":
        if n < 4 or n % 4 > 1:
            raise Illegal
        dy1 = 0
        if n % 2:
            dy1, args = args[0], args[1:]
        out = []
        for i in range(0, len(args), 4):
            a, b, c, d = args[i:i + 4]
            out.append(("rrcurveto", [a, dy1, b, c, d, 0]))
            dy1 = 0
        return out
    if op == "vvcurveto":
        if n < 4 or n % 4 > 1:
            raise Illegal
        dx1 = 0
        if n % 2:
            dx1, args = args[0], args[1:]
        out = []
        for i in range(0, len(args), 4):
            a, b, c, d = args[i:i + 4]
            out.append(("rrcurveto", [dx1, a, b, c, 0, d]))
            dx1 = 0
        return out
    if op == "hvcurveto":
        return _curves_hv(args, True)
    if op == "vhcurveto":
        return _curves_hv(args, False)
    if op == "rcurveline":
        if n < 8 or (n - 2) % 6:
            raise Illegal
        return [("rrcurveto", args[i:i + 6]) for i in range(0, n - 2, 6)] + [("rlineto", args[-2:])]
    if op == "rlinecurve":
        if n < 8 or (n - 6) % 2:
            raise Illegal
        return [("rlineto", args[i:i + 2]) for i in range(0, n - 6, 2)] + [("rrcurveto", args[-6:])]
    if op == "flex":
        if n != 13:
            raise Illegal
        return [("rrcurveto", args[0:6]), ("rrcurveto", args[6:12])]
    if op == "hflex":
        if n != 7:
            raise Illegal
        dx1, dx2, dy2, dx3, dx4, dx5, dx6 = args
        return [("rrcurveto", [dx1, 0, dx2, dy2, dx3, 0]), ("rrcurveto", [dx4, 0, dx5, -dy2, dx6, 0])]
    if op == "hflex1":
        if n != 9:
            raise Illegal
        dx1, dy1, dx2, dy2, dx3, dx4, dx5, dy5, dx6 = args
        return [("rrcurveto", [dx1, dy1, dx2, dy2, dx3, 0]), ("rrcurveto", [dx4, 0, dx5, dy5, dx6, -(dy1 + dy2 + dy5)])]
    if op == "flex1":
        if n != 11:
            raise Illegal
        dx1, dy1, dx2, dy2, dx3, dy3, dx4, dy4, dx5, dy5, d6 = args
        dx = dx1 + dx2 + dx3 + dx4 + dx5
        dy = dy1 + dy2 + dy3 + dy4 + dy5
        # TN5177: "if abs(dx) > abs(dy) the last point's x is given by d6 and its y equals the
        # start point's y; otherwise the last point's y is given by d6 and its x equals the start's x"
        horiz = Abs(dx) > Abs(dy)
        return [("rrcurveto", [dx1, dy1, dx2, dy2, dx3, dy3]),
                ("rrcurveto", [dx4, dy4, dx5, dy5, Ite(horiz, d6, -dx), Ite(horiz, -dy, d6)])]
    raise KeyError(op)


PATH_OPS = ("rmoveto", "hmoveto", "vmoveto", "rlineto", "hlineto", "vlineto", "rrcurveto", "hhcurveto",
            "vvcurveto", "hvcurveto", "vhcurveto", "rcurveline", "rlinecurve")
FLEX_OPS = ("flex", "hflex", "hflex1", "flex1")


def legal(op, n):
    try:
        t2_relative(op, [0] * n)
        return True
    except Illegal:
        return False


def absolute_pen_calls(rel, start, saw_moveto):
    """What a pen must receive for the relative commands, starting at `start` (TN5177: every
    argument is relative to the current point; an outline extractor inserts the implied
    moveto if a path starts without one)."""
    x, y = start
    calls = []
    saw = saw_moveto
    for op, a in rel:
        if op == "rmoveto":
            if saw:
                calls.append(("closePath", ()))
            x, y = x + a[0], y + a[1]
            calls.append(("moveTo", ((x, y),)))
            saw = True
            continue
        if not saw:
            calls.append(("moveTo", ((x, y),)))
            saw = True
        if op == "rlineto":
            x, y = x + a[0], y + a[1]
            calls.append(("lineTo", ((x, y),)))
        else:
            p1 = (x + a[0], y + a[1])
            p2 = (p1[0] + a[2], p1[1] + a[3])
            x, y = p2[0] + a[4], p2[1] + a[5]
            calls.append(("curveTo", (p1, p2, (x, y))))
    return calls, (x, y)
