"""Contracts on recomputed header fields (C04): hhea.recalc and maxp.recalc equal an
independent recomputation (OpenType definitions) for 1..3 glyphs with symbolic boxes and
metrics - glyf fonts and CFF fonts whose charstring bounds are FRACTIONAL."""
from fractions import Fraction

from pyvc.core import Contract, contract, prop, internal
from pyvc.models import std
from pyvc.spec import And, Or, Not, Implies, Ite, eq, Min, Max, floor
from contracts._support import FakeFont, ns


class _Hmtx:
    def __init__(self, metrics):
        self.metrics = metrics

    def __getitem__(self, name):
        return self.metrics[name]


class _CS:
    def __init__(self, bounds):
        self.bounds = bounds

    def calcBounds(self, glyphSet):
        return self.bounds


def ceil_(x):
    return -floor(-x)


def _fold(f, xs):
    r = xs[0]
    for x in xs[1:]:
        r = f(r, x)
    return r


@contract
class HheaRecalc(Contract):
    module = "fontTools.ttLib.tables._h_h_e_a"
    qualname = "table__h_h_e_a.recalc"
    props = ("C04",)
    rebind = std("int", "float")
    level = "PF"
    # per glyph: 'o' outline, 'e' empty; flavour glyf / cff
    variants = tuple((fl, pat) for fl in ("glyf", "cff") for pat in ("o", "e", "oo", "oe", "eo", "ooo", "oeo"))
    assumptions = ("A-REAL for CFF charstring bounds (fractional coordinates)",)

    def args(self, S, variant):
        fl, pat = variant
        names = ["g%d" % i for i in range(len(pat))]
        metrics = {g: (S.int("adv_" + g, 0, 65535), S.int("lsb_" + g, -32768, 32767)) for g in names}
        t = self.mod.table__h_h_e_a.__new__(self.mod.table__h_h_e_a)
        boxes = {}
        if fl == "glyf":
            glyf = {}
            for g, k in zip(names, pat):
                if k == "o":
                    boxes[g] = (S.int("xMin_" + g, -32768, 32767), S.int("xMax_" + g, -32768, 32767))
                    glyf[g] = ns(numberOfContours=1, xMin=boxes[g][0], xMax=boxes[g][1])
                else:
                    glyf[g] = ns(numberOfContours=0)
            font = FakeFont(names, hmtx=_Hmtx(metrics), glyf=glyf)
        else:
            cs = {}
            for g, k in zip(names, pat):
                if k == "o":
                    boxes[g] = (S.real("xMin_" + g), S.real("xMax_" + g))
                    cs[g] = _CS((boxes[g][0], S.real("yMin_" + g), boxes[g][1], S.real("yMax_" + g)))
                else:
                    cs[g] = _CS(None)
            font = FakeFont(names, hmtx=_Hmtx(metrics), **{"CFF ": ns(cff=ns(topDictIndex=[ns(CharStrings=cs)]))})
        return dict(self=t, ttFont=font, _m=metrics, _boxes=boxes, _fl=fl)

    def requires(self, a):
        return And(*[lo <= hi for lo, hi in a._boxes.values()])

    @staticmethod
    def _post(a):
        m, t = a._m, a.self
        cs = [eq(t.advanceWidthMax, _fold(Max, [adv for adv, _ in m.values()]))]
        outl = list(a._boxes)
        if not outl:
            return And(cs[0], eq(t.minLeftSideBearing, 0), eq(t.minRightSideBearing, 0), eq(t.xMaxExtent, 0))
        width = {g: (hi - lo) if a._fl == "glyf" else (ceil_(hi) - floor(lo)) for g, (lo, hi) in a._boxes.items()}
        cs.append(eq(t.minLeftSideBearing, _fold(Min, [m[g][1] for g in outl])))
        cs.append(eq(t.minRightSideBearing, _fold(Min, [m[g][0] - m[g][1] - width[g] for g in outl])))
        cs.append(eq(t.xMaxExtent, _fold(Max, [m[g][1] + width[g] for g in outl])))
        return And(*cs)

    ensures = [prop("fields-equal-independent-recomputation", lambda a, old, r: HheaRecalc._post(a))]


@contract
class VheaRecalc(Contract):
    """vertical twin of HheaRecalc"""
    module = "fontTools.ttLib.tables._v_h_e_a"
    qualname = "table__v_h_e_a.recalc"
    props = ("C04",)
    rebind = std("int", "float")
    level = "PF"
    variants = tuple((fl, pat) for fl in ("glyf", "cff") for pat in ("o", "e", "oe", "oo", "oeo"))
    assumptions = ("A-REAL for CFF charstring bounds (fractional coordinates)",)

    def args(self, S, variant):
        fl, pat = variant
        names = ["g%d" % i for i in range(len(pat))]
        metrics = {g: (S.int("adv_" + g, 0, 65535), S.int("tsb_" + g, -32768, 32767)) for g in names}
        t = self.mod.table__v_h_e_a.__new__(self.mod.table__v_h_e_a)
        boxes = {}
        if fl == "glyf":
            glyf = {}
            for g, k in zip(names, pat):
                if k == "o":
                    boxes[g] = (S.int("yMin_" + g, -32768, 32767), S.int("yMax_" + g, -32768, 32767))
                    glyf[g] = ns(numberOfContours=1, yMin=boxes[g][0], yMax=boxes[g][1])
                else:
                    glyf[g] = ns(numberOfContours=0)
            font = FakeFont(names, vmtx=_Hmtx(metrics), glyf=glyf)
        else:
            cs = {}
            for g, k in zip(names, pat):
                if k == "o":
                    boxes[g] = (S.real("yMin_" + g), S.real("yMax_" + g))
                    cs[g] = _CS((S.real("xMin_" + g), boxes[g][0], S.real("xMax_" + g), boxes[g][1]))
                else:
                    cs[g] = _CS(None)
            font = FakeFont(names, vmtx=_Hmtx(metrics), **{"CFF2": ns(cff=ns(topDictIndex=[ns(CharStrings=cs)]))})
        return dict(self=t, ttFont=font, _m=metrics, _boxes=boxes, _fl=fl)

    def requires(self, a):
        return And(*[lo <= hi for lo, hi in a._boxes.values()])

    @staticmethod
    def _post(a):
        m, t = a._m, a.self
        cs = [eq(t.advanceHeightMax, _fold(Max, [adv for adv, _ in m.values()]))]
        outl = list(a._boxes)
        if not outl:
            return And(cs[0], eq(t.minTopSideBearing, 0), eq(t.minBottomSideBearing, 0), eq(t.yMaxExtent, 0))
        h = {g: (hi - lo) if a._fl == "glyf" else (ceil_(hi) - floor(lo)) for g, (lo, hi) in a._boxes.items()}
        cs.append(eq(t.minTopSideBearing, _fold(Min, [m[g][1] for g in outl])))
        cs.append(eq(t.minBottomSideBearing, _fold(Min, [m[g][0] - m[g][1] - h[g] for g in outl])))
        cs.append(eq(t.yMaxExtent, _fold(Max, [m[g][1] + h[g] for g in outl])))
        return And(*cs)

    ensures = [prop("fields-equal-independent-recomputation", lambda a, old, r: VheaRecalc._post(a))]


class _G:
    """a glyf entry as maxp.recalc sees it"""

    def __init__(self, kind, S, name):
        self.kind = kind
        if kind == "e":
            self.numberOfContours = 0
            return
        self.xMin, self.yMin = S.int("xMin_" + name, -32768, 32767), S.int("yMin_" + name, -32768, 32767)
        self.xMax, self.yMax = S.int("xMax_" + name, -32768, 32767), S.int("yMax_" + name, -32768, 32767)
        if kind == "s":
            self.numberOfContours = 2
            self.np, self.nc = S.int("np_" + name, 0, 65535), S.int("nc_" + name, 0, 65535)
        else:
            self.numberOfContours = -1
            self.components = [None] * 2
            self.np, self.nc, self.depth = S.int("np_" + name, 0, 65535), S.int("nc_" + name, 0, 65535), S.int("depth_" + name, 1, 16)

    def isComposite(self):
        return self.numberOfContours == -1

    def getMaxpValues(self):
        return self.np, self.nc

    def getCompositeMaxpValues(self, glyfTable):
        return self.np, self.nc, self.depth


class _Glyf(dict):
    pass


@contract
class MaxpRecalc(Contract):
    """maxp.recalc: head bbox = union of the boxes of glyphs with contours (0,0,0,0 if none),
    maxima taken over simple resp. composite glyphs, numGlyphs = len(glyf), head.flags bit 1
    <=> every such glyph has lsb == xMin, all other flag bits untouched."""
    module = "fontTools.ttLib.tables._m_a_x_p"
    qualname = "table__m_a_x_p.recalc"
    props = ("C04",)
    level = "PF"
    variants = ("s", "e", "c", "se", "sc", "ss", "ce")

    def args(self, S, variant):
        names = ["g%d" % i for i in range(len(variant))]
        glyf = _Glyf({g: _G(k, S, g) for g, k in zip(names, variant)})
        lsb = {g: S.int("lsb_" + g, -32768, 32767) for g in names}
        head = ns(flags=S.int("flags", 0, 65535), xMin=0, yMin=0, xMax=0, yMax=0)
        t = self.mod.table__m_a_x_p.__new__(self.mod.table__m_a_x_p)
        font = FakeFont(names, glyf=glyf, hmtx=_Hmtx({g: (0, lsb[g]) for g in names}), head=head)
        return dict(self=t, ttFont=font, _lsb=lsb, _flags=head.flags, _glyf=glyf)

    def requires(self, a):
        return And(*[And(g.xMin <= g.xMax, g.yMin <= g.yMax) for g in a._glyf.values() if g.kind != "e"])

    @staticmethod
    def _post(a):
        t, head, glyf = a.self, a.ttFont["head"], a._glyf
        ink = [(n, g) for n, g in glyf.items() if g.kind != "e"]
        simple = [g for n, g in ink if g.kind == "s"]
        comp = [g for n, g in ink if g.kind == "c"]
        cs = [eq(t.numGlyphs, len(glyf))]
        if ink:
            cs += [eq(head.xMin, _fold(Min, [g.xMin for n, g in ink])), eq(head.yMin, _fold(Min, [g.yMin for n, g in ink])),
                   eq(head.xMax, _fold(Max, [g.xMax for n, g in ink])), eq(head.yMax, _fold(Max, [g.yMax for n, g in ink]))]
        else:
            cs += [eq(head.xMin, 0), eq(head.yMin, 0), eq(head.xMax, 0), eq(head.yMax, 0)]
        cs.append(eq(t.maxPoints, _fold(Max, [0] + [g.np for g in simple])))
        cs.append(eq(t.maxContours, _fold(Max, [0] + [g.nc for g in simple])))
        cs.append(eq(t.maxCompositePoints, _fold(Max, [0] + [g.np for g in comp])))
        cs.append(eq(t.maxCompositeContours, _fold(Max, [0] + [g.nc for g in comp])))
        cs.append(eq(t.maxComponentDepth, _fold(Max, [0] + [g.depth for g in comp])))
        cs.append(eq(t.maxComponentElements, 2 if comp else 0))
        all_lsb = And(*[eq(a._lsb[n], g.xMin) for n, g in ink]) if ink else True
        bit = (head.flags // 2) % 2
        cs.append(Ite(all_lsb, eq(bit, 1), eq(bit, 0)) if not isinstance(all_lsb, bool) else eq(bit, 1 if all_lsb else 0))
        cs.append(eq(head.flags - bit * 2, a._flags - ((a._flags // 2) % 2) * 2))
        return And(*cs)

    ensures = [prop("fields-equal-independent-recomputation", lambda a, old, r: MaxpRecalc._post(a))]
