"""instantiateMVAR / setMvarDeltas (C08): every MVAR value record adds the rounded default delta of
ITS OWN delta-set index to the field its tag names (and to nothing else; unknown tags are ignored);
hhea's ascender / descender / lineGap follow OS/2's typo metrics exactly when the three pairs were
equal before; the records are renumbered through the optimised store, or the table is dropped when
no region is left."""
from pyvc.core import Contract, contract, prop, internal
from pyvc.spec import And, Or, Not, Implies, Ite, eq, floor
from contracts.varlib_mutator_merger import _IntModel


class _Ns:
    def __init__(self, **kw):
        self.__dict__.update(kw)


class _Hhea(_Ns):
    @property
    def ascender(self):
        return self.ascent

    @ascender.setter
    def ascender(self, v):
        self.ascent = v

    @property
    def descender(self):
        return self.descent

    @descender.setter
    def descender(self, v):
        self.descent = v


RECORDS = (("hasc", 3), ("hdsc", 1), ("xhgt", 3), ("undo", (1 << 16) + 4), ("zzzz", 1), ("hcof", 0))


@contract
class InstantiateMVAR(_IntModel, Contract):
    module = "fontTools.varLib.instancer"
    qualname = "instantiateMVAR"
    props = ("C08",)
    shadow_mode = "function"
    variants = tuple((synced, left) for synced in ("synced", "ascender-differs", "linegap-differs") for left in (True, False))
    also = ("setMvarDeltas", "verticalMetricsKeptInSync")
    level = "PF"
    assumptions = ("A-REAL", "instantiateItemVariationStore is a stub returning free real default deltas per delta-set index; VarStore.optimize is a stub returning an arbitrary renumbering")

    def rebind(self):
        return {"instantiateItemVariationStore": lambda store, axes, limits: self._deltas}

    def args(self, S, variant):
        synced, left = variant
        self._deltas = {k: S.real("delta_%x" % k) for k in (0, 1, 3, (1 << 16) + 4)}
        os2 = _Ns(sTypoAscender=S.int("typoAsc", -3000, 3000), sTypoDescender=S.int("typoDesc", -3000, 3000), sTypoLineGap=S.int("typoGap", 0, 3000),
                  sxHeight=S.int("xheight", 0, 3000), usWinAscent=S.int("winAsc", 0, 3000))
        hhea = _Hhea(ascent=os2.sTypoAscender, descent=os2.sTypoDescender, lineGap=os2.sTypoLineGap, caretOffset=S.int("caretOffset", -500, 500))
        if synced == "ascender-differs":
            hhea.ascent = S.int("hheaAsc", -3000, 3000)
        elif synced == "linegap-differs":
            hhea.lineGap = S.int("hheaGap", 0, 3000)
        post = _Ns(underlinePosition=S.int("ulPos", -1000, 1000), underlineThickness=S.int("ulThick", 0, 500))
        recs = [_Ns(ValueTag=t, VarIdx=i) for t, i in RECORDS]
        renumber = {3: 0, 1: 2, (1 << 16) + 4: 1, 0: 3}
        store = _Ns(VarRegionList=_Ns(Region=["r"] if left else []))
        store.optimize = lambda: dict(renumber)
        font = {"MVAR": _Ns(table=_Ns(ValueRecord=recs, VarStore=store)), "fvar": _Ns(axes=[]), "OS/2": os2, "hhea": hhea, "post": post}
        snap = {k: dict(vars(v)) for k, v in (("OS/2", os2), ("hhea", hhea), ("post", post))}
        return dict(varfont=font, axisLimits=None, _snap=snap, _deltas=self._deltas, _recs=recs, _renumber=renumber, _v=variant, _os2=os2, _hhea=hhea, _post=post)

    def requires(self, a):
        if a._v[0] == "ascender-differs":
            return Not(eq(a._hhea.ascent, a._os2.sTypoAscender))
        if a._v[0] == "linegap-differs":
            return Not(eq(a._hhea.lineGap, a._os2.sTypoLineGap))
        return True

    def call(self, f, a):
        f(a.varfont, a.axisLimits)
        return a.varfont

    @staticmethod
    def _post(a, r):
        synced, left = a._v
        rd = lambda d: floor(d + 0.5)
        s, d = a._snap, a._deltas
        want_os2 = dict(s["OS/2"])
        want_os2["sTypoAscender"] = want_os2["sTypoAscender"] + rd(d[3])
        want_os2["sTypoDescender"] = want_os2["sTypoDescender"] + rd(d[1])
        want_os2["sxHeight"] = want_os2["sxHeight"] + rd(d[3])
        want_post = dict(s["post"])
        want_post["underlinePosition"] = want_post["underlinePosition"] + rd(d[(1 << 16) + 4])
        want_hhea = dict(s["hhea"])
        want_hhea["caretOffset"] = want_hhea["caretOffset"] + rd(d[0])
        if synced == "synced":
            want_hhea["ascent"], want_hhea["descent"], want_hhea["lineGap"] = want_os2["sTypoAscender"], want_os2["sTypoDescender"], want_os2["sTypoLineGap"]
        cs = []
        for obj, want in ((a._os2, want_os2), (a._post, want_post), (a._hhea, want_hhea)):
            if set(vars(obj)) != set(want):
                return False
            cs += [eq(getattr(obj, k), v) for k, v in want.items()]
        if left:
            cs.append("MVAR" in r and [x.VarIdx for x in a._recs] == [a._renumber[i] for _, i in RECORDS])
        else:
            cs.append("MVAR" not in r)
        return And(*cs)

    ensures = [prop("each-record-adds-its-own-rounded-delta-and-hhea-follows-when-synced", lambda a, old, r: InstantiateMVAR._post(a, r))]
