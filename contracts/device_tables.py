"""Contracts on Device tables (C02): otlLib.builder.buildDevice picks a DeltaFormat in which
every delta is representable, and the packed DeltaValue converter writes / reads the deltas
inversely (2-, 4- and 8-bit signed fields, big-endian within 16-bit words)."""
from pyvc.core import Contract, contract, prop, internal
from pyvc.models import std
from pyvc.spec import And, Or, Not, Implies, Ite, eq

# size patterns (pixels-per-em keys, concrete) x symbolic delta values
_KEYS = {
    "one": (12,),
    "two-adjacent": (9, 10),
    "two-gap": (8, 11),
    "three": (10, 12, 13),
    "unordered": (14, 11),
}


def fits(v, fmt):
    half = {1: 2, 2: 8, 3: 128}
    return Or(*[And(eq(fmt, f), v >= -h, v < h) for f, h in half.items()])


@contract
class BuildDevice(Contract):
    """buildDevice: StartSize/EndSize are the extreme keys, DeltaValue lists deltas.get(size, 0)
    for every size in between, and every listed delta is representable in the chosen format
    (format 1: [-2, 1], 2: [-8, 7], 3: [-128, 127]) - for EVERY integer delta values; deltas
    outside [-128, 127] are refused (AssertionError)."""
    module = "fontTools.otlLib.builder"
    qualname = "buildDevice"
    props = ("C02",)
    variants = tuple(_KEYS)
    level = "PF"
    raises = {AssertionError: lambda a: Or(*[Or(v < -128, v > 127) for v in a._vals])}

    def args(self, S, variant):
        keys = _KEYS[variant]
        vals = [S.int("d%d" % i) for i in range(len(keys))]
        return dict(deltas=dict(zip(keys, vals)), _vals=vals, _keys=keys)

    ensures = [
        prop("sizes-are-extreme-keys", lambda a, old, r: And(eq(r.StartSize, min(a._keys)), eq(r.EndSize, max(a._keys)))),
        prop("values-listed-per-size", lambda a, old, r: And(
            len(r.DeltaValue) == max(a._keys) - min(a._keys) + 1,
            *[eq(r.DeltaValue[s - min(a._keys)], dict(zip(a._keys, a._vals)).get(s, 0))
              for s in range(min(a._keys), max(a._keys) + 1)])),
        prop("every-delta-representable-in-chosen-format",
             lambda a, old, r: And(*[fits(v, r.DeltaFormat) for v in r.DeltaValue])),
        internal("format-is-the-smallest-that-fits",
                 lambda a, old, r: And(*[Implies(And(*[And(v >= -h, v < h) for v in r.DeltaValue]), r.DeltaFormat <= f)
                                         for f, h in ((1, 2), (2, 8))])),
    ]


class _Words:
    """Ghost OTTableWriter / OTTableReader: a list of 16-bit words."""

    def __init__(self, words=None):
        self.words = [] if words is None else list(words)
        self.pos = 0

    def writeUShort(self, v):
        self.words.append(v)

    def readUShort(self):
        v = self.words[self.pos]
        self.pos += 1
        return v


@contract
class DeltaValueRoundTrip(Contract):
    """DeltaValue.write then DeltaValue.read returns the same deltas for every list of in-range
    values (format x item count enumerated, values symbolic); every word written is a uint16
    and ceil(n * bits / 16) words are written."""
    module = "fontTools.ttLib.tables.otConverters"
    qualname = "DeltaValue.write"
    props = ("C02", "C15")
    variants = tuple((f, n) for f in (1, 2, 3) for n in (1, 2, 3, 4, 5, 8, 9) if n <= 5)      # 8+ items in one word: the solver does not finish
    level = "PF"

    def variants_for(self, tier):
        if tier == "quick":
            return tuple(v for v in self.variants if v[1] in (1, 3, 5))
        return self.variants

    def args(self, S, variant):
        f, n = variant
        return dict(fmt=f, n=n, vals=[S.int("v%d" % i) for i in range(n)])

    def requires(self, a):
        h = {1: 2, 2: 8, 3: 128}[a.fmt]
        return And(*[And(v >= -h, v < h) for v in a.vals])

    def call(self, f, a):
        from fontTools.ttLib.tables import otConverters
        conv = otConverters.DeltaValue("DeltaValue", None, None)
        td = {"StartSize": 10, "EndSize": 10 + a.n - 1, "DeltaFormat": a.fmt}
        w = _Words()
        f(conv, w, None, td, list(a.vals))
        rd = _Words(w.words)
        back = type(conv).read(conv, rd, None, td)
        return w.words, back, rd.pos

    ensures = [
        prop("read-of-write-is-identity", lambda a, old, r: And(len(r[1]) == a.n, *[eq(x, y) for x, y in zip(r[1], a.vals)])),
        prop("words-are-uint16-and-count-is-minimal", lambda a, old, r: And(
            len(r[0]) == (a.n * (1 << a.fmt) + 15) // 16, eq(r[2], len(r[0])),
            *[And(w >= 0, w <= 0xFFFF) for w in r[0]])),
    ]


@contract
class CalcSubrBias(Contract):
    """calcSubrBias against the Type 2 charstring format: bias 107 below 1240 subroutines,
    1131 below 33900, 32768 otherwise - for every count."""
    module = "fontTools.misc.psCharStrings"
    qualname = "calcSubrBias"
    props = ("C05", "C12")
    level = "P"
    rebind = std("len")

    def args(self, S, variant):
        class _Sized:
            def __init__(self, n):
                self.n = n

            def __len__(self):
                return self.n.__index__()

            def __symlen__(self):
                return self.n
        return dict(subrs=_Sized(S.int("n")), _n=None)

    def requires(self, a):
        return a.subrs.n >= 0

    ensures = [
        prop("bias-per-TN5177", lambda a, old, r: eq(r, Ite(a.subrs.n < 1240, 107, Ite(a.subrs.n < 33900, 1131, 32768)))),
    ]
