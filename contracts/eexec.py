"""Contracts on Type 1 eexec / charstring encryption (C15). Spec: Adobe Type 1 Font Format,
section 7 (c1 = 52845, c2 = 22719, 16-bit key, cipher feedback)."""
from pyvc.core import Contract, contract, prop, internal
from pyvc.models import std, SymBytes
from pyvc.spec import And, Or, Not, Implies, Ite, eq

REBIND = std("len", "bytes", "int", "bytechr", "byteord", "bytesjoin")


def _items(b):
    return list(b.items) if isinstance(b, SymBytes) else list(b)


def next_key(cipher, R):
    return ((cipher + R) * 52845 + 22719) % 65536


@contract
class EexecCharRoundTrip(Contract):
    """Per byte: decrypting the encryption of p under key R returns p, and both sides
    advance to the same next key (for all 256 x 65536 byte/key pairs)."""
    module = "fontTools.misc.eexec"
    qualname = "_decryptChar"
    props = ("C15",)
    rebind = REBIND

    def args(self, S, variant):
        return dict(p=S.byte("p"), R=S.int("R", 0, 65535))

    def call(self, f, a):
        c, r1 = self.mod._encryptChar(a.p, a.R)
        pl, r2 = f(c, a.R)
        return (c, r1, pl, r2)

    ensures = [
        prop("decrypt-of-encrypt-is-identity", lambda a, old, r: eq(_items(r[2])[0], a.p)),
        prop("same-next-key-per-spec", lambda a, old, r: And(eq(r[1], r[3]), eq(r[1], next_key(_items(r[0])[0], a.R)))),
        prop("outputs-are-bytes-and-16bit-keys", lambda a, old, r: And(0 <= r[1], r[1] < 65536,
                                                                      0 <= _items(r[0])[0], _items(r[0])[0] <= 255)),
    ]


@contract
class EexecStringRoundTrip(Contract):
    """decrypt(encrypt(s, R)[0], R) == (s, R') with R' the key encrypt ended with; shapes:
    strings of length 0..3 with symbolic bytes (the loop is the per-byte step above)."""
    module = "fontTools.misc.eexec"
    qualname = "decrypt"
    props = ("C15",)
    rebind = REBIND
    variants = (0, 1, 2, 3)
    level = "PF"

    def variants_for(self, tier):
        return (0, 1, 2) if tier == "quick" else (0, 1, 2, 3)

    def args(self, S, variant):
        return dict(s=S.bytes("s", variant), R=S.int("R", 0, 65535))

    def call(self, f, a):
        c, r1 = self.mod.encrypt(a.s, a.R)
        pl, r2 = f(c, a.R)
        return (c, r1, pl, r2)

    ensures = [prop("decrypt-of-encrypt-is-identity", lambda a, old, r: And(
        SymBytes.of(r[2]) == SymBytes.of(a.s), eq(r[1], r[3]), len(_items(SymBytes.of(r[0]))) == len(_items(SymBytes.of(a.s)))))]
