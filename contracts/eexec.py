"""Contracts on Type 1 eexec / charstring encryption (C15). Spec: Adobe Type 1 Font Format,
section 7 (c1 = 52845, c2 = 22719, 16-bit key, cipher feedback)."""
from pyvc.core import Contract, contract, prop, internal
from pyvc.models import std, SymBytes
from pyvc.spec import And, Or, Not, Implies, Ite, eq

REBIND = std("len", "bytes", "int", "bytechr", "byteord", "bytesjoin")


def _items(b):
    return list(b.items) if isinstance(b, SymBytes) else list(b)


def next_key(cipher, R):
    return ((cipher + R) * 52845 + 22719) % 65536


@contract
class EexecCharRoundTrip(Contract):
    """Per byte: decrypting the encryption of p under key R returns p, and both sides
    advance to the same next key (for all 256 x 65536 byte/key pairs)."""
    module = "fontTools.misc.eexec"
    qualname = "_decryptChar"
    props = ("C15",)
    rebind = REBIND

    def args(self, S, variant):
        return dict(p=S.byte("p"), R=S.int("R", 0, 65535))

    def call(self, f, a):
        c, r1 = self.mod._encryptChar(a.p, a.R)
        pl, r2 = f(c, a.R)
        return (c, r1, pl, r2)

    ensures = [
        prop("decrypt-of-encrypt-is-identity", lambda a, old, r: eq(_items(r[2])[0], a.p)),
        prop("same-next-key-per-spec", lambda a, old, r: And(eq(r[1], r[3]), eq(r[1], next_key(_items(r[0])[0], a.R)))),
        prop("outputs-are-bytes-and-16bit-keys", lambda a, old, r: And(0 <= r[1], r[1] < 65536,
                                                                      0 <= _items(r[0])[0], _items(r[0])[0] <= 255)),
    ]


@contract
class EexecStringRoundTrip(Contract):
    """decrypt(encrypt(s, R)[0], R) == (s, R') with R' the key encrypt ended with; shapes:
    strings of length 0..3 with symbolic bytes (the loop is the per-byte step above)."""
    module = "fontTools.misc.eexec"
    qualname = "decrypt"
    props = ("C15",)
    rebind = REBIND
    variants = (0, 1, 2, 3)
    level = "PF"

    def variants_for(self, tier):
        return (0, 1, 2) if tier == "quick" else (0, 1, 2, 3)

    def args(self, S, variant):
        return dict(s=S.bytes("s", variant), R=S.int("R", 0, 65535))

    def call(self, f, a):
        c, r1 = self.mod.encrypt(a.s, a.R)
        pl, r2 = f(c, a.R)
        return (c, r1, pl, r2)

    ensures = [prop("decrypt-of-encrypt-is-identity", lambda a, old, r: And(
        SymBytes.of(r[2]) == SymBytes.of(a.s), eq(r[1], r[3]), len(_items(SymBytes.of(r[0]))) == len(_items(SymBytes.of(a.s)))))]


# -- whole strings of ANY length (loops cut by invariant) -------------------------------------------
# Ghost sequences over the input bytes x[0..n): a key sequence K with K(0) = R and
# K(j+1) = next_key(cipherbyte(j), K(j)) (Type 1 spec), and the output byte sequence O(j).
# For encrypt: cipherbyte(j) = O(j) = x[j] xor (K(j) >> 8); for decrypt: cipherbyte(j) = x[j],
# O(j) = x[j] xor (K(j) >> 8).  The loop invariant says "R == K(i) and the list built so far is
# O(0..i)"; the defining equations are assumed as instances at the cut index.

import z3 as _z3
from pyvc import sym as _sym
from pyvc.blobs import Atom
from pyvc.loopcut import LoopSpec
from pyvc.sym import SymNum as _SymNum


class _Seq:
    """ghost state shared by the loop spec, the list model and the postcondition"""

    def __init__(self, atom, R0, decrypting):
        I = _z3.IntSort()
        self.atom, self.R0, self.decrypting = atom, R0, decrypting
        self.K = _z3.Function("K", I, I)
        self.O = _z3.Function("O", I, I)

    def x(self, j):
        return _SymNum(_z3.Select(self.atom.arr, _sym._lift(j).t))

    def key(self, j):
        return _SymNum(self.K(_sym._lift(j).t))

    def out(self, j):
        return _SymNum(self.O(_sym._lift(j).t))

    def assume_defs_at(self, i):
        """K(i) is a 16-bit key, x[i] a byte, O(i) = x[i] xor (K(i)>>8) (via the engine's own xor
        on proxies), K(i+1) = next_key(cipher byte, K(i))"""
        cx = _sym.ctx()
        k, xi = self.key(i), self.x(i)
        cx.assume_term(_z3.And(k.t >= 0, k.t < 65536, xi.t >= 0, xi.t <= 255))
        o = (xi ^ (k >> 8)) & 0xFF
        cx.assume_term(self.O(_sym._lift(i).t) == o.t)
        cbyte = xi if self.decrypting else o
        cx.assume_term(self.K(_sym._lift(i + 1).t) == next_key(cbyte, k).t)


class _GhostList:
    """the list `plainList` / `cipherList` inside the cut loop: O(0..length) plus at most one
    appended element"""

    def __init__(self, seq, length):
        self.seq, self.length, self.pending = seq, length, None

    def append(self, b):
        self.pending = b


class _GhostBytes:
    def __init__(self, seq, n):
        self.seq, self.n = seq, n


def _bytesjoin_model(lst, joiner=b""):
    if isinstance(lst, _GhostList):
        return _GhostBytes(lst.seq, lst.length)
    from pyvc.models import bytesjoin_
    return bytesjoin_(lst, joiner)


class _SymInput:
    """the input byte string as an iterable of symbolic length (for the cut `for` loop)"""

    def __init__(self, seq):
        self.seq = seq

    def __symlen__(self):
        return self.seq.atom.n

    def at(self, i):
        return self.seq.x(i)


def _string_loop(listname):
    def inv(env, i, n):
        lst = getattr(env, listname)
        seq = env.g
        if not isinstance(lst, _GhostList):
            return len(lst) == 0 and (i == 0 if isinstance(i, int) else eq(i, 0)) and eq(env.R, seq.key(0))
        ok = eq(env.R, seq.key(i))
        if lst.pending is not None:
            from pyvc.models import SymBytes
            pend = lst.pending
            pend = pend.items[0] if isinstance(pend, SymBytes) else pend[0]
            return And(ok, eq(lst.length + 1, i), eq(pend, seq.out(lst.length)))
        return And(ok, eq(lst.length, i))

    def ghost(env):
        it = env.cipherstring if "cipherstring" in env.__dict__ else env.plainstring
        return it.seq

    def havoc(F, env, i, n):
        seq = env.g
        seq.assume_defs_at(i)
        cx = _sym.ctx()
        cx.assume_term(seq.K(0) == _sym._lift(seq.R0).t)
        out = {"R": seq.key(i), listname: _GhostList(seq, i)}
        for extra in ("plain", "cipher"):
            out[extra] = None
        return out

    return LoopSpec(modifies=["R", listname, "plain", "cipher"], invariant=inv, havoc=havoc, ghost=ghost)


class _StringAny(Contract):
    module = "fontTools.misc.eexec"
    props = ("C15",)
    decrypting = None
    listname = None

    def rebind(self):
        d = dict(REBIND)
        d["bytesjoin"] = _bytesjoin_model
        return d

    @property
    def cuts(self):
        return {self.qualname: {0: _string_loop(self.listname)}}

    def args(self, S, variant):
        at = Atom("x")
        S.ctx.assume_term(at.n.t >= 0)
        R = S.int("R", 0, 65535)
        seq = _Seq(at, R, self.decrypting)
        S.ctx.assume_term(seq.K(0) == R.t)
        argname = "cipherstring" if self.decrypting else "plainstring"
        return {argname: _SymInput(seq), "R": R, "_seq": seq}

    def call(self, f, a):
        return f(a.cipherstring if self.decrypting else a.plainstring, a.R)

    ensures = [prop("output-is-the-spec-sequence-and-final-key", lambda a, old, r: (
        (isinstance(r[0], _GhostBytes) and r[0].seq is a._seq and And(eq(r[0].n, a._seq.atom.n), eq(r[1], a._seq.key(a._seq.atom.n))))
        or (isinstance(r[0], bytes) and len(r[0]) == 0 and And(eq(a._seq.atom.n, 0), eq(r[1], a.R)))))]


@contract
class EncryptAnyLength(_StringAny):
    """encrypt(s, R) for strings of EVERY length: byte j of the result is s[j] xor (K(j) >> 8) and
    the returned key is K(len(s)), K being the Type 1 key sequence driven by the cipher bytes."""
    qualname = "encrypt"
    decrypting = False
    listname = "cipherList"


@contract
class DecryptAnyLength(_StringAny):
    qualname = "decrypt"
    decrypting = True
    listname = "plainList"


@contract
class EexecLockstepLemma(Contract):
    """Lemma (induction step, no code): if decrypt's key equals encrypt's key before byte j and
    the cipher byte is c = p xor (k >> 8), then decrypt recovers p and both keys are equal
    after byte j.  With EncryptAnyLength / DecryptAnyLength (same initial key) this gives
    decrypt(encrypt(s, R)[0], R) == (s, key encrypt ended with) for every length."""
    module = None
    qualname = None
    props = ("C15",)

    def args(self, S, variant):
        return dict(p=S.byte("p"), k=S.int("k", 0, 65535))

    def call(self, f, a):
        c = (a.p ^ (a.k >> 8)) & 0xFF
        ke = next_key(c, a.k)           # encrypt: next key from its own output byte
        back = (c ^ (a.k >> 8)) & 0xFF  # decrypt with the same key
        kd = next_key(c, a.k)           # decrypt: next key from its input byte
        return c, ke, back, kd

    ensures = [prop("step", lambda a, old, r: And(eq(r[2], a.p), eq(r[1], r[3]), r[1] >= 0, r[1] < 65536))]
