"""Offset-overflow resolution by subtable splitting (C06): the split functions move a tail of
the rules into a new subtable - together the two subtables express exactly the rules of the
original, with disjoint first glyphs (so the order of the two does not matter for lookup) - and
fixSubTableOverFlows puts the new subtable directly behind the one it was split from, leaving
every other subtable of the lookup in place."""
from types import SimpleNamespace

from pyvc.core import Contract, contract, prop, internal
from pyvc.models import std
from pyvc.spec import And, Or, Not, Implies, Ite, eq

KEYS = ["a", "b", "c", "d", "e"]


class _Split(Contract):
    module = "fontTools.ttLib.tables.otTables"
    props = ("C06",)
    shadow_mode = "function"
    rebind = staticmethod(lambda: std("range", "len"))
    level = "PF"
    ATTR = None
    ITEM = None

    @property
    def variants(self):
        return tuple((n, where) for n in (2, 3, 5) for where in ("Coverage", "RangeRecord", self.ITEM))

    def args(self, S, variant):
        n, where = variant
        old, new = SimpleNamespace(), SimpleNamespace()
        content = {k: ["v_" + k] for k in KEYS[:n]}
        # insertion order differs from sorted order on purpose
        setattr(old, self.ATTR, {k: content[k] for k in reversed(KEYS[:n])})
        rec = SimpleNamespace(itemName=where, itemIndex=S.int("itemIndex", 2, n) if where == self.ITEM else None)
        return dict(oldSubTable=old, newSubTable=new, overflowRecord=rec, _content=content, _n=n)

    @classmethod
    def _post(cls, a, r):
        o, nw = getattr(a.oldSubTable, cls.ATTR), getattr(a.newSubTable, cls.ATTR)
        if set(o) & set(nw):
            return False
        merged = dict(o)
        merged.update(nw)
        return bool(r) and merged == a._content and len(nw) >= 1 and (len(o) >= 1 or a._n < 2)

    @property
    def ensures(self):
        return [prop("both-parts-together-are-the-original-rules-and-disjoint", lambda a, old, r, cls=type(self): cls._post(a, r))]


@contract
class SplitMultipleSubst(_Split):
    qualname = "splitMultipleSubst"
    ATTR, ITEM = "mapping", "Sequence"


@contract
class SplitAlternateSubst(_Split):
    qualname = "splitAlternateSubst"
    ATTR, ITEM = "alternates", "AlternateSet"


@contract
class SplitLigatureSubst(_Split):
    qualname = "splitLigatureSubst"
    ATTR, ITEM = "ligatures", "LigatureSet"


@contract
class FixSubTableOverFlows(Contract):
    """fixSubTableOverFlows on a lookup of 1..3 subtables (plain and Extension-wrapped), the split
    function replaced by a stub that reports success or failure: first call only marks the
    subtable DontShare; afterwards a successful split inserts the new (Extension-wrapped when the
    original was) subtable directly behind the split one - every other subtable keeps its place -
    and SubTableCount follows the list; a failed split leaves the list alone."""
    module = "fontTools.ttLib.tables.otTables"
    qualname = "fixSubTableOverFlows"
    props = ("C06",)
    shadow_mode = "function"
    level = "PF"
    variants = tuple((n, i, ext, first, ok) for n in (1, 2, 3) for i in range(3) if i < n for ext in (False, True)
                     for first in (True, False) for ok in (True, False) if not (first and not ok))

    def variants_for(self, tier):
        return tuple(v for v in self.variants if v[0] != 2) if tier == "quick" else self.variants

    def rebind(self):
        outer = self

        def split(oldSubTable, newSubTable, overflowRecord):
            outer._calls.append((oldSubTable, newSubTable))
            return outer._ok
        table = {"GSUB": {2: split, 7: split}}
        return {"splitTable": table}

    def args(self, S, variant):
        from fontTools.ttLib.tables import otTables as ot
        n, i, ext, first, ok = variant
        self._calls, self._ok = [], ok
        subs = []
        for k in range(n):
            st = ot.MultipleSubst()
            st.mapping = {"g%d" % k: ["x"]}
            if ext and k == i:
                e = ot.ExtensionSubst()
                e.Format, e.ExtSubTable = 1, st
                st = e
            if k == i and not first:
                st.DontShare = True
            subs.append(st)
        lookup = SimpleNamespace(SubTable=list(subs), SubTableCount=n)
        font = {"GSUB": SimpleNamespace(table=SimpleNamespace(LookupList=SimpleNamespace(Lookup=[lookup])))}
        rec = SimpleNamespace(tableType="GSUB", LookupListIndex=0, SubTableIndex=i, itemName="Coverage", itemIndex=None)
        return dict(ttf=font, overflowRecord=rec, _lookup=lookup, _subs=subs, _v=variant)

    def call(self, f, a):
        r = f(a.ttf, a.overflowRecord)
        a._calls = list(self._calls)
        return r

    @staticmethod
    def _post(a, r):
        from fontTools.ttLib.tables import otTables as ot
        n, i, ext, first, ok = a._v
        now = a._lookup.SubTable
        if first:
            return r is True and now == a._subs and a._subs[i].DontShare is True and not a._calls and a._lookup.SubTableCount == n
        if not ok:
            return not r and now == a._subs
        if len(now) != n + 1 or now[:i + 1] != a._subs[:i + 1] or now[i + 2:] != a._subs[i + 1:]:
            return False
        new = now[i + 1]
        inner_old = a._subs[i].ExtSubTable if ext else a._subs[i]
        if ext:
            if not isinstance(new, ot.ExtensionSubst) or new.Format != 1 or not isinstance(new.ExtSubTable, ot.MultipleSubst):
                return False
            inner_new = new.ExtSubTable
        else:
            if not isinstance(new, ot.MultipleSubst):
                return False
            inner_new = new
        return bool(r) and a._calls == [(inner_old, inner_new)] and a._lookup.SubTableCount == n + 1

    ensures = [prop("new-subtable-directly-behind-the-split-one", lambda a, old, r: FixSubTableOverFlows._post(a, r))]
