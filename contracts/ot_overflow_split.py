"""Offset-overflow resolution by subtable splitting (C06): the split functions move a tail of
the rules into a new subtable - together the two subtables express exactly the rules of the
original, with disjoint first glyphs (so the order of the two does not matter for lookup) - and
fixSubTableOverFlows puts the new subtable directly behind the one it was split from, leaving
every other subtable of the lookup in place."""
from types import SimpleNamespace

from pyvc.core import Contract, contract, prop, internal
from pyvc.models import std
from pyvc.spec import And, Or, Not, Implies, Ite, eq

KEYS = ["a", "b", "c", "d", "e"]


class _Split(Contract):
    module = "fontTools.ttLib.tables.otTables"
    props = ("C06",)
    shadow_mode = "function"
    rebind = staticmethod(lambda: std("range", "len"))
    level = "PF"
    ATTR = None
    ITEM = None

    @property
    def variants(self):
        return tuple((n, where) for n in (2, 3, 5) for where in ("Coverage", "RangeRecord", self.ITEM))

    def args(self, S, variant):
        n, where = variant
        old, new = SimpleNamespace(), SimpleNamespace()
        content = {k: ["v_" + k] for k in KEYS[:n]}
        # insertion order differs from sorted order on purpose
        setattr(old, self.ATTR, {k: content[k] for k in reversed(KEYS[:n])})
        rec = SimpleNamespace(itemName=where, itemIndex=S.int("itemIndex", 2, n) if where == self.ITEM else None)
        return dict(oldSubTable=old, newSubTable=new, overflowRecord=rec, _content=content, _n=n)

    @classmethod
    def _post(cls, a, r):
        o, nw = getattr(a.oldSubTable, cls.ATTR), getattr(a.newSubTable, cls.ATTR)
        if set(o) & set(nw):
            return False
        merged = dict(o)
        merged.update(nw)
        return bool(r) and merged == a._content and len(nw) >= 1 and (len(o) >= 1 or a._n < 2)

    @property
    def ensures(self):
        return [prop("both-parts-together-are-the-original-rules-and-disjoint", lambda a, old, r, cls=type(self): cls._post(a, r))]


@contract
class SplitMultipleSubst(_Split):
    qualname = "splitMultipleSubst"
    ATTR, ITEM = "mapping", "Sequence"


@contract
class SplitAlternateSubst(_Split):
    qualname = "splitAlternateSubst"
    ATTR, ITEM = "alternates", "AlternateSet"


@contract
class SplitLigatureSubst(_Split):
    qualname = "splitLigatureSubst"
    ATTR, ITEM = "ligatures", "LigatureSet"


@contract
class FixSubTableOverFlows(Contract):
    """fixSubTableOverFlows on a lookup of 1..3 subtables (plain and Extension-wrapped), the split
    function replaced by a stub that reports success or failure: first call only marks the
    subtable DontShare; afterwards a successful split inserts the new (Extension-wrapped when the
    original was) subtable directly behind the split one - every other subtable keeps its place -
    and SubTableCount follows the list; a failed split leaves the list alone."""
    module = "fontTools.ttLib.tables.otTables"
    qualname = "fixSubTableOverFlows"
    props = ("C06",)
    shadow_mode = "function"
    level = "PF"
    variants = tuple((n, i, ext, first, ok) for n in (1, 2, 3) for i in range(3) if i < n for ext in (False, True)
                     for first in (True, False) for ok in (True, False) if not (first and not ok))

    def variants_for(self, tier):
        return tuple(v for v in self.variants if v[0] != 2) if tier == "quick" else self.variants

    def rebind(self):
        outer = self

        def split(oldSubTable, newSubTable, overflowRecord):
            outer._calls.append((oldSubTable, newSubTable))
            return outer._ok
        table = {"GSUB": {2: split, 7: split}}
        return {"splitTable": table}

    def args(self, S, variant):
        from fontTools.ttLib.tables import otTables as ot
        n, i, ext, first, ok = variant
        self._calls, self._ok = [], ok
        subs = []
        for k in range(n):
            st = ot.MultipleSubst()
            st.mapping = {"g%d" % k: ["x"]}
            if ext and k == i:
                e = ot.ExtensionSubst()
                e.Format, e.ExtSubTable = 1, st
                st = e
            if k == i and not first:
                st.DontShare = True
            subs.append(st)
        lookup = SimpleNamespace(SubTable=list(subs), SubTableCount=n)
        font = {"GSUB": SimpleNamespace(table=SimpleNamespace(LookupList=SimpleNamespace(Lookup=[lookup])))}
        rec = SimpleNamespace(tableType="GSUB", LookupListIndex=0, SubTableIndex=i, itemName="Coverage", itemIndex=None)
        return dict(ttf=font, overflowRecord=rec, _lookup=lookup, _subs=subs, _v=variant)

    def call(self, f, a):
        r = f(a.ttf, a.overflowRecord)
        a._calls = list(self._calls)
        return r

    @staticmethod
    def _post(a, r):
        from fontTools.ttLib.tables import otTables as ot
        n, i, ext, first, ok = a._v
        now = a._lookup.SubTable
        if first:
            return r is True and now == a._subs and a._subs[i].DontShare is True and not a._calls and a._lookup.SubTableCount == n
        if not ok:
            return not r and now == a._subs
        if len(now) != n + 1 or now[:i + 1] != a._subs[:i + 1] or now[i + 2:] != a._subs[i + 1:]:
            return False
        new = now[i + 1]
        inner_old = a._subs[i].ExtSubTable if ext else a._subs[i]
        if ext:
            if not isinstance(new, ot.ExtensionSubst) or new.Format != 1 or not isinstance(new.ExtSubTable, ot.MultipleSubst):
                return False
            inner_new = new.ExtSubTable
        else:
            if not isinstance(new, ot.MultipleSubst):
                return False
            inner_new = new
        return bool(r) and a._calls == [(inner_old, inner_new)] and a._lookup.SubTableCount == n + 1

    ensures = [prop("new-subtable-directly-behind-the-split-one", lambda a, old, r: FixSubTableOverFlows._post(a, r))]


# -- GPOS splits ----------------------------------------------------------------------------------

def _cov(ot, glyphs):
    c = ot.Coverage()
    c.glyphs = list(glyphs)
    return c


@contract
class SplitSinglePos(Contract):
    """splitSinglePos (format 2): every covered glyph keeps its Value in exactly one of the two
    parts; coverage and value arrays stay paired and counted; format 1 or a single glyph is refused."""
    module = "fontTools.ttLib.tables.otTables"
    qualname = "splitSinglePos"
    props = ("C06",)
    shadow_mode = "real"
    variants = (("f2", 2), ("f2", 3), ("f2", 5), ("f2", 1), ("f1", 3))
    level = "PF"

    def args(self, S, variant):
        from fontTools.ttLib.tables import otTables as ot
        fmt, n = variant
        st = ot.SinglePos()
        st.Format = 2 if fmt == "f2" else 1
        st.ValueFormat = 4
        st.Coverage = _cov(ot, KEYS[:n])
        st.Value = ["V" + k for k in KEYS[:n]] if fmt == "f2" else "V"
        st.ValueCount = n
        return dict(oldSubTable=st, newSubTable=ot.SinglePos(), overflowRecord=None, _n=n, _fmt=fmt)

    @staticmethod
    def _post(a, r):
        o, nw = a.oldSubTable, a.newSubTable
        if a._fmt == "f1" or a._n <= 1:
            return r is False and o.Coverage.glyphs == KEYS[:a._n]
        pairs = list(zip(o.Coverage.glyphs, o.Value)) + list(zip(nw.Coverage.glyphs, nw.Value))
        return (r is True and sorted(pairs) == [(k, "V" + k) for k in KEYS[:a._n]] and o.Coverage.glyphs and nw.Coverage.glyphs
                and o.ValueCount == len(o.Value) == len(o.Coverage.glyphs) and nw.ValueCount == len(nw.Value) == len(nw.Coverage.glyphs)
                and nw.Format == 2 and nw.ValueFormat == 4)

    ensures = [prop("every-glyph-keeps-its-value-in-exactly-one-part", lambda a, old, r: SplitSinglePos._post(a, r))]


@contract
class SplitPairPosFormat2(Contract):
    """splitPairPos, class-based format: for EVERY assignment of first-glyph classes (symbolic,
    0..3, one covered glyph left to the implicit class 0) the value looked up for a (first glyph,
    second class) pair is the same before and after, in exactly one of the two parts - class
    numbers of the moved half are renumbered consistently in ClassDef1 and Class1Record."""
    module = "fontTools.ttLib.tables.otTables"
    qualname = "splitPairPos"
    props = ("C06",)
    shadow_mode = "real"
    variants = (4, 3, 2)
    level = "PF"
    max_paths = 20000

    def args(self, S, variant):
        from fontTools.ttLib.tables import otTables as ot
        nclass = variant
        st = ot.PairPos()
        st.Format = 2
        st.ValueFormat1, st.ValueFormat2 = 4, 0
        glyphs = ["a", "b", "c", "z"]
        st.Coverage = _cov(ot, glyphs)
        st.ClassDef1 = ot.ClassDef()
        classes = {g: S.int("class_" + g, 1, nclass - 1) for g in glyphs[:3]} if nclass > 1 else {}
        st.ClassDef1.classDefs = dict(classes)
        st.ClassDef2 = ot.ClassDef()
        st.ClassDef2.classDefs = {"x": 1}
        st.Class1Record = []
        for c1 in range(nclass):
            rec = ot.Class1Record()
            rec.Class2Record = ["val_%d_%d" % (c1, c2) for c2 in range(2)]
            st.Class1Record.append(rec)
        st.Class1Count, st.Class2Count = nclass, 2
        return dict(oldSubTable=st, newSubTable=ot.PairPos(), overflowRecord=None, _glyphs=glyphs, _classes=classes, _nclass=nclass)

    @staticmethod
    def _lookup(st, g):
        """Class1Record row used for first glyph g by an OpenType reader, or None when not covered"""
        if g not in st.Coverage.glyphs:
            return None
        k = st.ClassDef1.classDefs.get(g, 0)
        kc = k if isinstance(k, int) else k.concrete()
        if kc is None:
            kc = k.__index__()
        return st.Class1Record[kc].Class2Record

    @staticmethod
    def _post(a, r):
        o, nw = a.oldSubTable, a.newSubTable
        if not r:
            return False
        for g in a._glyphs:
            c = a._classes.get(g, 0)
            cc = c if isinstance(c, int) else c.__index__()
            want = ["val_%d_%d" % (cc, c2) for c2 in range(2)]
            rows = [x for x in (SplitPairPosFormat2._lookup(o, g), SplitPairPosFormat2._lookup(nw, g)) if x is not None]
            if rows != [want]:
                return False
        return (o.Class1Count == len(o.Class1Record) >= 1 and nw.Class1Count == len(nw.Class1Record) >= 1
                and nw.Class2Count == 2 and nw.ClassDef2 is o.ClassDef2 and nw.Format == 2)

    ensures = [prop("pair-values-unchanged-in-exactly-one-part", lambda a, old, r: SplitPairPosFormat2._post(a, r))]


@contract
class SplitPairPosFormat1(Contract):
    module = "fontTools.ttLib.tables.otTables"
    qualname = "splitPairPos"
    props = ("C06",)
    shadow_mode = "real"
    variants = (2, 3, 5, 1)
    level = "PF"

    def args(self, S, variant):
        from fontTools.ttLib.tables import otTables as ot
        n = variant
        st = ot.PairPos()
        st.Format = 1
        st.ValueFormat1, st.ValueFormat2 = 4, 0
        st.Coverage = _cov(ot, KEYS[:n])
        st.PairSet = ["PS" + k for k in KEYS[:n]]
        st.PairSetCount = n
        return dict(oldSubTable=st, newSubTable=ot.PairPos(), overflowRecord=None, _n=n)

    ensures = [prop("every-first-glyph-keeps-its-pair-set-in-exactly-one-part", lambda a, old, r: (
        (r is False and a.oldSubTable.PairSet == ["PS" + k for k in KEYS[:a._n]]) if a._n < 2 else (
            bool(r) and sorted(list(zip(a.oldSubTable.Coverage.glyphs, a.oldSubTable.PairSet)) + list(zip(a.newSubTable.Coverage.glyphs, a.newSubTable.PairSet)))
            == [(k, "PS" + k) for k in KEYS[:a._n]]
            and a.oldSubTable.PairSetCount == len(a.oldSubTable.PairSet) >= 1 and a.newSubTable.PairSetCount == len(a.newSubTable.PairSet) >= 1)))]


@contract
class SplitMarkBasePos(Contract):
    """splitMarkBasePos: for every assignment of mark classes (symbolic) every (mark glyph, base
    glyph) pair finds, in exactly one of the two parts, the same mark record and the same base
    anchor as before (mark classes of the moved half renumbered together with the BaseAnchor
    columns); fewer than two classes are refused."""
    module = "fontTools.ttLib.tables.otTables"
    qualname = "splitMarkBasePos"
    props = ("C06",)
    shadow_mode = "real"
    variants = (2, 3, 4, 1)
    level = "PF"
    max_paths = 20000

    def args(self, S, variant):
        from fontTools.ttLib.tables import otTables as ot
        ncls = variant
        st = ot.MarkBasePos()
        st.Format = 1
        marks = ["m0", "m1", "m2"]
        st.MarkCoverage = _cov(ot, marks)
        st.BaseCoverage = _cov(ot, ["B0", "B1"])
        st.ClassCount = ncls
        st.MarkArray = ot.MarkArray()
        st.MarkArray.MarkRecord = []
        classes = []
        for i, m in enumerate(marks):
            mr = ot.MarkRecord()
            mr.Class = S.int("class_" + m, 0, ncls - 1)
            mr.MarkAnchor = "anchor_" + m
            classes.append(mr.Class)
            st.MarkArray.MarkRecord.append(mr)
        st.MarkArray.MarkCount = 3
        st.BaseArray = ot.BaseArray()
        st.BaseArray.BaseRecord = []
        for b in range(2):
            br = ot.BaseRecord()
            br.BaseAnchor = ["base%d_class%d" % (b, k) for k in range(ncls)]
            st.BaseArray.BaseRecord.append(br)
        st.BaseArray.BaseCount = 2
        return dict(oldSubTable=st, newSubTable=ot.MarkBasePos(), overflowRecord=None, _marks=marks, _classes=classes, _ncls=ncls)

    @staticmethod
    def _attach(st, m, b):
        if m not in st.MarkCoverage.glyphs:
            return None
        mr = st.MarkArray.MarkRecord[st.MarkCoverage.glyphs.index(m)]
        k = mr.Class if isinstance(mr.Class, int) else mr.Class.__index__()
        if k >= st.ClassCount:
            return ("class out of range",)
        return (mr.MarkAnchor, st.BaseArray.BaseRecord[b].BaseAnchor[k])

    @staticmethod
    def _post(a, old, r):
        o, nw = a.oldSubTable, a.newSubTable
        if a._ncls < 2:
            return r is False
        if not r:
            return False
        for m, c in zip(a._marks, old._classes):
            k = c if isinstance(c, int) else c.__index__()
            for b in range(2):
                want = ("anchor_" + m, "base%d_class%d" % (b, k))
                got = [x for x in (SplitMarkBasePos._attach(o, m, b), SplitMarkBasePos._attach(nw, m, b)) if x is not None]
                if got != [want]:
                    return False
        return (o.ClassCount + nw.ClassCount == a._ncls and o.ClassCount >= 1 and nw.ClassCount >= 1
                and all(len(br.BaseAnchor) == o.ClassCount for br in o.BaseArray.BaseRecord)
                and all(len(br.BaseAnchor) == nw.ClassCount for br in nw.BaseArray.BaseRecord)
                and o.MarkArray.MarkCount == len(o.MarkArray.MarkRecord) == len(o.MarkCoverage.glyphs)
                and nw.MarkArray.MarkCount == len(nw.MarkArray.MarkRecord) == len(nw.MarkCoverage.glyphs)
                and nw.BaseCoverage.glyphs == o.BaseCoverage.glyphs)

    ensures = [prop("every-mark-base-attachment-unchanged-in-exactly-one-part", lambda a, old, r: SplitMarkBasePos._post(a, old, r))]
