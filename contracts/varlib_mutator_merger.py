"""MutatorMerger handlers (C08): folding the instance's deltas into GPOS value records, anchors and
GDEF caret values.  Each coordinate gets the rounded delta of ITS OWN variation device and of no
other; with deleteVariations every device is gone afterwards, without it every device stays."""
from pyvc.core import Contract, contract, prop, internal
from pyvc.spec import And, Or, Not, Implies, Ite, eq

PAIRS = (("XPlacement", "XPlaDevice"), ("YPlacement", "YPlaDevice"), ("XAdvance", "XAdvDevice"), ("YAdvance", "YAdvDevice"))


class _Instancer:
    """instancer[varidx] as given numbers: one integer delta per variation index"""

    def __init__(self, deltas):
        self.deltas = deltas
        self.asked = []

    def __getitem__(self, varidx):
        self.asked.append(varidx)
        return self.deltas[varidx]


class _Merger:
    def __init__(self, instancer, deleteVariations):
        self.instancer, self.deleteVariations = instancer, deleteVariations


class _IntModel:
    """the real otRound body (int(math.floor(v + .5))) runs with `int` bound to the verifier's model in
    fontTools.misc.roundTools for the duration of a run"""

    def setup(self):
        from pyvc.models import std
        import fontTools.misc.roundTools as rt
        self._saved_int = rt.__dict__.get("int", None)
        rt.int = std("int")["int"]

    def teardown(self):
        import fontTools.misc.roundTools as rt
        if self._saved_int is None:
            rt.__dict__.pop("int", None)
        else:
            rt.int = self._saved_int


def _device(varidx):
    from fontTools.ttLib.tables import otTables as ot
    d = ot.Device()
    d.DeltaFormat, d.StartSize, d.EndSize = 0x8000, varidx >> 16, varidx & 0xFFFF
    return d


def _masks(n):
    return tuple(tuple(bool(m >> i & 1) for i in range(n)) for m in range(2 ** n))


@contract
class MutatorMergeValueRecord(_IntModel, Contract):
    """For every subset of the four fields carrying a variation device (and one field whose
    device attribute is None), symbolic values and symbolic integer deltas."""
    module = "fontTools.varLib.merger"
    qualname = "merge@MutatorMerger.merger(otBase.ValueRecord)"
    props = ("C08",)
    shadow_mode = "real"
    variants = tuple((mask, dele) for mask in _masks(4) for dele in (True, False))
    level = "PF"
    assumptions = ("instancer[varidx] is an integer here (otRound of a fraction is under contract in OtRound)",)

    def args(self, S, variant):
        from fontTools.ttLib.tables.otBase import ValueRecord
        mask, dele = variant
        src, out = ValueRecord(), ValueRecord()
        vals, deltas = {}, {}
        for k, ((name, dev), has) in enumerate(zip(PAIRS, mask)):
            if has or k % 2 == 0:
                vals[name] = S.int("v_" + name, -20000, 20000)
                setattr(src, name, vals[name])
            if has:
                varidx = (k + 1 << 16) + 7 * k
                deltas[name] = (varidx, S.int("delta_" + name, -9000, 9000))
                setattr(src, dev, _device(varidx))
        if not mask[3]:
            src.YAdvDevice = None            # a present-but-empty device attribute
        inst = _Instancer({vi: d for vi, d in deltas.values()})
        return dict(merger=_Merger(inst, dele), self=out, lst=[src], _vals=vals, _deltas=deltas, _dele=dele, _mask=mask)

    def call(self, f, a):
        f(a.merger, a.self, a.lst)
        return a.self

    @staticmethod
    def _post(a, r):
        cs = []
        for (name, dev), has in zip(PAIRS, a._mask):
            old = a._vals.get(name, 0)
            want = old + a._deltas[name][1] if has else old
            if has or name in a._vals:
                if not hasattr(r, name):
                    return False
                cs.append(eq(getattr(r, name), want))
            else:
                cs.append(not hasattr(r, name) or eq(getattr(r, name), 0))
            if a._dele:
                cs.append(not hasattr(r, dev))
            elif has:
                cs.append(getattr(r, dev, None) is getattr(a.lst[0], dev))
        return And(*cs)

    ensures = [prop("each-field-gets-the-delta-of-its-own-device", lambda a, old, r: MutatorMergeValueRecord._post(a, r)),
               internal("each-device-looked-up-once", lambda a, old, r: sorted(a.merger.instancer.asked) == sorted(vi for vi, _ in a._deltas.values()))]


@contract
class MutatorMergeAnchor(_IntModel, Contract):
    """Anchor format 3 with an X and/or Y variation device; formats 1 and 2 are left alone."""
    module = "fontTools.varLib.merger"
    qualname = "merge@MutatorMerger.merger(ot.Anchor)"
    props = ("C08",)
    shadow_mode = "real"
    variants = tuple((fmt, mask, dele) for fmt, masks in ((3, _masks(2)), (1, ((False, False),)), (2, ((False, False),))) for mask in masks for dele in (True, False))
    level = "PF"
    assumptions = MutatorMergeValueRecord.assumptions

    def args(self, S, variant):
        from fontTools.ttLib.tables import otTables as ot
        fmt, mask, dele = variant
        src, out = ot.Anchor(), ot.Anchor()
        src.Format = fmt
        src.XCoordinate, src.YCoordinate = S.int("x", -20000, 20000), S.int("y", -20000, 20000)
        if fmt == 2:
            src.AnchorPoint = 3
        deltas = {}
        if fmt == 3:
            for k, (v, has) in enumerate(zip("XY", mask)):
                if has:
                    varidx = (k + 2 << 16) + 5
                    deltas[v] = (varidx, S.int("delta_" + v, -9000, 9000))
                    setattr(src, v + "DeviceTable", _device(varidx))
                else:
                    setattr(src, v + "DeviceTable", None)
        inst = _Instancer({vi: d for vi, d in deltas.values()})
        return dict(merger=_Merger(inst, dele), self=out, lst=[src], _xy=(src.XCoordinate, src.YCoordinate), _deltas=deltas, _v=variant)

    def call(self, f, a):
        f(a.merger, a.self, a.lst)
        return a.self

    @staticmethod
    def _post(a, r):
        fmt, mask, dele = a._v
        cs = []
        for v, old in zip("XY", a._xy):
            cs.append(eq(getattr(r, v + "Coordinate"), old + (a._deltas[v][1] if v in a._deltas else 0)))
        if fmt != 3:
            return And(r.Format == fmt, getattr(r, "AnchorPoint", None) == (3 if fmt == 2 else None), *cs)
        if dele:
            cs += [r.Format == 1, not hasattr(r, "XDeviceTable"), not hasattr(r, "YDeviceTable")]
        else:
            cs += [r.Format == 3] + [getattr(r, v + "DeviceTable") is getattr(a.lst[0], v + "DeviceTable") for v in "XY"]
        return And(*cs)

    ensures = [prop("each-coordinate-gets-the-delta-of-its-own-device", lambda a, old, r: MutatorMergeAnchor._post(a, r))]


@contract
class MutatorMergeCaretValue(_IntModel, Contract):
    """CaretValue / BaseCoord format 3; other formats are left alone."""
    module = "fontTools.varLib.merger"
    qualname = "merge@MutatorMerger.merger((ot.CaretValue, ot.BaseCoord))"
    props = ("C08",)
    shadow_mode = "real"
    variants = tuple((cls, fmt, has, dele) for cls in ("CaretValue", "BaseCoord") for fmt, has in ((3, True), (3, False), (1, False)) for dele in (True, False))
    level = "PF"
    assumptions = MutatorMergeValueRecord.assumptions

    def args(self, S, variant):
        from fontTools.ttLib.tables import otTables as ot
        cls, fmt, has, dele = variant
        src, out = getattr(ot, cls)(), getattr(ot, cls)()
        src.Format = fmt
        src.Coordinate = S.int("c", -20000, 20000)
        delta = None
        if fmt == 3:
            if has:
                delta = S.int("delta", -9000, 9000)
                src.DeviceTable = _device(0x30009)
            else:
                src.DeviceTable = None
        inst = _Instancer({0x30009: delta})
        return dict(merger=_Merger(inst, dele), self=out, lst=[src], _c=src.Coordinate, _delta=delta, _v=variant)

    def call(self, f, a):
        f(a.merger, a.self, a.lst)
        return a.self

    @staticmethod
    def _post(a, r):
        cls, fmt, has, dele = a._v
        cs = [eq(r.Coordinate, a._c + (a._delta if has else 0))]
        if fmt == 3 and dele:
            cs += [r.Format == 1, not hasattr(r, "DeviceTable")]
        else:
            cs += [r.Format == fmt]
            if fmt == 3:
                cs.append(r.DeviceTable is a.lst[0].DeviceTable)
        return And(*cs)

    ensures = [prop("coordinate-gets-the-delta-of-its-device", lambda a, old, r: MutatorMergeCaretValue._post(a, r))]


class _Model:
    """VariationModel.interpolateFromValuesAndScalars through its contract (VariationModel
    contracts in varlib_models.py): the scalar-weighted sum"""

    @staticmethod
    def interpolateFromValuesAndScalars(values, scalars):
        assert len(values) == len(scalars)
        return sum(v * s for v, s in zip(values, scalars))


class _InstMerger:
    def __init__(self, scalars):
        self.model, self.masterScalars = _Model(), scalars


@contract
class InstancerMergeValueRecord(_IntModel, Contract):
    """InstancerMerger (building a static instance from masters): every field present in the
    output record is the rounded interpolation of THAT field over the masters, a master
    lacking the field counting as 0; fields absent from the output stay absent."""
    module = "fontTools.varLib.merger"
    qualname = "merge@InstancerMerger.merger(otBase.ValueRecord)"
    props = ("C08", "C10")
    shadow_mode = "real"
    variants = _masks(4)
    level = "PF"
    assumptions = ("VariationModel.interpolateFromValuesAndScalars is used through its contract (the scalar-weighted sum), with integer scalars",)

    def args(self, S, variant):
        from fontTools.ttLib.tables.otBase import ValueRecord
        out, masters = ValueRecord(), [ValueRecord(), ValueRecord(), ValueRecord()]
        vals = {}
        for k, ((name, _), has) in enumerate(zip(PAIRS, variant)):
            if has:
                setattr(out, name, 0)
            for m, rec in enumerate(masters):
                if (m + k) % 3 != 2:             # every field is missing from one of the masters
                    vals[(name, m)] = S.int("%s_m%d" % (name, m), -20000, 20000)
                    setattr(rec, name, vals[(name, m)])
        return dict(merger=_InstMerger([1, 3, -2]), self=out, lst=masters, _vals=vals, _mask=variant)

    def call(self, f, a):
        f(a.merger, a.self, a.lst)
        return a.self

    @staticmethod
    def _post(a, r):
        cs = []
        for (name, dev), has in zip(PAIRS, a._mask):
            if not has:
                cs.append(not hasattr(r, name))
                continue
            want = sum(a._vals.get((name, m), 0) * s for m, s in enumerate(a.merger.masterScalars))
            cs.append(eq(getattr(r, name), want))
            cs.append(not hasattr(r, dev))
        return And(*cs)

    ensures = [prop("each-field-interpolates-its-own-master-values", lambda a, old, r: InstancerMergeValueRecord._post(a, r))]
