"""CFF charset and FDSelect packing (C12, C02): packCharset0 / packCharset (formats 1 and 2, chosen
by the packer) read back by parseCharset0 / parseCharset, and packFDSelect0 / 3 / 4 read back by
FDSelect, give the same glyph names / font-dict indices, with the format byte the reader
dispatches on, for a fixed family of 3000 glyph-name lists (runs of consecutive SIDs of every
length up to 11, jumps, reversals) and 3000 FD index lists (runs over four dicts, up to 20
glyphs).  The readers are fontTools' own: this ties each writer to its reader, it does not
check either against the CFF specification."""
import io
import random

from pyvc.core import Contract, contract, prop


class _Strings:
    def __init__(self):
        self.d, self.l = {}, []

    def getSID(self, s):
        if s not in self.d:
            self.d[s] = 391 + len(self.l)
            self.l.append(s)
        return self.d[s]

    def __getitem__(self, i):
        return self.l[i - 391]


@contract
class CFFCharsetRoundTrip(Contract):
    module = "fontTools.cffLib"
    qualname = "packCharset"
    props = ("C12", "C02")
    shadow_mode = "real"
    level = "PF"
    assumptions = ("token-valued: 3000 glyph-name lists from a fixed pseudo-random sequence (seed 13), both packers each",)

    def args(self, S, variant):
        return {}

    def call(self, f, a):
        from fontTools.cffLib import packCharset0, parseCharset0, parseCharset
        rnd = random.Random(13)
        pool = ["n%03d" % i for i in range(40)]
        bad, n, formats = [], 0, set()
        for t in range(3000):
            strings = _Strings()
            for p in pool:
                strings.getSID(p)
            k, names, start = rnd.randint(1, 12), [".notdef"], rnd.randint(0, 20)
            while len(names) < k:
                start = start + 1 if rnd.random() < 0.7 else rnd.randint(0, 39)
                nm = pool[start % 40]
                if nm not in names:
                    names.append(nm)
            for packer in (packCharset0, f):
                data = packer(names, False, strings)
                fmt = data[0]
                formats.add((packer is f, fmt))
                fh = io.BytesIO(data[1:])
                got = parseCharset0(len(names), fh, strings, False) if fmt == 0 else parseCharset(len(names), fh, strings, False, fmt)
                n += 1
                if got != names or fh.read() != b"" or (packer is packCharset0) != (fmt == 0):
                    bad.append((fmt, names, got))
        return n, bad[:4], sorted(formats)

    ensures = [prop("names-read-back", lambda a, old, r: r[0] == 6000 and not r[1] and (True, 1) in r[2])]


@contract
class CFFFDSelectRoundTrip(Contract):
    module = "fontTools.cffLib"
    qualname = "packFDSelect3"
    props = ("C12", "C02")
    shadow_mode = "real"
    level = "PF"
    assumptions = ("token-valued: 3000 FD index lists from a fixed pseudo-random sequence (seed 17), three packers each",)

    def args(self, S, variant):
        return {}

    def call(self, f, a):
        from fontTools.cffLib import packFDSelect0, packFDSelect4, FDSelect
        rnd = random.Random(17)
        bad, n = [], 0
        for t in range(3000):
            sel, cur = [], rnd.randint(0, 3)
            for i in range(rnd.randint(1, 20)):
                if rnd.random() < 0.3:
                    cur = rnd.randint(0, 3)
                sel.append(cur)
            for packer, fmt in ((packFDSelect0, 0), (f, 3), (packFDSelect4, 4)):
                data = packer(sel)
                fh = io.BytesIO(data)
                fs = FDSelect(fh, len(sel))
                n += 1
                if list(fs.gidArray) != sel or fs.format != fmt or fh.read() != b"":
                    bad.append((fmt, sel, list(fs.gidArray)))
        return n, bad[:4]

    ensures = [prop("indices-read-back", lambda a, old, r: r[0] == 9000 and not r[1])]
