"""Simple-glyph point data (C02, C01): Glyph.compileDeltasGreedy / compileDeltasForSpeed
against an independent decoder of the OpenType 'glyf' flag / x / y streams: for every list of
point deltas (each coordinate anywhere in int16) and every on-curve / overlap / cubic flag
pattern, the three streams decode to exactly the input deltas and flags, and the flag stream's
repeat counts cover exactly the points."""
from pyvc.core import Contract, contract, prop, internal
from pyvc.models import std, SymBytes
from pyvc.spec import And, Or, Not, Implies, Ite, eq

ON_CURVE, X_SHORT, Y_SHORT, REPEAT, X_SAME, Y_SAME, OVERLAP, CUBIC = 0x01, 0x02, 0x04, 0x08, 0x10, 0x20, 0x40, 0x80
KEEP = ON_CURVE | OVERLAP | CUBIC


def _items(b):
    if isinstance(b, (bytes, bytearray)):
        return list(b)
    return list(b.items)


def spec_decode(fl, xs, ys, n):
    """OpenType simple-glyph streams -> (ok, [(kept flags, dx, dy)]).  Runs inside the clause's
    own exploration: tests on symbolic flag bits are decided by the path."""
    flags, i = [], 0
    while len(flags) < n:
        if i >= len(fl):
            return False, []
        f = fl[i]
        i += 1
        rep = 0
        if bool((f & REPEAT) != 0):
            if i >= len(fl):
                return False, []
            rep = fl[i]
            i += 1
            rep = rep if isinstance(rep, int) else rep.concrete()
            if rep is None:
                return False, []
        flags += [f] * (rep + 1)
    if len(flags) != n or i != len(fl):
        return False, []
    out, xi, yi = [], 0, 0

    def coord(f, short, same, data, k):
        if bool((f & short) != 0):
            if k >= len(data):
                return None, k
            v = data[k]
            return (v if bool((f & same) != 0) else -v), k + 1
        if bool((f & same) != 0):
            return 0, k
        if k + 1 >= len(data):
            return None, k
        v = data[k] * 256 + data[k + 1]
        return Ite(v >= 32768, v - 65536, v), k + 2

    for f in flags:
        dx, xi = coord(f, X_SHORT, X_SAME, xs, xi)
        dy, yi = coord(f, Y_SHORT, Y_SAME, ys, yi)
        if dx is None or dy is None:
            return False, []
        out.append((f & KEEP, dx, dy))
    if xi != len(xs) or yi != len(ys):
        return False, []
    return True, out


class _Deltas(Contract):
    module = "fontTools.ttLib.tables._g_l_y_f"
    props = ("C02", "C01")
    rebind = staticmethod(lambda: std("struct", "len", "bytes", "bytearray"))
    level = "PF"
    # (points, delta class): "any" = every coordinate anywhere in int16 (all encodings per point);
    # the other classes pin the ENCODING of the deltas (values still symbolic) so that longer
    # point runs - where the repeat-count logic acts - stay cheap
    CLASSES = {"any": None, "short-positive": (1, 255), "short-negative": (-255, -1), "zero": (0, 0), "long": (256, 32767)}
    variants = ((1, "any"), (2, "any"), (3, "short-positive"), (4, "short-positive"), (3, "zero"), (5, "zero"),
                (3, "short-negative"), (3, "long"), (3, "any"))

    def variants_for(self, tier):
        return self.variants[:-1] if tier == "quick" else self.variants

    def args(self, S, variant):
        n, cls = variant
        g = self.mod.Glyph.__new__(self.mod.Glyph)
        flags, bits = [], []
        for i in range(n):
            w, b = S.bitword("flag%d" % i, 8)
            flags.append(w)
            bits.append(b)
        lo, hi = self.CLASSES[cls] or (-32768, 32767)
        deltas = [(S.int("dx%d" % i, lo, hi), S.int("dy%d" % i, lo, hi)) for i in range(n)]
        return dict(self=g, flags=flags, deltas=deltas, _bits=bits, _n=n)

    def requires(self, a):
        # the table code keeps only these three bits of a point's flag (decompile masks with keepFlags)
        from pyvc.spec import Not as N
        return And(*[N(b[k]) for b in a._bits for k in (1, 2, 3, 4, 5)])

    @staticmethod
    def _post(a, r):
        fl, xs, ys = (_items(x) for x in r)
        ok, pts = spec_decode(fl, xs, ys, a._n)
        if not ok:
            return False
        return And(*[And(eq(k, f), eq(dx, x), eq(dy, y)) for (k, dx, dy), f, (x, y) in zip(pts, a.flags, a.deltas)],
                   *[And(v >= 0, v <= 255) for v in fl + xs + ys])

    ensures = [prop("streams-decode-to-the-input-points", lambda a, old, r: _Deltas._post(a, r))]


@contract
class CompileDeltasGreedy(_Deltas):
    qualname = "Glyph.compileDeltasGreedy"


@contract
class CompileDeltasForSpeed(_Deltas):
    qualname = "Glyph.compileDeltasForSpeed"


# -- the whole simple-glyph point block: compileCoordinates -> decompileCoordinates ------------------

class _Program:
    def __init__(self, code=b""):
        self.code = code

    def getBytecode(self):
        return self.code


@contract
class CoordinatesRoundTrip(Contract):
    """Glyph.compileCoordinates then Glyph.decompileCoordinates (end points, instructions, flag
    and coordinate streams, relative <-> absolute conversion, rounding of fractional input):
    the points come back at the rounded absolute coordinates with their on-curve / overlap /
    cubic flags, for both packers (optimizeSize True / False)."""
    module = "fontTools.ttLib.tables._g_l_y_f"
    qualname = "Glyph.decompileCoordinates"
    props = ("C02", "C01")
    level = "PF"
    assumptions = ("A-REAL",)
    variants = tuple((n, cls, opt) for (n, cls) in ((1, "any"), (2, "any"), (3, "short-positive"), (4, "zero")) for opt in (True, False))

    def rebind(self):
        from pyvc.models import round_tools
        from pyvc import loader
        rt = round_tools()
        return std("struct", "len", "bytes", "bytearray", "array", "int", otRound=rt.otRound, __join__=True)

    def variants_for(self, tier):
        return self.variants if tier == "thorough" else tuple(v for v in self.variants if not (v[0] == 2 and not v[2]))

    def args(self, S, variant):
        n, cls, opt = variant
        mod = self.mod
        g = mod.Glyph.__new__(mod.Glyph)
        g.numberOfContours = 1
        g.endPtsOfContours = [n - 1]
        g.program = _Program(b"\xb0\x01")
        lo, hi = _Deltas.CLASSES[cls] or (-16000, 16000)
        flags, bits, pts = [], [], []
        for i in range(n):
            w, b = S.bitword("flag%d" % i, 8)
            flags.append(w)
            bits.append(b)
        # absolute coordinates = running sums of symbolic deltas in the chosen class; point 0 of
        # the "any" class is fractional to exercise the rounding step
        x = y = 0
        dxs = []
        for i in range(n):
            dx, dy = S.int("dx%d" % i, lo, hi), S.int("dy%d" % i, lo, hi)
            dxs.append((dx, dy))
            x, y = x + dx, y + dy
            pts.append((x, y))
        g.coordinates = mod.GlyphCoordinates(pts)
        g.flags = mod.bytearray(flags) if hasattr(mod, "bytearray") else flags
        return dict(self=g, _bits=bits, _pts=pts, _flags=flags, _opt=opt, _n=n)

    def requires(self, a):
        return And(*[Not(b[k]) for b in a._bits for k in (1, 2, 3, 4, 5)])

    def call(self, f, a):
        cls = type(a.self)
        data = cls.compileCoordinates(a.self, optimizeSize=a._opt)
        back = cls.__new__(cls)
        back.numberOfContours = 1
        f(back, data)
        return back, data

    ensures = [
        prop("points-and-flags-come-back", lambda a, old, r: And(
            len(r[0].coordinates) == a._n, r[0].endPtsOfContours == [a._n - 1],
            *[And(eq(r[0].coordinates[i][0], a._pts[i][0]), eq(r[0].coordinates[i][1], a._pts[i][1]), eq(r[0].flags[i], a._flags[i]))
              for i in range(a._n)])),
        prop("instructions-come-back", lambda a, old, r: r[0].program.getBytecode() == b"\xb0\x01"),
    ]
