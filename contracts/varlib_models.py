"""Contracts on fontTools.varLib.models (C09, C05, C08, C10).

Spec functions are transcribed from the OpenType specification (default
normalisation, region scalar), not from the code.
"""
from pyvc.core import Contract, contract, prop, internal
from pyvc.spec import And, Or, Not, Implies, Ite, eq, div


# -- spec -------------------------------------------------------------------

def spec_normalize(v, l, d, u):
    """OpenType default normalisation (fvar): clamp to [l,u], then
    (v-d)/(d-l) below the default, (v-d)/(u-d) above, 0 at the default."""
    v = Ite(v < l, l, Ite(v > u, u, v))
    return Ite(v < d, div(v - d, d - l), Ite(v > d, div(v - d, u - d), 0))


def spec_normalize_extrapolate(v, l, d, u):
    """The same two linear pieces continued beyond [l,u]; a degenerate side
    (l == d or d == u) continues with the other side's slope."""
    return Ite(
        eq(l, u), 0,
        Ite(Or(And(v < d, Not(eq(l, d))), And(v > d, eq(u, d))),
            div(v - d, d - l),
            Ite(eq(v, d), 0, div(v - d, u - d))))


def spec_region_axis_scalar(v, lower, peak, upper):
    """OpenType region scalar for one axis (OT spec, 'Algorithm for
    interpolation of instance values')."""
    return Ite(
        Or(lower > peak, peak > upper), 1,
        Ite(And(lower < 0, upper > 0), 1,
            Ite(eq(peak, 0), 1,
                Ite(Or(v < lower, v > upper), 0,
                    Ite(eq(v, peak), 1,
                        Ite(v < peak, div(v - lower, peak - lower), div(upper - v, upper - peak)))))))


# -- normalizeValue -----------------------------------------------------------

@contract
class NormalizeValue(Contract):
    module = "fontTools.varLib.models"
    qualname = "normalizeValue"
    props = ("C09", "C05", "C08", "C10")
    variants = ("clamp", "extrapolate")

    def args(self, S, variant):
        return dict(v=S.real("v"), triple=(S.real("lower"), S.real("default"), S.real("upper")),
                    extrapolate=(variant == "extrapolate"))

    raises = {ValueError: lambda a: Not(And(a.triple[0] <= a.triple[1], a.triple[1] <= a.triple[2]))}

    ensures = [
        prop("equals-OT-default-normalisation",
             lambda a, old, r: eq(r, spec_normalize(a.v, *a.triple)) if not a.extrapolate
             else eq(r, spec_normalize_extrapolate(a.v, *a.triple))),
        prop("range", lambda a, old, r: And(-1 <= r, r <= 1) if not a.extrapolate else True),
        prop("anchors", lambda a, old, r: And(
            Implies(eq(a.v, a.triple[1]), eq(r, 0)),
            Implies(And(eq(a.v, a.triple[0]), a.triple[0] < a.triple[1]), eq(r, -1)),
            Implies(And(eq(a.v, a.triple[2]), a.triple[1] < a.triple[2]), eq(r, 1)))),
    ]


@contract
class NormalizeValueMonotone(Contract):
    """Two-run obligation: v1 <= v2 => normalizeValue(v1) <= normalizeValue(v2)."""
    module = "fontTools.varLib.models"
    qualname = "normalizeValue"
    props = ("C09", "C08")
    variants = ("clamp", "extrapolate")

    def args(self, S, variant):
        return dict(v1=S.real("v1"), v2=S.real("v2"),
                    triple=(S.real("lower"), S.real("default"), S.real("upper")),
                    extrapolate=(variant == "extrapolate"))

    def requires(self, a):
        return And(a.v1 <= a.v2, a.triple[0] <= a.triple[1], a.triple[1] <= a.triple[2])

    def call(self, f, a):
        return (f(a.v1, a.triple, a.extrapolate), f(a.v2, a.triple, a.extrapolate))

    ensures = [prop("monotone", lambda a, old, r: r[0] <= r[1])]


# -- supportScalar -------------------------------------------------------------

def _tent_args(S, pfx=""):
    return (S.real(pfx + "lower"), S.real(pfx + "peak"), S.real(pfx + "upper"))


@contract
class SupportScalarOT(Contract):
    """ot=True, no extrapolation: the product over axes of the OT region scalar.
    Shapes: 1 axis present / absent from the location, 2 axes (fold = product)."""
    module = "fontTools.varLib.models"
    qualname = "supportScalar"
    props = ("C09", "C05", "C08", "C10")
    variants = ("1axis", "1axis-missing", "2axes", "empty")
    level = "PF"

    def args(self, S, variant):
        if variant == "empty":
            return dict(location={"a": S.real("v")}, support={})
        if variant == "1axis":
            return dict(location={"a": S.real("v")}, support={"a": _tent_args(S)})
        if variant == "1axis-missing":
            return dict(location={}, support={"a": _tent_args(S)})
        return dict(location={"a": S.real("v"), "b": S.real("w")},
                    support={"a": _tent_args(S, "a."), "b": _tent_args(S, "b.")})

    @staticmethod
    def _spec(a):
        r = 1
        for axis, (l, p, u) in a.support.items():
            v = a.location.get(axis, 0)
            r = r * spec_region_axis_scalar(v, l, p, u)
        return r

    ensures = [
        prop("equals-OT-region-scalar", lambda a, old, r: eq(r, SupportScalarOT._spec(a))),
        prop("within-0-1", lambda a, old, r: And(0 <= r, r <= 1)),
    ]


def spec_tent_extrapolated(v, lower, peak, upper, axisMin, axisMax):
    """Region scalar with linear extrapolation beyond [axisMin, axisMax]: inside the
    axis range the ordinary OT scalar; outside, the line through the adjacent slope
    of the tent continued (a tent that is flat-topped at the range end extrapolates
    along its other side)."""
    inside = spec_region_axis_scalar(v, lower, peak, upper)
    up = div(v - lower, peak - lower)      # line through the rising side
    down = div(v - upper, peak - upper)    # line through the falling side
    return Ite(
        Or(eq(peak, 0), lower > peak, peak > upper, And(lower < 0, upper > 0), eq(v, peak)), inside,
        Ite(And(v < axisMin, lower <= axisMin),
            Ite(And(peak <= axisMin, peak < upper), down, Ite(axisMin < peak, up, inside)),
            Ite(And(axisMax < v, axisMax <= upper),
                Ite(And(axisMax <= peak, lower < peak), up, Ite(peak < axisMax, down, inside)),
                inside)))


@contract
class SupportScalarExtrapolate(Contract):
    module = "fontTools.varLib.models"
    qualname = "supportScalar"
    props = ("C09",)
    variants = ("1axis",)
    level = "PF"

    def args(self, S, variant):
        return dict(location={"a": S.real("v")}, support={"a": _tent_args(S)}, ot=True, extrapolate=True,
                    axisRanges={"a": (S.real("axisMin"), S.real("axisMax"))})

    def requires(self, a):
        return a.axisRanges["a"][0] <= a.axisRanges["a"][1]

    ensures = [
        prop("inside-range-equals-OT-scalar", lambda a, old, r: Implies(
            And(a.axisRanges["a"][0] <= a.location["a"], a.location["a"] <= a.axisRanges["a"][1]),
            eq(r, spec_region_axis_scalar(a.location["a"], *a.support["a"])))),
        prop("outside-range-linear-continuation", lambda a, old, r: eq(
            r, spec_tent_extrapolated(a.location["a"], *a.support["a"], *a.axisRanges["a"]))),
    ]


@contract
class SupportScalarNonOT(Contract):
    """ot=False: every axis participates; a missing axis is an AssertionError."""
    module = "fontTools.varLib.models"
    qualname = "supportScalar"
    props = ("C09",)
    variants = ("1axis", "missing")
    level = "PF"

    def args(self, S, variant):
        loc = {"a": S.real("v")} if variant == "1axis" else {}
        return dict(location=loc, support={"a": _tent_args(S)}, ot=False)

    raises = {AssertionError: lambda a: "a" not in a.location}
    expect_exceptional_only = ("missing",)

    @staticmethod
    def _spec(v, l, p, u):
        return Ite(eq(v, p), 1, Ite(Or(v <= l, u <= v), 0,
                                    Ite(v < p, div(v - l, p - l), div(v - u, p - u))))

    ensures = [prop("tent-value", lambda a, old, r: eq(r, SupportScalarNonOT._spec(a.location["a"], *a.support["a"])))]
