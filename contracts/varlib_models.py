"""Contracts on fontTools.varLib.models (C09, C05, C08, C10).

Spec functions are transcribed from the OpenType specification (default
normalisation, region scalar), not from the code.
"""
from pyvc.core import Contract, contract, prop, internal
from pyvc.spec import And, Or, Not, Implies, Ite, eq, div


# -- spec -------------------------------------------------------------------

def spec_normalize(v, l, d, u):
    """OpenType default normalisation (fvar): clamp to [l,u], then
    (v-d)/(d-l) below the default, (v-d)/(u-d) above, 0 at the default."""
    v = Ite(v < l, l, Ite(v > u, u, v))
    return Ite(v < d, div(v - d, d - l), Ite(v > d, div(v - d, u - d), 0))


def spec_normalize_extrapolate(v, l, d, u):
    """The same two linear pieces continued beyond [l,u]; a degenerate side
    (l == d or d == u) continues with the other side's slope."""
    return Ite(
        eq(l, u), 0,
        Ite(Or(And(v < d, Not(eq(l, d))), And(v > d, eq(u, d))),
            div(v - d, d - l),
            Ite(eq(v, d), 0, div(v - d, u - d))))


def spec_region_axis_scalar(v, lower, peak, upper):
    """OpenType region scalar for one axis (OT spec, 'Algorithm for
    interpolation of instance values')."""
    return Ite(
        Or(lower > peak, peak > upper), 1,
        Ite(And(lower < 0, upper > 0), 1,
            Ite(eq(peak, 0), 1,
                Ite(Or(v < lower, v > upper), 0,
                    Ite(eq(v, peak), 1,
                        Ite(v < peak, div(v - lower, peak - lower), div(upper - v, upper - peak)))))))


# -- normalizeValue -----------------------------------------------------------

@contract
class NormalizeValue(Contract):
    module = "fontTools.varLib.models"
    qualname = "normalizeValue"
    props = ("C09", "C05", "C08", "C10")
    variants = ("clamp", "extrapolate")

    def args(self, S, variant):
        return dict(v=S.real("v"), triple=(S.real("lower"), S.real("default"), S.real("upper")),
                    extrapolate=(variant == "extrapolate"))

    raises = {ValueError: lambda a: Not(And(a.triple[0] <= a.triple[1], a.triple[1] <= a.triple[2]))}

    ensures = [
        prop("equals-OT-default-normalisation",
             lambda a, old, r: eq(r, spec_normalize(a.v, *a.triple)) if not a.extrapolate
             else eq(r, spec_normalize_extrapolate(a.v, *a.triple))),
        prop("range", lambda a, old, r: And(-1 <= r, r <= 1) if not a.extrapolate else True),
        prop("anchors", lambda a, old, r: And(
            Implies(eq(a.v, a.triple[1]), eq(r, 0)),
            Implies(And(eq(a.v, a.triple[0]), a.triple[0] < a.triple[1]), eq(r, -1)),
            Implies(And(eq(a.v, a.triple[2]), a.triple[1] < a.triple[2]), eq(r, 1)))),
    ]


@contract
class NormalizeValueMonotone(Contract):
    """Two-run obligation: v1 <= v2 => normalizeValue(v1) <= normalizeValue(v2)."""
    module = "fontTools.varLib.models"
    qualname = "normalizeValue"
    props = ("C09", "C08")
    variants = ("clamp", "extrapolate")

    def args(self, S, variant):
        return dict(v1=S.real("v1"), v2=S.real("v2"),
                    triple=(S.real("lower"), S.real("default"), S.real("upper")),
                    extrapolate=(variant == "extrapolate"))

    def requires(self, a):
        return And(a.v1 <= a.v2, a.triple[0] <= a.triple[1], a.triple[1] <= a.triple[2])

    def call(self, f, a):
        return (f(a.v1, a.triple, a.extrapolate), f(a.v2, a.triple, a.extrapolate))

    ensures = [prop("monotone", lambda a, old, r: r[0] <= r[1])]


# -- supportScalar -------------------------------------------------------------

def _tent_args(S, pfx=""):
    return (S.real(pfx + "lower"), S.real(pfx + "peak"), S.real(pfx + "upper"))


@contract
class SupportScalarOT(Contract):
    """ot=True, no extrapolation: the product over axes of the OT region scalar.
    Shapes: 1 axis present / absent from the location, 2 axes (fold = product)."""
    module = "fontTools.varLib.models"
    qualname = "supportScalar"
    props = ("C09", "C05", "C08", "C10")
    variants = ("1axis", "1axis-missing", "2axes", "empty")
    level = "PF"

    def args(self, S, variant):
        if variant == "empty":
            return dict(location={"a": S.real("v")}, support={})
        if variant == "1axis":
            return dict(location={"a": S.real("v")}, support={"a": _tent_args(S)})
        if variant == "1axis-missing":
            return dict(location={}, support={"a": _tent_args(S)})
        return dict(location={"a": S.real("v"), "b": S.real("w")},
                    support={"a": _tent_args(S, "a."), "b": _tent_args(S, "b.")})

    @staticmethod
    def _spec(a):
        r = 1
        for axis, (l, p, u) in a.support.items():
            v = a.location.get(axis, 0)
            r = r * spec_region_axis_scalar(v, l, p, u)
        return r

    ensures = [
        prop("equals-OT-region-scalar", lambda a, old, r: eq(r, SupportScalarOT._spec(a))),
        prop("within-0-1", lambda a, old, r: And(0 <= r, r <= 1)),
    ]


def spec_tent_extrapolated(v, lower, peak, upper, axisMin, axisMax):
    """Region scalar with linear extrapolation beyond [axisMin, axisMax]: inside the
    axis range the ordinary OT scalar; outside, the line through the adjacent slope
    of the tent continued (a tent that is flat-topped at the range end extrapolates
    along its other side)."""
    inside = spec_region_axis_scalar(v, lower, peak, upper)
    up = div(v - lower, peak - lower)      # line through the rising side
    down = div(v - upper, peak - upper)    # line through the falling side
    return Ite(
        Or(eq(peak, 0), lower > peak, peak > upper, And(lower < 0, upper > 0), eq(v, peak)), inside,
        Ite(And(v < axisMin, lower <= axisMin),
            Ite(And(peak <= axisMin, peak < upper), down, Ite(axisMin < peak, up, inside)),
            Ite(And(axisMax < v, axisMax <= upper),
                Ite(And(axisMax <= peak, lower < peak), up, Ite(peak < axisMax, down, inside)),
                inside)))


@contract
class SupportScalarExtrapolate(Contract):
    module = "fontTools.varLib.models"
    qualname = "supportScalar"
    props = ("C09",)
    variants = ("1axis",)
    level = "PF"

    def args(self, S, variant):
        return dict(location={"a": S.real("v")}, support={"a": _tent_args(S)}, ot=True, extrapolate=True,
                    axisRanges={"a": (S.real("axisMin"), S.real("axisMax"))})

    def requires(self, a):
        return a.axisRanges["a"][0] <= a.axisRanges["a"][1]

    ensures = [
        prop("inside-range-equals-OT-scalar", lambda a, old, r: Implies(
            And(a.axisRanges["a"][0] <= a.location["a"], a.location["a"] <= a.axisRanges["a"][1]),
            eq(r, spec_region_axis_scalar(a.location["a"], *a.support["a"])))),
        prop("outside-range-linear-continuation", lambda a, old, r: eq(
            r, spec_tent_extrapolated(a.location["a"], *a.support["a"], *a.axisRanges["a"]))),
    ]


@contract
class SupportScalarNonOT(Contract):
    """ot=False: every axis participates; a missing axis is an AssertionError."""
    module = "fontTools.varLib.models"
    qualname = "supportScalar"
    props = ("C09",)
    variants = ("1axis", "missing")
    level = "PF"

    def args(self, S, variant):
        loc = {"a": S.real("v")} if variant == "1axis" else {}
        return dict(location=loc, support={"a": _tent_args(S)}, ot=False)

    raises = {AssertionError: lambda a: "a" not in a.location}
    expect_exceptional_only = ("missing",)

    @staticmethod
    def _spec(v, l, p, u):
        return Ite(eq(v, p), 1, Ite(Or(v <= l, u <= v), 0,
                                    Ite(v < p, div(v - l, p - l), div(v - u, p - u))))

    ensures = [prop("tent-value", lambda a, old, r: eq(r, SupportScalarNonOT._spec(a.location["a"], *a.support["a"])))]


# -- supportScalar for ANY number of axes (loop cut by invariant) ---------------------------
import z3 as _z3
from pyvc import sym as _sym
from pyvc.loopcut import LoopSpec
from pyvc.sym import SymNum as _SymNum


class _Axes:
    """Ghost model of `support` / `location` with an arbitrary number n of axes: axis k has
    tent (L(k), Pk(k), U(k)); the location's coordinate on it is V(k) (absent -> 0.0 is the
    same as V(k) = 0).  P(k) is the ghost prefix product of the per-axis OT scalars:
    P(0) = 1, P(k+1) = P(k) * F(k)."""

    def __init__(self):
        R, I = _z3.RealSort(), _z3.IntSort()
        self.n = _SymNum(_z3.Int("n_axes"))
        self.L, self.Pk, self.U, self.V = (_z3.Function(nm, I, R) for nm in ("L", "Pk", "U", "V"))
        self.P = _z3.Function("P", I, R)

    def tent(self, i):
        return (_SymNum(self.L(i.t)), _SymNum(self.Pk(i.t)), _SymNum(self.U(i.t)))

    def F(self, i):
        l, p, u = self.tent(i)
        return spec_region_axis_scalar(_SymNum(self.V(i.t)), l, p, u)

    def Pof(self, i):
        i = _sym._lift(i)
        return _SymNum(self.P(i.t))


class _SupportItems:
    def __init__(self, ax):
        self.ax = ax

    def __symlen__(self):
        return self.ax.n

    def at(self, i):
        return (("axis", i), self.ax.tent(i))


class _Support:
    def __init__(self, ax):
        self.ax = ax

    def items(self):
        return _SupportItems(self.ax)


class _Location:
    def __init__(self, ax):
        self.ax = ax

    def get(self, key, default=None):
        return _SymNum(self.ax.V(key[1].t))

    def __getitem__(self, key):
        return _SymNum(self.ax.V(key[1].t))

    def __contains__(self, key):
        return True


def _ss_havoc(F, env, i, n):
    ax = env.support.ax
    c = _sym.ctx()
    # instances of the defining equations of the ghost product at the current index, and of
    # the zero-absorption lemma (SupportScalarZeroAbsorbs below)
    c.assume_term(ax.P(i.t + 1) == ax.P(i.t) * ax.F(i).real())
    c.assume_term(_z3.Implies(ax.P(i.t + 1) == 0, ax.P(n.t) == 0))
    return {"scalar": ax.Pof(i), "axis": None, "lower": None, "peak": None, "upper": None, "v": None,
            "axisMin": None, "axisMax": None}


@contract
class SupportScalarAnyAxes(Contract):
    """supportScalar(location, support) == the product over ALL axes of the OT region scalar,
    for any number of axes (the loop over support.items() is cut by the invariant
    scalar == P(i); P(0) == 1 and P(i+1) == P(i) * F(i) define the ghost product)."""
    module = "fontTools.varLib.models"
    qualname = "supportScalar"
    props = ("C09", "C05")
    cuts = {"supportScalar": {0: LoopSpec(
        modifies=["scalar", "axis", "lower", "peak", "upper", "v", "axisMin", "axisMax"],
        invariant=lambda env, i, n: eq(env.scalar, env.support.ax.Pof(i)),
        havoc=_ss_havoc)}}
    assumptions = ("ghost product P over the axes is defined by P(0)=1, P(k+1)=P(k)*F(k); instances at the cut index are assumed, zero absorption is proved as a separate lemma",)

    def args(self, S, variant):
        ax = _Axes()
        S.ctx.symbols["n_axes"] = ax.n.t
        S.ctx.assume_term(ax.n.t >= 0)
        S.ctx.assume_term(ax.P(0) == 1)
        return dict(location=_Location(ax), support=_Support(ax))

    ensures = [prop("equals-product-of-OT-region-scalars", lambda a, old, r: eq(r, a.support.ax.Pof(a.support.ax.n)))]


@contract
class SupportScalarZeroAbsorbs(Contract):
    """Lemma (induction step): if the prefix product is 0 at k it is 0 at k+1; hence, once a
    factor is 0, the product over all axes is 0 (justifies the early `break`)."""
    module = None
    qualname = None
    props = ("C09", "C05")

    def args(self, S, variant):
        return dict(pk=S.real("P_k"), f=S.real("F_k"))

    def requires(self, a):
        return eq(a.pk, 0)

    def call(self, f, a):
        return a.pk * a.f

    ensures = [prop("step", lambda a, old, r: eq(r, 0))]


# -- piecewiseLinearMap over a finite map of ANY size ---------------------------------------------
from pyvc import ghost as _ghost


def _plm_rebind():
    return {"min": _ghost.min_, "max": _ghost.max_, "__genexpr__": True}


@contract
class PiecewiseLinearMap(Contract):
    """piecewiseLinearMap(v, mapping) for a finite mapping of any size (domain predicate +
    value function): the mapped value at a key, linear interpolation between the two
    ADJACENT keys around v, and beyond the ends the end key's offset; identity on the empty
    map.  Ghost arguments a, b (adjacent keys around v) and e (an extreme key) are
    universally quantified by being inputs."""
    module = "fontTools.varLib.models"
    qualname = "piecewiseLinearMap"
    props = ("C09", "C05", "C10", "C19")
    rebind = staticmethod(_plm_rebind)
    variants = ("at-key", "between", "below", "above", "empty")
    timeout_ms = 20000

    def args(self, S, variant):
        v, a, b = S.real("v"), S.real("a"), S.real("b")
        if S.concrete:
            # native replay: the smallest real dict that satisfies the variant's precondition
            va, vb, vv = S.real("M.val(a)"), S.real("M.val(b)"), S.real("M.val(v)")
            m = {"empty": {}, "at-key": {v: vv}, "between": {a: va, b: vb}, "below": {a: va}, "above": {b: vb}}[variant]
            return dict(v=v, mapping=m, _a=a, _b=b, _variant=variant)
        M = _ghost.SymMapping("M")
        S.ctx.symbols["M.val(a)"] = M.val(a.t)
        S.ctx.symbols["M.val(b)"] = M.val(b.t)
        S.ctx.symbols["M.val(v)"] = M.val(v.t)
        return dict(v=v, mapping=M, _a=a, _b=b, _variant=variant)

    def requires(self, a):
        import z3
        from pyvc.sym import SymBool
        M = a.mapping
        if isinstance(M, dict):
            return {"empty": True, "at-key": True, "between": a._a < a.v < a._b, "below": a.v < a._a, "above": a.v > a._b}[a._variant]
        dom = lambda x: SymBool(M.dom(x.t))
        M.add_point(a.v)
        if a._variant == "empty":
            M.add_fact(lambda k: z3.Not(M.dom(k)))
            return True
        if a._variant == "at-key":
            return dom(a.v)
        if a._variant == "between":
            M.add_point(a._a)
            M.add_point(a._b)
            M.add_fact(lambda k: z3.Implies(M.dom(k), z3.Or(k <= a._a.t, k >= a._b.t)))   # adjacency
            return And(dom(a._a), dom(a._b), a._a < a.v, a.v < a._b)
        if a._variant == "below":      # _a is the least key and v is below it
            M.add_point(a._a)
            M.add_fact(lambda k: z3.Implies(M.dom(k), k >= a._a.t))
            return And(dom(a._a), a.v < a._a)
        M.add_point(a._b)
        M.add_fact(lambda k: z3.Implies(M.dom(k), k <= a._b.t))
        return And(dom(a._b), a.v > a._b)

    def call(self, f, a):
        return f(a.v, a.mapping)

    @staticmethod
    def _post(a, r):
        from pyvc.sym import SymNum
        M = a.mapping
        val = (lambda x: M[x]) if isinstance(M, dict) else (lambda x: SymNum(M.val(x.t)))
        if a._variant == "empty":
            return eq(r, a.v)
        if a._variant == "at-key":
            return eq(r, val(a.v))
        if a._variant == "between":
            return eq(r, val(a._a) + div((val(a._b) - val(a._a)) * (a.v - a._a), a._b - a._a))
        if a._variant == "below":
            return eq(r, a.v + val(a._a) - a._a)
        return eq(r, a.v + val(a._b) - a._b)

    ensures = [prop("piecewise-linear-semantics", lambda a, old, r: PiecewiseLinearMap._post(a, r))]


# -- VariationModel: deltas <-> masters ----------------------------------------------------------

def _model(mod, S, n, perm):
    """A VariationModel shell with n masters, a full lower-triangular delta-weight system with
    symbolic weights and the given master permutation (reverseMapping)."""
    cls = mod.VariationModel
    m = cls.__new__(cls)
    m.deltaWeights = [{j: S.real("w%d_%d" % (i, j)) for j in range(i)} for i in range(n)]
    m.reverseMapping = list(perm)
    return m


@contract
class GetDeltas(Contract):
    """getDeltas solves the unit-lower-triangular system: for every i,
    masterValues[reverseMapping[i]] == out[i] + sum_j out[j] * deltaWeights[i][j]."""
    module = "fontTools.varLib.models"
    qualname = "VariationModel.getDeltas"
    props = ("C09", "C10")
    variants = ((1, (0,)), (2, (0, 1)), (2, (1, 0)), (3, (0, 1, 2)), (3, (2, 0, 1)), (4, (1, 3, 0, 2)))
    level = "PF"
    assumptions = ("A-REAL",)

    def args(self, S, variant):
        n, perm = variant
        return dict(self=_model(self.mod, S, n, perm), masterValues=[S.real("m%d" % i) for i in range(n)])

    ensures = [prop("masters-are-recovered-from-deltas", lambda a, old, r: len(r) == len(a.masterValues) and And(*[
        eq(a.masterValues[a.self.reverseMapping[i]],
           r[i] + sum((r[j] * w for j, w in a.self.deltaWeights[i].items()), 0))
        for i in range(len(r))]))]


@contract
class InterpolateFromValuesAndScalars(Contract):
    module = "fontTools.varLib.models"
    qualname = "VariationModel.interpolateFromValuesAndScalars"
    props = ("C09", "C10", "C05")
    variants = (1, 2, 3, 4)
    level = "PF"
    assumptions = ("A-REAL",)

    def args(self, S, variant):
        return dict(values=[S.real("v%d" % i) for i in range(variant)], scalars=[S.real("s%d" % i) for i in range(variant)])

    ensures = [prop("weighted-sum", lambda a, old, r: eq(
        0 if r is None else r, sum((v * s for v, s in zip(a.values, a.scalars)), 0)))]


# -- the model as a whole: interpolating at a master's location returns that master -----------------

@contract
class ModelReproducesMasters(Contract):
    """C09, first sentence, for small master sets with SYMBOLIC coordinates: build the real
    VariationModel, compute deltas from symbolic master values, and interpolate at every
    master's location: the result is exactly that master's value - whatever the coordinates
    (every ordering, sign pattern, on/off-axis placement the shape allows)."""
    module = "fontTools.varLib.models"
    qualname = "VariationModel.__init__"
    props = ("C09", "C10")
    shadow_mode = "real"
    variants = ("1axis-2", "1axis-3", "2axes-corner", "2axes-offaxis-only", "2axes-L", "1axis-4", "2axes-two-corners",
                "2axes-cross", "3axes-axes-and-corner")
    level = "PF"
    max_paths = 200000
    deadline_s = 2400       # the thorough-only shapes take several minutes each on a busy machine

    def variants_for(self, tier):
        return self.variants[:6] if tier == "quick" else self.variants
    timeout_ms = 20000
    assumptions = ("A-REAL",)

    SHAPES = {
        "1axis-2": [{}, {"a": "x1"}],
        "1axis-3": [{}, {"a": "x1"}, {"a": "x2"}],
        "2axes-corner": [{}, {"a": "x1"}, {"b": "y1"}, {"a": "x2", "b": "y2"}],
        "2axes-offaxis-only": [{}, {"a": "x1", "b": "y1"}],
        "2axes-L": [{}, {"a": "x1"}, {"a": "x2", "b": "y2"}],
        "1axis-4": [{}, {"a": "x1"}, {"a": "x2"}, {"a": "x3"}],
        "2axes-two-corners": [{}, {"a": "x1"}, {"b": "y1"}, {"a": "x2", "b": "y2"}, {"a": "x3", "b": "y3"}],
        "2axes-cross": [{}, {"a": "x1"}, {"a": "x2"}, {"b": "y1"}, {"b": "y2"}, {"a": "x3", "b": "y3"}],
        "3axes-axes-and-corner": [{}, {"a": "x1"}, {"b": "y1"}, {"c": "z1"}, {"a": "x2", "b": "y2", "c": "z2"}],
    }

    def args(self, S, variant):
        shape = self.SHAPES[variant]
        syms = {}
        locs = []
        for loc in shape:
            d = {}
            for ax, nm in loc.items():
                if nm not in syms:
                    syms[nm] = S.real(nm)
                d[ax] = syms[nm]
            locs.append(d)
        return dict(locations=locs, _values=[S.real("m%d" % i) for i in range(len(shape))], _syms=syms)

    def requires(self, a):
        cs = [And(-1 <= v, v <= 1, Not(eq(v, 0))) for v in a._syms.values()]
        # locations must be pairwise distinct (the constructor refuses duplicates)
        locs = a.locations
        for i in range(len(locs)):
            for j in range(i + 1, len(locs)):
                if set(locs[i]) == set(locs[j]) and locs[i]:
                    cs.append(Or(*[Not(eq(locs[i][k], locs[j][k])) for k in locs[i]]))
        return And(*cs)

    def call(self, f, a):
        cls = self.mod.VariationModel
        m = cls([dict(l) for l in a.locations], ["a", "b", "c"])
        deltas = m.getDeltas(list(a._values))
        return [m.interpolateFromDeltas(loc, deltas) for loc in a.locations]

    from fontTools.varLib.errors import VariationModelError as _E
    raises = {_E: None}
    raises_iff = False

    ensures = [prop("interpolating-at-each-master-returns-that-master", lambda a, old, r: And(*[
        eq(0 if got is None else got, want) for got, want in zip(r, a._values)]))]


# -- sparse masters and the sub-model cache across reorderMasters ------------------------------------

import itertools as _it


@contract
class SparseModelHistory(Contract):
    """History contract on one VariationModel object: a sparse query (some masters None), then
    reorderMasters(mapping), then a sparse query again - the deltas returned after the reorder,
    interpolated at the location of every master that is present, give back that master's
    value (for ALL master values; locations, permutations and presence patterns enumerated).
    A sub-model cached before the reorder must not be used with values in the new order."""
    module = "fontTools.varLib.models"
    qualname = "VariationModel.reorderMasters"
    props = ("C09", "C10")
    shadow_mode = "real"
    level = "PF"
    assumptions = ("A-REAL",)
    SHAPES = {
        "1axis-4": [{}, {"a": 1.0}, {"a": 0.5}, {"a": -1.0}],
        "2axes-4": [{}, {"a": 1.0}, {"b": 1.0}, {"a": 1.0, "b": 1.0}],
    }
    variants = tuple((s, p) for s in ("1axis-4", "2axes-4") for p in _it.permutations(range(4)) if p != (0, 1, 2, 3))

    def variants_for(self, tier):
        if tier == "quick":
            return tuple(v for v in self.variants if v[1] in ((1, 0, 2, 3), (0, 2, 1, 3), (3, 2, 1, 0), (2, 3, 0, 1), (1, 2, 3, 0)))
        return self.variants

    def args(self, S, variant):
        shape, perm = variant
        return dict(_locs=[dict(l) for l in self.SHAPES[shape]], mapping=list(perm), _values=[S.real("m%d" % i) for i in range(4)])

    def call(self, f, a):
        cls = self.mod.VariationModel
        locs = a._locs
        out = []
        masks = [m for m in _it.product((True, False), repeat=len(locs)) if m[0] and not all(m)]
        for mask0 in masks:
            for mask1 in (mask0, tuple(mask0[i] for i in a.mapping)):
                m = cls([dict(l) for l in locs], ["a", "b"])
                vals = list(a._values)
                m.getDeltasAndSupports([v if keep else None for v, keep in zip(vals, mask0)])
                new_vals = f(m, vals, list(a.mapping))
                new_locs = [locs[i] for i in a.mapping]
                if not mask1[a.mapping.index(0)]:
                    continue                      # a sub-model needs the default master
                items = [v if keep else None for v, keep in zip(new_vals, mask1)]
                deltas, supports = m.getDeltasAndSupports(items)
                for loc, item in zip(new_locs, items):
                    if item is None:
                        continue
                    got = 0
                    for d, sup in zip(deltas, supports):
                        got = got + d * self.mod.supportScalar(loc, sup)
                    out.append((got, item, (mask0, mask1)))
        return out, new_vals

    ensures = [
        prop("sparse-query-after-reorder-reproduces-present-masters", lambda a, old, r: And(len(r[0]) > 0, *[eq(g, w) for g, w, _ in r[0]])),
        prop("master-list-permuted-as-asked", lambda a, old, r: And(*[eq(r[1][i], a._values[j]) for i, j in enumerate(a.mapping)])),
    ]
