"""Contracts on fontTools.varLib.models (C09, C05, C08, C10).

Spec functions are transcribed from the OpenType specification (default
normalisation, region scalar), not from the code.
"""
from pyvc.core import Contract, contract, prop, internal
from pyvc.spec import And, Or, Not, Implies, Ite, eq, div


# -- spec -------------------------------------------------------------------

def spec_normalize(v, l, d, u):
    """OpenType default normalisation (fvar): clamp to [l,u], then
    (v-d)/(d-l) below the default, (v-d)/(u-d) above, 0 at the default."""
    v = Ite(v < l, l, Ite(v > u, u, v))
    return Ite(v < d, div(v - d, d - l), Ite(v > d, div(v - d, u - d), 0))


def spec_normalize_extrapolate(v, l, d, u):
    """The same two linear pieces continued beyond [l,u]; a degenerate side
    (l == d or d == u) continues with the other side's slope."""
    return Ite(
        eq(l, u), 0,
        Ite(Or(And(v < d, Not(eq(l, d))), And(v > d, eq(u, d))),
            div(v - d, d - l),
            Ite(eq(v, d), 0, div(v - d, u - d))))


def spec_region_axis_scalar(v, lower, peak, upper):
    """OpenType region scalar for one axis (OT spec, 'Algorithm for
    interpolation of instance values')."""
    return Ite(
        Or(lower > peak, peak > upper), 1,
        Ite(And(lower < 0, upper > 0), 1,
            Ite(eq(peak, 0), 1,
                Ite(Or(v < lower, v > upper), 0,
                    Ite(eq(v, peak), 1,
                        Ite(v < peak, div(v - lower, peak - lower), div(upper - v, upper - peak)))))))


# -- normalizeValue -----------------------------------------------------------

@contract
class NormalizeValue(Contract):
    module = "fontTools.varLib.models"
    qualname = "normalizeValue"
    props = ("C09", "C05", "C08", "C10")
    variants = ("clamp", "extrapolate")

    def args(self, S, variant):
        return dict(v=S.real("v"), triple=(S.real("lower"), S.real("default"), S.real("upper")),
                    extrapolate=(variant == "extrapolate"))

    raises = {ValueError: lambda a: Not(And(a.triple[0] <= a.triple[1], a.triple[1] <= a.triple[2]))}

    ensures = [
        prop("equals-OT-default-normalisation",
             lambda a, old, r: eq(r, spec_normalize(a.v, *a.triple)) if not a.extrapolate
             else eq(r, spec_normalize_extrapolate(a.v, *a.triple))),
        prop("range", lambda a, old, r: And(-1 <= r, r <= 1) if not a.extrapolate else True),
        prop("anchors", lambda a, old, r: And(
            Implies(eq(a.v, a.triple[1]), eq(r, 0)),
            Implies(And(eq(a.v, a.triple[0]), a.triple[0] < a.triple[1]), eq(r, -1)),
            Implies(And(eq(a.v, a.triple[2]), a.triple[1] < a.triple[2]), eq(r, 1)))),
    ]


@contract
class NormalizeValueMonotone(Contract):
    """Two-run obligation: v1 <= v2 => normalizeValue(v1) <= normalizeValue(v2)."""
    module = "fontTools.varLib.models"
    qualname = "normalizeValue"
    props = ("C09", "C08")
    variants = ("clamp", "extrapolate")

    def args(self, S, variant):
        return dict(v1=S.real("v1"), v2=S.real("v2"),
                    triple=(S.real("lower"), S.real("default"), S.real("upper")),
                    extrapolate=(variant == "extrapolate"))

    def requires(self, a):
        return And(a.v1 <= a.v2, a.triple[0] <= a.triple[1], a.triple[1] <= a.triple[2])

    def call(self, f, a):
        return (f(a.v1, a.triple, a.extrapolate), f(a.v2, a.triple, a.extrapolate))

    ensures = [prop("monotone", lambda a, old, r: r[0] <= r[1])]
