"""_add_gvar (C10): for every glyph, the tuple variations written are the model's deltas of THAT glyph's
master outlines - one variation per region with a non-zero delta, carrying that region's support and
that delta, optimised (IUP) against the default outline and the glyph's own end points; a master in
which a glyph is empty while the default master's is not counts as missing (sparse); a glyph whose
masters are not point-compatible gets no variations at all.  getSubModel / getDeltas and
TupleVariation.optimize are recorders."""
from pyvc.core import Contract, contract, prop, internal
from pyvc.spec import And, Or, Not, Implies, Ite, eq


class _Ns:
    def __init__(self, **kw):
        self.__dict__.update(kw)

    def __eq__(self, other):
        return isinstance(other, _Ns) and self.__dict__ == other.__dict__

    __hash__ = None


class _Delta:
    def __init__(self, array, tag):
        self.array, self.tag = array, tag


class _Sub:
    def __init__(self, present, S, glyph, n_regions):
        self.present = present
        self.supports = [{}] + [{"wght": (0, k + 1, 9), "_glyph": glyph} for k in range(n_regions)]
        self.S, self.glyph = S, glyph
        self.calls = []

    def getDeltas(self, allCoords, round=None):
        self.calls.append((list(allCoords), round))
        out = [_Delta([1, 2], ("default", self.glyph))]
        for k in range(len(self.supports) - 1):
            out.append(_Delta([self.S.int("delta_%s_%d_x" % (self.glyph, k), -50, 50), self.S.int("delta_%s_%d_y" % (self.glyph, k), -50, 50)], (self.glyph, k)))
        return out


class _TV:
    made = []

    def __init__(self, support, delta):
        self.axes, self.coordinates, self.optimized = support, delta, None
        _TV.made.append(self)

    def optimize(self, origCoords, endPts, tolerance=0.5):
        self.optimized = (origCoords, endPts, tolerance)


@contract
class AddGvar(Contract):
    module = "fontTools.varLib"
    qualname = "_add_gvar"
    props = ("C10",)
    shadow_mode = "function"
    variants = ("compatible", "sparse-empty-master", "default-empty-too", "incompatible-controls", "no-optimize")
    level = "PF"
    assumptions = ("glyf._getCoordinatesAndControls, VariationModel.getSubModel / getDeltas and TupleVariation are recorders",)

    def rebind(self):
        return {"TupleVariation": _TV, "newTable": lambda tag: _Ns(variations={}, tag=tag)}

    def args(self, S, variant):
        _TV.made.clear()
        order = ["a", "b"]
        subs = {}

        def control(n, ends):
            return _Ns(numberOfContours=n, endPts=ends)
        # glyph a: per variant; glyph b: always compatible, two regions
        a_controls = {"compatible": [control(1, [3])] * 3, "sparse-empty-master": [control(1, [3]), control(0, []), control(1, [3])],
                      "default-empty-too": [control(0, []), control(0, []), control(0, [])],
                      "incompatible-controls": [control(1, [3]), control(1, [4]), control(1, [3])], "no-optimize": [control(1, [3])] * 3}[variant]
        data = {"a": [(("coords", "a", m), a_controls[m]) for m in range(3)], "b": [(("coords", "b", m), control(2, [1, 5])) for m in range(3)]}

        class _Glyf:
            def __init__(self, m):
                self.m = m

            def _getCoordinatesAndControls(self, glyph, hMetrics, vMetrics):
                assert (hMetrics, vMetrics) == (("hmtx", self.m), None)
                return data[glyph][self.m]

        class _MasterModel:
            reverseMapping = [0, 1, 2]

            def getSubModel(self, allData):
                present = tuple(i for i, d in enumerate(allData) if d is not None)
                glyph = next(d[0][1] for d in allData if d is not None)
                sub = _Sub(present, S, glyph, 2)
                subs[glyph] = sub
                return sub, [d for d in allData if d is not None]
        masters = [{"glyf": _Glyf(m), "hmtx": _Ns(metrics=("hmtx", m))} for m in range(3)]
        font = {"glyf": object()}
        fobj = _FontDict(font, order)
        return dict(font=fobj, masterModel=_MasterModel(), master_ttfs=masters, tolerance=0.5, optimize=(variant != "no-optimize"),
                    _subs=subs, _variant=variant, _data=data)

    def call(self, f, a):
        f(a.font, a.masterModel, a.master_ttfs, a.tolerance, a.optimize)
        return a.font["gvar"]

    @staticmethod
    def _post(a, r):
        v = a._variant
        cs = []
        for glyph in ("a", "b"):
            sub = a._subs.get(glyph)
            if glyph == "a" and v == "incompatible-controls":
                cs.append("a" not in r.variations)
                continue
            if glyph not in r.variations or sub is None:
                return False
            want_present = (0, 2) if (glyph == "a" and v == "sparse-empty-master") else (0, 1, 2)
            cs.append(sub.present == want_present and len(sub.calls) == 1)
            cs.append(sub.calls[0][0] == [("coords", glyph, m) for m in want_present])
            tvs = r.variations[glyph]
            k_seen = []
            for tv in tvs:
                k = tv.coordinates.tag[1]
                k_seen.append(k)
                cs.append(tv.axes is sub.supports[k + 1])
                if v == "no-optimize":
                    cs.append(tv.optimized is None)
                else:
                    cs.append(tv.optimized is not None and tv.optimized[0].tag == ("default", glyph) and tv.optimized[1] == a._data[glyph][0][1].endPts and tv.optimized[2] == 0.5)
            cs.append(k_seen == sorted(k_seen))
            for k in range(2):
                dx, dy = sub.S.int("delta_%s_%d_x" % (glyph, k), -50, 50), sub.S.int("delta_%s_%d_y" % (glyph, k), -50, 50)
                cs.append(eq(k in k_seen, Or(Not(eq(dx, 0)), Not(eq(dy, 0)))))
        return And(*cs)

    ensures = [prop("per-glyph-variations-are-the-models-nonzero-deltas-with-their-supports", lambda a, old, r: AddGvar._post(a, r))]


class _FontDict(dict):
    def __init__(self, d, order):
        super().__init__(d)
        self._order = order

    def getGlyphOrder(self):
        return list(self._order)
