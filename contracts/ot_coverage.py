"""Coverage tables (C06, C02): Coverage.preWrite against an independent reader of the OpenType
Coverage formats - every glyph of the list gets, as its coverage index, its position in the
list (the index that every parallel array - PairSet[], Value[], LigatureSet[] ... - is read
with), whatever the order of the glyph IDs."""
from pyvc.core import Contract, contract, prop, internal
from pyvc.spec import And, Or, Not, Implies, Ite, eq


class _G:
    """glyph name standing for glyph id `gid`"""

    def __init__(self, gid):
        self.gid = gid

    def __repr__(self):
        return "g%r" % (self.gid,)


class _Font:
    def getGlyphIDMany(self, glyphs):
        return [g.gid for g in glyphs]

    def getGlyphID(self, g):
        return g.gid

    def getGlyphName(self, gid):
        return _G(gid)


def spec_coverage_index(fmt, raw, gid):
    """(covered, index) per the OpenType Coverage table: Format 1 lists glyphs, index = position;
    Format 2 lists ranges, index = StartCoverageIndex + gid - Start."""
    cov, idx = False, 0
    if fmt == 1:
        for i, g in enumerate(raw["GlyphArray"]):
            hit = eq(g.gid, gid)
            idx = Ite(And(hit, Not(cov)), i, idx)
            cov = Or(cov, hit)
    else:
        for r in raw["RangeRecord"]:
            hit = And(r.Start.gid <= gid, gid <= r.End.gid)
            idx = Ite(And(hit, Not(cov)), r.StartCoverageIndex + gid - r.Start.gid, idx)
            cov = Or(cov, hit)
    return cov, idx


@contract
class CoveragePreWrite(Contract):
    module = "fontTools.ttLib.tables.otTables"
    qualname = "Coverage.preWrite"
    props = ("C06", "C02")
    variants = (1, 2, 3, 4, 5)
    level = "PF"
    shadow_mode = "function"

    def args(self, S, variant):
        from fontTools.ttLib.tables import otTables
        cov = otTables.Coverage()
        ids = [S.int("gid%d" % i) for i in range(variant)]
        cov.glyphs = [_G(i) for i in ids]
        return dict(self=cov, font=_Font(), _ids=ids, _probe=S.int("probe"))

    def requires(self, a):
        ids = a._ids
        return And(*[And(i >= 0, i <= 0xFFFF) for i in ids],
                   *[Not(eq(ids[i], ids[j])) for i in range(len(ids)) for j in range(i + 1, len(ids))])

    ensures = [
        prop("coverage-index-of-every-listed-glyph-is-its-list-position", lambda a, old, r: And(*[
            (lambda ci: And(ci[0], eq(ci[1], i)))(spec_coverage_index(a.self.Format, r, gid)) for i, gid in enumerate(a._ids)])),
        prop("no-other-glyph-is-covered", lambda a, old, r: Implies(
            And(*[Not(eq(a._probe, g)) for g in a._ids]), Not(spec_coverage_index(a.self.Format, r, a._probe)[0]))),
        prop("format-2-ranges-ordered-by-start-glyph-and-disjoint", lambda a, old, r: True if a.self.Format == 1 else And(*[
            And(x.Start.gid <= x.End.gid, x.End.gid < y.Start.gid) for x, y in zip(r["RangeRecord"], r["RangeRecord"][1:])] + [
            x.Start.gid <= x.End.gid for x in r["RangeRecord"]])),
    ]
