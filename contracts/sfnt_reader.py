"""Contracts for the container readers (C20): for EVERY byte string of EVERY length
offered as a file, opening it and fetching a table either succeeds or raises the library's
own error type TTLibError - never struct.error, AssertionError, IndexError, zlib.error ..."""
import sys

from pyvc.core import Contract, contract, prop, internal
from pyvc.models import std, SymBytes, sstruct_shadow
from pyvc.blobs import Atom, Blob, SymFile
from pyvc import ghost, loopcut
from pyvc.loopcut import LoopSpec
from pyvc.spec import And, Or, Not, Implies, Ite, eq
from fontTools.ttLib import TTLibError
from fontTools.misc.textTools import Tag as _RealTag


def _reader_rebind():
    d = dict(std("struct", "len", "bytes", "int"), sstruct=sstruct_shadow(), Tag=ghost.make_tag_model(_RealTag),
             range=loopcut.range_, sorted=ghost.sorted_, OrderedDict=ghost.OrderedDict_)
    d["__fmt__"] = True
    return d


def _havoc_dir_loop(F, env, i, n):
    # heap effect of the body: the file position moves (arbitrary), the directory dict grows
    env.self.file.pos = F.int("pos", 0)
    return {"entry": None, "tag": None, "tables": ghost.GhostDict("tables")}


def _dir_inv(env, i, n):
    # every completed iteration consumed exactly one directory entry that was fully present
    f = env.self.file
    size = env.self.DirectoryEntry.formatSize
    return And(eq(f.pos, env.g.start + i * size), f.pos <= env.g.file_len)


DIR_LOOP = {"SFNTReader.__init__": {0: LoopSpec(
    modifies=["entry", "tag", "tables"],
    invariant=_dir_inv,
    ghost=lambda env: __import__("types").SimpleNamespace(start=env.self.file.pos, file_len=env.self.file.size),
    havoc=_havoc_dir_loop)}}


class _ZlibPatch:
    def setup(self):
        self._saved = sys.modules.get("zlib")
        sys.modules["zlib"] = ghost.ZlibModel()

    def teardown(self):
        sys.modules["zlib"] = self._saved


@contract
class SFNTReaderOpen(_ZlibPatch, Contract):
    """SFNTReader(file) for plain sfnt, TTC and WOFF signatures alike; the table-directory
    loop is cut (any numTables up to 65535, one arbitrary iteration)."""
    module = "fontTools.ttLib.sfnt"
    qualname = "SFNTReader.__init__"
    props = ("C20",)
    rebind = staticmethod(_reader_rebind)
    cuts = DIR_LOOP
    variants = ("default", "fontNumber")
    assumptions = ("zlib.decompress returns bytes or raises zlib.error (assumed contract of the external library)",
                   "two directory entries with equal tags are kept as two keys in the model (over-approximation)")

    def args(self, S, variant):
        cls = self.mod.SFNTReader
        r = object.__new__(cls)
        if S.concrete:
            import io
            f = io.BytesIO(S.values.get("file") or b"")       # native replay: a real file object
        else:
            at = Atom("file")
            S.ctx.symbols["file"] = ("bytes", at.arr, at.n.t)
            S.ctx.assume_term(at.n.t >= 0)
            f = SymFile(at.blob())
        kw = dict(self=r, file=f)
        if variant == "fontNumber":
            kw["fontNumber"] = S.int("fontNumber")
        return kw

    raises = {TTLibError: None}
    ensures = []


# -- fetching a table ------------------------------------------------------------------------------

def _entry_reader(self_contract, S, woff):
    mod = self_contract.mod
    cls = mod.SFNTReader
    r = object.__new__(cls)
    if S.concrete:
        import io
        r.file = io.BytesIO(S.values.get("file") or b"")
    else:
        at = Atom("file")
        S.ctx.symbols["file"] = ("bytes", at.arr, at.n.t)
        S.ctx.assume_term(at.n.t >= 0)
        r.file = SymFile(at.blob())
        r._atom = at
    r.checkChecksums = 0
    e = (mod.WOFFDirectoryEntry if woff else mod.SFNTDirectoryEntry)()
    e.tag = "glyf"
    e.offset = S.int("offset", 0, 2 ** 32 - 1)
    e.length = S.int("length", 0, 2 ** 32 - 1)
    e.checkSum = S.int("checkSum", 0, 2 ** 32 - 1)
    if woff:
        e.origLength = S.int("origLength", 0, 2 ** 32 - 1)
    r.tables = {_RealTag("glyf"): e}
    return r, e


@contract
class SFNTReaderGetItem(_ZlibPatch, Contract):
    """reader[tag] for ANY directory entry (offset, length, WOFF origLength) over ANY file:
    either TTLibError, or exactly the `length` bytes at `offset` of the file (plain sfnt: the
    pass-through of C01), or for WOFF what zlib returned with the recorded original length."""
    module = "fontTools.ttLib.sfnt"
    qualname = "SFNTReader.__getitem__"
    props = ("C20", "C01")
    rebind = staticmethod(_reader_rebind)
    variants = ("sfnt", "woff")

    def args(self, S, variant):
        r, e = _entry_reader(self, S, variant == "woff")
        return dict(self=r, tag="glyf", _e=e)

    def call(self, f, a):
        return f(a.self, a.tag)

    raises = {TTLibError: None}

    @staticmethod
    def _post(a, r):
        e = a._e
        if not hasattr(a.self, "_atom"):          # native replay
            data = a.self.file.getvalue()
            if hasattr(e, "origLength") and e.length != e.origLength:
                return len(r) == e.origLength
            return r == data[e.offset:e.offset + e.length] and len(r) == e.length
        b = Blob.of(r)
        if hasattr(e, "origLength"):
            if bool(eq(e.length, e.origLength)):
                return b.same(a.self._atom.blob()._slice(e.offset, e.offset + e.length))
            return And(eq(b.__symlen__(), e.origLength), e.length < e.origLength)
        want = a.self._atom.blob()._slice(e.offset, e.offset + e.length)
        return And(b.same(want), eq(b.__symlen__(), e.length))

    ensures = [prop("exactly-the-bytes-the-directory-entry-points-to", lambda a, old, r: SFNTReaderGetItem._post(a, r))]
