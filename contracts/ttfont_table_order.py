"""sortedTagList / reorderFontTables (C04, C16): the physical table order is a permutation of the
font's tags - no table lost, none twice - in which the tags the recommended order knows come first,
in that order (TrueType or CFF flavour of the recommendation, or the caller's list), the others
follow alphabetically, and DSIG is last under the default recommendation; reorderFontTables copies
every table's bytes verbatim in exactly that order.  Every subset of a ten-tag pool."""
import itertools

from pyvc.core import Contract, contract, prop, internal

POOL = ("head", "glyf", "loca", "CFF ", "DSIG", "GSUB", "zzzz", "OS/2", "cmap", "Aaaa")


@contract
class SortedTagList(Contract):
    module = "fontTools.ttLib.ttFont"
    qualname = "sortedTagList"
    props = ("C04", "C16")
    shadow_mode = "real"
    variants = ("default-order", "custom-order")
    level = "PF"
    assumptions = ("token-valued: the family is every subset of a pool of ten tags, in two input orders",)

    def args(self, S, variant):
        return dict(_custom=(variant == "custom-order"))

    def call(self, f, a):
        from fontTools.ttLib.ttFont import TTFTableOrder, OTFTableOrder
        custom = ["zzzz", "head", "DSIG", "nope"] if a._custom else None
        bad, count = [], 0
        for n in range(len(POOL) + 1):
            for tags in itertools.combinations(POOL, n):
                for given in (list(tags), list(reversed(tags))):
                    before = list(given)
                    r = f(given, custom)
                    count += 1
                    order = custom if a._custom else (OTFTableOrder if "CFF " in tags else TTFTableOrder)
                    known = [t for t in order if t in tags]
                    rest = sorted(t for t in tags if t not in order)
                    if not a._custom and "DSIG" in rest:
                        rest.remove("DSIG")
                        rest.append("DSIG")
                    if list(r) != known + rest or given != before or sorted(r) != sorted(tags):
                        bad.append((tags, r, known + rest))
        return count, bad

    ensures = [prop("a-permutation-with-the-recommended-order-first", lambda a, old, r: r[0] == 2048 and not r[1])]


@contract
class ReorderFontTablesCopiesVerbatim(Contract):
    module = "fontTools.ttLib.ttFont"
    qualname = "reorderFontTables"
    props = ("C04", "C01")
    shadow_mode = "real"
    variants = ("copy",)
    level = "PF"
    assumptions = ("SFNTReader / SFNTWriter are recorders (their own contracts are in sfnt_container.py / sfnt_reader.py)",)

    def setup(self):
        import fontTools.ttLib.ttFont as tf
        self._saved = (tf.SFNTReader, tf.SFNTWriter)

    def teardown(self):
        import fontTools.ttLib.ttFont as tf
        tf.SFNTReader, tf.SFNTWriter = self._saved

    def args(self, S, variant):
        return dict()

    def call(self, f, a):
        import io
        import fontTools.ttLib.ttFont as tf
        tables = {"zzzz": b"Z", "glyf": b"G" * 5, "head": b"H" * 54, "DSIG": b"D", "loca": b"L"}
        log = []

        class _R:
            sfntVersion, flavor, flavorData = "\x00\x01\x00\x00", None, None

            def __init__(self, file, checkChecksums=False):
                self.tables = dict(tables)

            def keys(self):
                return list(tables)

            def __getitem__(self, tag):
                return tables[tag]

        class _W:
            def __init__(self, file, numTables, sfntVersion, flavor, flavorData):
                log.append(("open", numTables, sfntVersion, flavor))

            def __setitem__(self, tag, data):
                log.append(("write", tag, data))

            def close(self):
                log.append(("close",))
        tf.SFNTReader, tf.SFNTWriter = _R, _W
        f(io.BytesIO(b""), io.BytesIO())
        return log, tables

    ensures = [prop("every-table-copied-once-verbatim-in-the-recommended-order", lambda a, old, r: (
        r[0][0] == ("open", 5, "\x00\x01\x00\x00", None) and r[0][-1] == ("close",)
        and [e[1] for e in r[0][1:-1]] == ["head", "loca", "glyf", "zzzz", "DSIG"]        # TTFTableOrder: head ... loca, glyf ...; then the rest; DSIG last
        and all(e[0] == "write" and e[2] is r[1][e[1]] for e in r[0][1:-1])))]
