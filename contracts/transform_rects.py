"""Contracts on fontTools.misc.transform.Transform and misc.arrayTools (C14): the affine
algebra every pen adapter relies on, and rectangle tools against their set semantics."""
from pyvc.core import Contract, contract, prop, internal
from pyvc.spec import And, Or, Not, Implies, Ite, eq, Min, Max

A_REAL = "A-REAL: floats as mathematical reals"


def T(S, name, mod):
    return mod.Transform(*[S.real("%s.%s" % (name, k)) for k in ("xx", "xy", "yx", "yy", "dx", "dy")])


def P(S, name):
    return (S.real(name + ".x"), S.real(name + ".y"))


def peq(p, q):
    return And(eq(p[0], q[0]), eq(p[1], q[1]))


def apply(t, p):
    """The documented meaning of a Transform: (x, y) -> (xx*x + yx*y + dx, xy*x + yy*y + dy)."""
    xx, xy, yx, yy, dx, dy = t
    return (xx * p[0] + yx * p[1] + dx, xy * p[0] + yy * p[1] + dy)


class _TC(Contract):
    module = "fontTools.misc.transform"
    props = ("C14",)
    assumptions = (A_REAL,)


@contract
class TransformPoint(_TC):
    qualname = "Transform.transformPoint"

    def args(self, S, variant):
        return dict(self=T(S, "t", self.mod), p=P(S, "p"))

    ensures = [prop("affine-map", lambda a, old, r: peq(r, apply(a.self, a.p)))]


@contract
class TransformPoints(_TC):
    qualname = "Transform.transformPoints"
    level = "PF"

    def args(self, S, variant):
        return dict(self=T(S, "t", self.mod), points=[P(S, "p"), P(S, "q"), P(S, "r")])

    ensures = [prop("pointwise-affine-map-in-order", lambda a, old, r: len(r) == 3 and And(
        *[peq(r[i], apply(a.self, a.points[i])) for i in range(3)]))]


@contract
class TransformVector(_TC):
    qualname = "Transform.transformVector"

    def args(self, S, variant):
        return dict(self=T(S, "t", self.mod), v=P(S, "v"))

    ensures = [prop("linear-part-only", lambda a, old, r: peq(
        r, (a.self[0] * a.v[0] + a.self[2] * a.v[1], a.self[1] * a.v[0] + a.self[3] * a.v[1])))]


@contract
class TransformCompose(_TC):
    """t.transform(u) applies u first, then t."""
    qualname = "Transform.transform"

    def args(self, S, variant):
        return dict(self=T(S, "t", self.mod), other=T(S, "u", self.mod), _p=P(S, "p"))

    def call(self, f, a):
        return f(a.self, a.other)

    ensures = [prop("composition-law", lambda a, old, r: peq(apply(r, a._p), apply(a.self, apply(a.other, a._p))))]


@contract
class TransformReverse(_TC):
    qualname = "Transform.reverseTransform"

    def args(self, S, variant):
        return dict(self=T(S, "t", self.mod), other=T(S, "u", self.mod), _p=P(S, "p"))

    def call(self, f, a):
        return f(a.self, a.other)

    ensures = [prop("reverse-composition-law", lambda a, old, r: peq(apply(r, a._p), apply(a.other, apply(a.self, a._p))))]


@contract
class TransformInverse(_TC):
    qualname = "Transform.inverse"

    def args(self, S, variant):
        return dict(self=T(S, "t", self.mod), _p=P(S, "p"))

    def call(self, f, a):
        return f(a.self)

    raises = {ZeroDivisionError: lambda a: eq(a.self[0] * a.self[3] - a.self[2] * a.self[1], 0)}
    ensures = [prop("inverse-both-ways", lambda a, old, r: And(
        peq(apply(r, apply(a.self, a._p)), a._p), peq(apply(a.self, apply(r, a._p)), a._p)))]


@contract
class TransformTranslate(_TC):
    qualname = "Transform.translate"

    def args(self, S, variant):
        return dict(self=T(S, "t", self.mod), x=S.real("x"), y=S.real("y"), _p=P(S, "p"))

    def call(self, f, a):
        return f(a.self, a.x, a.y)

    ensures = [prop("pre-translation", lambda a, old, r: peq(apply(r, a._p), apply(a.self, (a._p[0] + a.x, a._p[1] + a.y))))]


@contract
class TransformScale(_TC):
    qualname = "Transform.scale"
    variants = ("xy", "x-only")

    def args(self, S, variant):
        return dict(self=T(S, "t", self.mod), x=S.real("x"), y=S.real("y") if variant == "xy" else None, _p=P(S, "p"))

    def call(self, f, a):
        return f(a.self, a.x, a.y)

    ensures = [prop("pre-scaling", lambda a, old, r: peq(
        apply(r, a._p), apply(a.self, (a._p[0] * a.x, a._p[1] * (a.x if a.y is None else a.y)))))]


# -- rectangles --------------------------------------------------------------------------------

def R(S, name):
    return (S.real(name + ".xMin"), S.real(name + ".yMin"), S.real(name + ".xMax"), S.real(name + ".yMax"))


def inside(p, r):
    return And(r[0] <= p[0], p[0] <= r[2], r[1] <= p[1], p[1] <= r[3])


def wf(r):
    return And(r[0] <= r[2], r[1] <= r[3])


class _RC(Contract):
    module = "fontTools.misc.arrayTools"
    props = ("C14",)
    assumptions = (A_REAL,)


@contract
class UnionRect(_RC):
    qualname = "unionRect"

    def args(self, S, variant):
        return dict(rect1=R(S, "a"), rect2=R(S, "b"), _p=P(S, "p"))

    def requires(self, a):
        return And(wf(a.rect1), wf(a.rect2))

    def call(self, f, a):
        return f(a.rect1, a.rect2)

    ensures = [prop("smallest-enclosing", lambda a, old, r: And(
        Implies(Or(inside(a._p, a.rect1), inside(a._p, a.rect2)), inside(a._p, r)),
        eq(r[0], Min(a.rect1[0], a.rect2[0])), eq(r[2], Max(a.rect1[2], a.rect2[2])),
        eq(r[1], Min(a.rect1[1], a.rect2[1])), eq(r[3], Max(a.rect1[3], a.rect2[3]))))]


@contract
class SectRect(_RC):
    qualname = "sectRect"

    def args(self, S, variant):
        return dict(rect1=R(S, "a"), rect2=R(S, "b"), _p=P(S, "p"))

    def requires(self, a):
        return And(wf(a.rect1), wf(a.rect2))

    def call(self, f, a):
        return f(a.rect1, a.rect2)

    ensures = [prop("intersection-set-semantics", lambda a, old, r: Implies(
        r[0] is True or (r[0] is not False and r[0]),
        And(inside(a._p, r[1]) == And(inside(a._p, a.rect1), inside(a._p, a.rect2)), r[1][0] < r[1][2], r[1][1] < r[1][3]))
        if r[0] else
        # reported empty: the two rectangles share no interior point
        Not(And(a.rect1[0] < a._p[0], a._p[0] < a.rect1[2], a.rect1[1] < a._p[1], a._p[1] < a.rect1[3],
                a.rect2[0] < a._p[0], a._p[0] < a.rect2[2], a.rect2[1] < a._p[1], a._p[1] < a.rect2[3])))]


@contract
class PointInRect(_RC):
    qualname = "pointInRect"

    def args(self, S, variant):
        return dict(p=P(S, "p"), rect=R(S, "r"))

    ensures = [prop("closed-rectangle-membership", lambda a, old, r: (r == inside(a.p, a.rect)) if isinstance(r, bool) is False else
                    (inside(a.p, a.rect) if r else Not(inside(a.p, a.rect))))]


@contract
class UpdateBounds(_RC):
    qualname = "updateBounds"
    variants = ("rect", "none")

    def args(self, S, variant):
        return dict(bounds=R(S, "b") if variant == "rect" else None, p=P(S, "p"), _q=P(S, "q"))

    def requires(self, a):
        return True if a.bounds is None else wf(a.bounds)

    def call(self, f, a):
        return f(a.bounds, a.p)

    ensures = [prop("smallest-rect-containing-old-bounds-and-point", lambda a, old, r: And(
        inside(a.p, r), wf(r),
        True if a.bounds is None else Implies(inside(a._q, a.bounds), inside(a._q, r)),
        Or(eq(r[0], a.p[0]), False if a.bounds is None else eq(r[0], a.bounds[0])),
        Or(eq(r[2], a.p[0]), False if a.bounds is None else eq(r[2], a.bounds[2])),
        Or(eq(r[1], a.p[1]), False if a.bounds is None else eq(r[1], a.bounds[1])),
        Or(eq(r[3], a.p[1]), False if a.bounds is None else eq(r[3], a.bounds[3]))))]


@contract
class CalcBounds(_RC):
    qualname = "calcBounds"
    variants = (0, 1, 2, 3, 4)
    level = "PF"

    def args(self, S, variant):
        return dict(array=[P(S, "p%d" % i) for i in range(variant)])

    ensures = [prop("tight-bounding-box", lambda a, old, r: (
        And(*[inside(p, r) for p in a.array],
            Or(*[eq(r[0], p[0]) for p in a.array]), Or(*[eq(r[2], p[0]) for p in a.array]),
            Or(*[eq(r[1], p[1]) for p in a.array]), Or(*[eq(r[3], p[1]) for p in a.array]))
        if a.array else tuple(r) == (0, 0, 0, 0)))]


@contract
class NormRect(_RC):
    qualname = "normRect"

    def args(self, S, variant):
        return dict(rect=R(S, "r"))

    ensures = [prop("sorted-corners-same-set", lambda a, old, r: And(
        wf(r), eq(r[0], Min(a.rect[0], a.rect[2])), eq(r[2], Max(a.rect[0], a.rect[2])),
        eq(r[1], Min(a.rect[1], a.rect[3])), eq(r[3], Max(a.rect[1], a.rect[3]))))]


@contract
class OffsetInsetRect(_RC):
    qualname = "offsetRect"

    def args(self, S, variant):
        return dict(rect=R(S, "r"), dx=S.real("dx"), dy=S.real("dy"))

    def call(self, f, a):
        return f(a.rect, a.dx, a.dy), self.mod.insetRect(a.rect, a.dx, a.dy)

    ensures = [
        prop("offset-translates", lambda a, old, r: And(eq(r[0][0], a.rect[0] + a.dx), eq(r[0][1], a.rect[1] + a.dy),
                                                        eq(r[0][2], a.rect[2] + a.dx), eq(r[0][3], a.rect[3] + a.dy))),
        prop("inset-shrinks-each-side", lambda a, old, r: And(eq(r[1][0], a.rect[0] + a.dx), eq(r[1][1], a.rect[1] + a.dy),
                                                              eq(r[1][2], a.rect[2] - a.dx), eq(r[1][3], a.rect[3] - a.dy))),
    ]
