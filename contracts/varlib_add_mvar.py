"""_add_MVAR (C10): for every metrics tag whose table the variable font has, the value the font ends
up with and the MVAR record are computed from THAT field of every master that has the table
(sub-model of the masters that have it; a post table carrying the 'not meant' sentinel counts as
absent), the record is present exactly when the masters differ, and it points - through the
optimised store's renumbering - at the deltas stored for it.  OnlineVarStoreBuilder, getSubModel
and VarStore.optimize are stubs (own contracts: VarStoreBuilderHistory, SparseModelHistory)."""
from pyvc.core import Contract, contract, prop, internal
from pyvc.spec import And, Or, Not, Implies, Ite, eq


class _Ns:
    def __init__(self, **kw):
        self.__dict__.update(kw)


class _Builder:
    """storeMasters returns (first value, fresh index) and remembers what it was given under which model"""
    instances = []

    def __init__(self, axisTags):
        self.axisTags, self.model, self.stored = axisTags, None, []
        _Builder.instances.append(self)

    def setModel(self, model):
        self.model = model

    def storeMasters(self, values):
        idx = 100 + len(self.stored)
        self.stored.append((idx, list(values), self.model))
        return values[0], idx

    def finish(self):
        store = _Ns(builder=self)
        store.optimize = lambda: {idx: 7000 + idx for idx, _, _ in self.stored}
        return store


class _MasterModel:
    def getSubModel(self, tables):
        present = tuple(i for i, t in enumerate(tables) if t is not None)
        return ("submodel", present), [t for t in tables if t is not None]


VARIANTS = ("all-masters", "second-master-without-OS/2", "post-sentinel-in-third-master", "nothing-varies")
SYMBOLIC = {"hasc": ("OS/2", "sTypoAscender"), "xhgt": ("OS/2", "sxHeight"), "undo": ("post", "underlinePosition"), "vasc": ("vhea", "ascent")}


@contract
class AddMVAR(Contract):
    module = "fontTools.varLib"
    qualname = "_add_MVAR"
    props = ("C10",)
    shadow_mode = "function"
    variants = VARIANTS
    level = "PF"
    assumptions = ("OnlineVarStoreBuilder.storeMasters, VariationModel.getSubModel and VarStore.optimize are recorders / stubs",)

    def rebind(self):
        from fontTools.varLib import varStore
        return {"varStore": _Ns(OnlineVarStoreBuilder=_Builder), "newTable": lambda tag: _Ns(tableTag=tag)}

    def args(self, S, variant):
        from fontTools.varLib.mvar import MVAR_ENTRIES
        _Builder.instances.clear()
        n = 3
        fields = {}
        for tag, (tt, item) in MVAR_ENTRIES.items():
            fields.setdefault(tt, []).append(item)

        def table(tt, m):
            t = _Ns()
            for item in fields[tt]:
                setattr(t, item, 10 + len(item))                     # the same in every master: no record
            return t
        masters, sym = [], {}
        for m in range(n):
            d = {tt: table(tt, m) for tt in ("OS/2", "hhea", "post")}     # no master (and no font) has vhea
            masters.append(d)
        for tag, (tt, item) in SYMBOLIC.items():
            if tt == "vhea" or variant == "nothing-varies":
                continue
            for m in range(n):
                v = S.int("%s_m%d" % (tag, m), -3000, 3000)
                sym[(tag, m)] = v
                setattr(masters[m][tt], item, v)
        if variant == "second-master-without-OS/2":
            del masters[1]["OS/2"]
        if variant == "post-sentinel-in-third-master":
            masters[2]["post"].underlinePosition = -0x8000
            masters[2]["post"].underlineThickness = -0x8000
            sym.pop(("undo", 2), None)
        font = {tt: table(tt, -1) for tt in ("OS/2", "hhea", "post")}
        return dict(font=font, masterModel=_MasterModel(), master_ttfs=masters, axisTags=["wght"], _sym=sym, _variant=variant, _n=n)

    def requires(self, a):
        # the post sentinel is not a value of its own
        return And(*[Not(eq(v, -0x8000)) for (tag, m), v in a._sym.items() if tag == "undo"])

    def call(self, f, a):
        f(a.font, a.masterModel, a.master_ttfs, a.axisTags)
        return a.font, (_Builder.instances[-1] if _Builder.instances else None)

    @staticmethod
    def _post(a, r):
        font, builder = r
        cs = []
        recs = {rec.ValueTag: rec.VarIdx for rec in font["MVAR"].table.ValueRecord} if "MVAR" in font else {}
        if "MVAR" in font:
            tags = [rec.ValueTag for rec in font["MVAR"].table.ValueRecord]
            cs.append(tags == sorted(tags) and font["MVAR"].table.ValueRecordCount == len(tags))
        stored = {idx: (vals, model) for idx, vals, model in (builder.stored if builder else [])}
        for tag, (tt, item) in SYMBOLIC.items():
            if tt == "vhea":
                cs.append(tag not in recs)
                continue
            present = [m for m in range(a._n) if tt in a.master_ttfs[m] and not (tag == "undo" and a._variant == "post-sentinel-in-third-master" and m == 2)]
            vals = [getattr(a.master_ttfs[m][tt], item) for m in present]
            differ = Or(*[Not(eq(vals[0], v)) for v in vals[1:]])
            cs.append(eq(getattr(font[tt], item), vals[0]))
            has = tag in recs
            cs.append(eq(has, differ))
            if has:
                idx = recs[tag] - 7000
                if idx not in stored:
                    return False
                svals, model = stored[idx]
                cs.append(model == ("submodel", tuple(present)) and len(svals) == len(vals))
                cs += [eq(x, y) for x, y in zip(svals, vals)]
        # tags whose field is the same in all masters never get a record
        cs.append(all(t in SYMBOLIC for t in recs))
        return And(*cs)

    ensures = [prop("each-tag-from-its-own-field-of-the-masters-that-have-the-table", lambda a, old, r: AddMVAR._post(a, r))]
