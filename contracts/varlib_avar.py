"""C10, second sentence: "user-space axis coordinates map to normalised coordinates exactly as
the designspace's axis maps specify".  _add_avar stores, for every map entry k -> M(k), the
avar segment normalizeValue(k, K) -> normalizeValue(M(k), V) with K = (min, default, max) in
user space and V = M(K).  The composition lemma below is checked on the REAL
normalizeValue and piecewiseLinearMap: what a renderer computes from fvar + avar for a user
value u between two adjacent map keys equals the default-normalised design value of u."""
from pyvc.core import Contract, contract, prop, internal
from pyvc.spec import And, Or, Not, Implies, Ite, eq, div


@contract
class AvarCompositionLemma(Contract):
    module = "fontTools.varLib.models"
    qualname = "piecewiseLinearMap"
    props = ("C10",)
    variants = ("above-default", "below-default")
    assumptions = ("A-REAL", "F2Dot14 quantisation of the stored avar values is outside the lemma",
                   "the default is a map key and outputs are ascending: enforced by _add_avar's VarLibValidationError checks")
    timeout_ms = 30000

    def args(self, S, variant):
        return dict(kmin=S.real("kmin"), kdef=S.real("kdef"), kmax=S.real("kmax"),
                    vmin=S.real("vmin"), vdef=S.real("vdef"), vmax=S.real("vmax"),
                    a=S.real("a"), b=S.real("b"), va=S.real("va"), vb=S.real("vb"), u=S.real("u"),
                    above=(variant == "above-default"))

    def requires(self, x):
        side = And(x.kdef <= x.a, x.b <= x.kmax, x.vdef <= x.va, x.vb <= x.vmax) if x.above else \
            And(x.kmin <= x.a, x.b <= x.kdef, x.vmin <= x.va, x.vb <= x.vdef)
        return And(x.kmin < x.kdef, x.kdef < x.kmax, x.vmin < x.vdef, x.vdef < x.vmax,
                   x.a < x.b, x.va < x.vb, x.a <= x.u, x.u <= x.b, side,
                   # M(kdef) = vdef, M(kmin) = vmin, M(kmax) = vmax: a key equal to an anchor has the anchor's value
                   Implies(eq(x.a, x.kdef), eq(x.va, x.vdef)), Implies(eq(x.b, x.kdef), eq(x.vb, x.vdef)),
                   Implies(eq(x.a, x.kmin), eq(x.va, x.vmin)), Implies(eq(x.b, x.kmax), eq(x.vb, x.vmax)))

    def call(self, f, x):
        nv = self.mod.normalizeValue
        K, V = (x.kmin, x.kdef, x.kmax), (x.vmin, x.vdef, x.vmax)
        curve = {nv(x.a, K): nv(x.va, V), nv(x.b, K): nv(x.vb, V)}          # what _add_avar stores
        rendered = f(nv(x.u, K), curve)                                      # fvar normalisation, then avar
        design = x.va + (x.vb - x.va) * (x.u - x.a) / (x.b - x.a)            # the designspace map at u
        return rendered, nv(design, V)

    ensures = [prop("renderer-normalised-value-equals-designspace-map", lambda x, old, r: eq(r[0], r[1]))]
