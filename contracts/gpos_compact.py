"""GPOS compaction kernels (C06): which cells of a class-kerning matrix may be dropped before it is
regrouped, and that every other cell reaches the regrouped subtables with its value records."""
from pyvc.core import Contract, contract, prop, internal
from pyvc.spec import And, Or, Not, Implies, Ite, eq

NUMERIC = ("XPlacement", "YPlacement", "XAdvance", "YAdvance")
DEVICES = ("XPlaDevice", "YPlaDevice", "XAdvDevice", "YAdvDevice")

# (which of Value1 / Value2 exist, which device fields are set)
SHAPES = {
    "both-plain": (("Value1", "Value2"), ()),
    "value1-only": (("Value1",), ()),
    "value2-only": (("Value2",), ()),
    "neither": ((), ()),
    "value1-x-advance-device": (("Value1",), (("Value1", "XAdvDevice"),)),
    "value2-y-placement-device": (("Value1", "Value2"), (("Value2", "YPlaDevice"),)),
    "value1-variation-index": (("Value1", "Value2"), (("Value1", "XPlaDevice"),)),
}


def _value(S, tag, fields, devices):
    from fontTools.ttLib.tables.otBase import ValueRecord
    from fontTools.ttLib.tables import otTables as ot
    v = ValueRecord()
    nums = {}
    for k, f in enumerate(fields):
        nums[f] = S.int("%s.%s" % (tag, f), -32768, 32767)
        setattr(v, f, nums[f])
    for d in devices:
        dev = ot.Device()
        dev.DeltaFormat, dev.StartSize, dev.EndSize, dev.DeltaValue = (0x8000, 0, 7, []) if d == "XPlaDevice" else (1, 9, 10, [1, -1])
        setattr(v, d, dev)
    return v, nums


@contract
class IsReallyZero(Contract):
    """is_really_zero(class2record) is True only for a cell without ANY effect: every numeric
    field of both value records 0 (or absent) and no Device / VariationIndex table attached -
    and it is True for every such cell."""
    module = "fontTools.otlLib.optimize.gpos"
    qualname = "is_really_zero"
    props = ("C06",)
    shadow_mode = "real"
    variants = tuple(SHAPES)
    level = "PF"

    def args(self, S, variant):
        from fontTools.ttLib.tables import otTables as ot
        present, devs = SHAPES[variant]
        rec = ot.Class2Record()
        nums = {}
        for name in present:
            fields = NUMERIC if name == "Value1" else NUMERIC[2:]
            v, n = _value(S, name, fields, [d for who, d in devs if who == name])
            setattr(rec, name, v)
            nums.update({(name, f): x for f, x in n.items()})
        return dict(class2=rec, _nums=nums, _has_device=bool(devs))

    ensures = [
        prop("a-cell-with-any-effect-is-never-dropped", lambda a, old, r: Implies(bool(r) if isinstance(r, bool) else r,
             And(not a._has_device, *[eq(x, 0) for x in a._nums.values()]))),
        internal("an-empty-cell-is-dropped", lambda a, old, r: Implies(And(not a._has_device, *[eq(x, 0) for x in a._nums.values()]), r)),
    ]


@contract
class CompactClassPairsKeepsEveryCell(Contract):
    """compact_class_pairs on a 3 x 4 class matrix (the last row and the last column belong to classes without glyphs) whose cells have symbolic values (one cell
    with only a device, one cell all-zero by value): the clustering and the subtable builder
    are stubbed to hand back what they receive, and every cell with any effect arrives there
    under (glyphs of its first class, glyphs of its second class) with its own value records;
    when a cell against second class 0 ("every other glyph", which no second-glyph coverage can
    name) has an effect, the subtable is handed back untouched instead."""
    module = "fontTools.otlLib.optimize.gpos"
    qualname = "compact_class_pairs"
    props = ("C06",)
    variants = ("matrix-2x3",)
    level = "PF"
    assumptions = ("cluster_pairs_by_class2_coverage_custom_cost and buildPairPosClassesSubtable are stubbed (identity): "
                   "the regrouping itself is under the bounded shaping harness, not this contract",)

    def args(self, S, variant):
        import fontTools.otlLib.builder as builder
        from fontTools.ttLib.tables import otTables as ot
        mod = self.mod
        mod.cluster_pairs_by_class2_coverage_custom_cost = lambda font, pairs, level: [pairs]
        self._saved = builder.buildPairPosClassesSubtable
        builder.buildPairPosClassesSubtable = lambda pairs, glyphMap: pairs
        st = ot.PairPos()
        st.Format = 2
        st.Coverage = ot.Coverage()
        st.Coverage.glyphs = ["A", "B", "C"]
        st.ClassDef1, st.ClassDef2 = ot.ClassDef(), ot.ClassDef()
        st.ClassDef1.classDefs = {"B": 1, "C": 1, "Q": 2}      # Q is not covered: first class 2 never applies
        st.ClassDef2.classDefs = {"x": 1, "y": 2, "z": 2}        # no glyph has second class 3
        cells = {}
        st.Class1Record = []
        for i in range(3):
            c1 = ot.Class1Record()
            c1.Class2Record = []
            for j in range(4):
                rec = ot.Class2Record()
                devs = ["XAdvDevice"] if (i, j) == (1, 2) else []
                v1, n1 = _value(S, "c%d%d.v1" % (i, j), NUMERIC[2:3], devs)
                v2, n2 = _value(S, "c%d%d.v2" % (i, j), NUMERIC[:1] if (i, j) == (0, 1) else (), [])
                rec.Value1, rec.Value2 = v1, v2
                cells[(i, j)] = (rec, list(n1.values()) + list(n2.values()), bool(devs))
                c1.Class2Record.append(rec)
            st.Class1Record.append(c1)

        class _Font:
            def getReverseGlyphMap(self):
                return {}
        return dict(font=_Font(), level=5, subtable=st, _cells=cells)

    def teardown(self):
        import fontTools.otlLib.builder as builder
        if getattr(self, "_saved", None):
            builder.buildPairPosClassesSubtable = self._saved

    @staticmethod
    def _post(a, r):
        if len(r) != 1:
            return False
        effect = {ij: Or(dev, *[Not(eq(x, 0)) for x in nums]) for ij, (rec, nums, dev) in a._cells.items()}
        if r[0] is a.subtable:
            # left alone: only because some cell against "every other glyph" (second class 0) has an effect
            return Or(effect[(0, 0)], effect[(1, 0)])          # (2, 0) is in a row that never applies
        pairs = r[0]
        c1 = {0: ("A",), 1: ("B", "C")}
        c2 = {1: ("x",), 2: ("y", "z")}
        cs = []
        if any(not k[0] or not k[1] for k in pairs):
            return False                                # a pair keyed by an empty class names no glyph at all
        for (i, j), (rec, nums, dev) in a._cells.items():
            if i == 2 or j == 3:
                continue                                # a class without glyphs: the cell can never apply
            if j == 0:
                cs.append(Not(effect[(i, j)]))          # such a cell cannot be regrouped by second-glyph coverage
                continue
            key = (c1[i], c2[j])
            there = key in pairs and pairs[key][0] is rec.Value1 and pairs[key][1] is rec.Value2
            cs.append(Implies(effect[(i, j)], there))
        return And(*cs)

    ensures = [prop("every-cell-with-an-effect-reaches-the-regrouping", lambda a, old, r: CompactClassPairsKeepsEveryCell._post(a, r))]
