"""gvar/cvar packed point numbers and packed deltas (C15, C02): decode(encode(x)) == x for
point sets / delta lists of 1..3 symbolic values (every order and every byte/word/zero-run
encoding choice the encoder can make for them)."""
from pyvc.core import Contract, contract, prop, internal
from pyvc.models import std, SymBytes
from pyvc.spec import And, Or, Not, Implies, Ite, eq

REBIND = std("struct", "len", "bytes", "bytearray", "array", "int")


@contract
class PackedPointsRoundTrip(Contract):
    module = "fontTools.ttLib.tables.TupleVariation"
    qualname = "TupleVariation.decompilePoints_"
    props = ("C15", "C02")
    rebind = REBIND
    variants = (1, 2, 3)
    level = "PF"
    max_paths = 60000
    deadline_s = 180     # seconds on the unchanged tree; a changed decoder that stops consuming its input must not run for long

    def args(self, S, variant):
        return dict(points=[S.int("p%d" % i, 0, 65535) for i in range(variant)])

    def requires(self, a):
        p = a.points
        return And(*[Not(eq(p[i], p[j])) for i in range(len(p)) for j in range(i + 1, len(p))])

    def call(self, f, a):
        TV = self.mod.TupleVariation
        data = TV.compilePoints(set(a.points))
        return data, TV.decompilePoints_(65536, data, 0, "gvar")

    @staticmethod
    def _post(a, r):
        data, (pts, pos) = r
        pts = list(pts)
        if len(pts) != len(a.points) or pos != len(data):
            return False
        # ascending and the same set
        cs = [pts[i] < pts[i + 1] for i in range(len(pts) - 1)]
        cs += [Or(*[eq(q, p) for q in pts]) for p in a.points]
        return And(*cs)

    ensures = [prop("decode-of-encode-is-the-sorted-set-and-consumes-all-bytes", lambda a, old, r: PackedPointsRoundTrip._post(a, r))]


@contract
class PackedDeltasRoundTrip(Contract):
    """decompileDeltas_(n, compileDeltaValues_(deltas)) == deltas for lists of 1..3 symbolic
    int32 values (zero runs, byte, word and long runs, and every way the size optimiser splits
    or joins them), with optimizeSize on and off; every run header encodes a length 1..64."""
    module = "fontTools.ttLib.tables.TupleVariation"
    qualname = "TupleVariation.decompileDeltas_"
    props = ("C15", "C02")
    rebind = REBIND
    variants = tuple((n, opt) for n in (1, 2, 3) for opt in (True, False))
    level = "PF"
    max_paths = 60000
    deadline_s = 180     # see PackedPointsRoundTrip

    def args(self, S, variant):
        n, opt = variant
        return dict(deltas=[S.int("d%d" % i, -2 ** 31, 2 ** 31 - 1) for i in range(n)], _opt=opt)

    def call(self, f, a):
        TV = self.mod.TupleVariation
        data = TV.compileDeltaValues_(list(a.deltas), optimizeSize=a._opt)
        return data, f(len(a.deltas), data, 0)

    ensures = [prop("decode-of-encode-is-identity-and-consumes-all-bytes", lambda a, old, r: (
        len(r[1][0]) == len(a.deltas) and r[1][1] == len(r[0]) and And(*[eq(x, y) for x, y in zip(r[1][0], a.deltas)])))]
