"""gvar/cvar packed point numbers and packed deltas (C15, C02): decode(encode(x)) == x for
point sets / delta lists of 1..3 symbolic values (every order and every byte/word/zero-run
encoding choice the encoder can make for them)."""
from pyvc.core import Contract, contract, prop, internal
from pyvc.models import std, SymBytes
from pyvc.spec import And, Or, Not, Implies, Ite, eq

REBIND = std("struct", "len", "bytes", "bytearray", "array", "int")


@contract
class PackedPointsRoundTrip(Contract):
    module = "fontTools.ttLib.tables.TupleVariation"
    qualname = "TupleVariation.decompilePoints_"
    props = ("C15", "C02")
    rebind = REBIND
    variants = (1, 2, 3)
    level = "PF"
    max_paths = 60000
    deadline_s = 180     # seconds on the unchanged tree; a changed decoder that stops consuming its input must not run for long

    def args(self, S, variant):
        return dict(points=[S.int("p%d" % i, 0, 65535) for i in range(variant)])

    def requires(self, a):
        p = a.points
        return And(*[Not(eq(p[i], p[j])) for i in range(len(p)) for j in range(i + 1, len(p))])

    def call(self, f, a):
        TV = self.mod.TupleVariation
        data = TV.compilePoints(set(a.points))
        return data, TV.decompilePoints_(65536, data, 0, "gvar")

    @staticmethod
    def _post(a, r):
        data, (pts, pos) = r
        pts = list(pts)
        if len(pts) != len(a.points) or pos != len(data):
            return False
        # ascending and the same set
        cs = [pts[i] < pts[i + 1] for i in range(len(pts) - 1)]
        cs += [Or(*[eq(q, p) for q in pts]) for p in a.points]
        return And(*cs)

    ensures = [prop("decode-of-encode-is-the-sorted-set-and-consumes-all-bytes", lambda a, old, r: PackedPointsRoundTrip._post(a, r))]


@contract
class PackedDeltasRoundTrip(Contract):
    """decompileDeltas_(n, compileDeltaValues_(deltas)) == deltas for lists of 1..3 symbolic
    int32 values (zero runs, byte, word and long runs, and every way the size optimiser splits
    or joins them), with optimizeSize on and off; every run header encodes a length 1..64."""
    module = "fontTools.ttLib.tables.TupleVariation"
    qualname = "TupleVariation.decompileDeltas_"
    props = ("C15", "C02")
    rebind = REBIND
    variants = tuple((n, opt) for n in (1, 2, 3) for opt in (True, False))
    level = "PF"
    max_paths = 60000
    deadline_s = 180     # see PackedPointsRoundTrip

    def args(self, S, variant):
        n, opt = variant
        return dict(deltas=[S.int("d%d" % i, -2 ** 31, 2 ** 31 - 1) for i in range(n)], _opt=opt)

    def call(self, f, a):
        TV = self.mod.TupleVariation
        data = TV.compileDeltaValues_(list(a.deltas), optimizeSize=a._opt)
        return data, f(len(a.deltas), data, 0)

    ensures = [prop("decode-of-encode-is-identity-and-consumes-all-bytes", lambda a, old, r: (
        len(r[1][0]) == len(a.deltas) and r[1][1] == len(r[0]) and And(*[eq(x, y) for x, y in zip(r[1][0], a.deltas)])))]


@contract
class PackedDeltaRunsRoundTrip(Contract):
    """TupleVariation.compileDeltaValues_ then decompileDeltas_ over the run structure the
    symbolic contract above cannot reach: EVERY sequence of one to four values from the twelve
    values at the byte / word / long boundaries (0, +-1, 127, 128, -128, -129, 32767, 32768,
    -32768, -32769, 70000), and every two-valued sequence a*na + b*nb (+ a*na) with run lengths
    at the 64-value run limit (1, 2, 63, 64, 65, 127, 128, 129): the decoder gives back exactly
    the values and consumes exactly the bytes written."""
    module = "fontTools.ttLib.tables.TupleVariation"
    qualname = "TupleVariation.decompileDeltas_"
    props = ("C15", "C02")
    shadow_mode = "real"
    level = "PF"
    assumptions = ("token-valued: 34140 delta sequences",)

    def args(self, S, variant):
        return {}

    def call(self, f, a):
        import itertools
        from fontTools.ttLib.tables.TupleVariation import TupleVariation as TV
        alpha = [0, 1, -1, 127, 128, -128, -129, 32767, 32768, -32768, -32769, 70000]
        bad, n = [], 0

        def check(vals):
            data = TV.compileDeltaValues_(vals)
            got, pos = f(len(vals), bytes(data), 0)
            if list(got) != list(vals) or pos != len(data):
                bad.append((vals[:6], len(vals), list(got)[:6], pos, len(data)))
            return 1
        for L in range(1, 5):
            for vals in itertools.product(alpha, repeat=L):
                n += check(list(vals))
        for x, y in itertools.product(alpha, repeat=2):
            for na in (1, 2, 63, 64, 65, 127, 128, 129):
                for nb in (1, 2, 63, 64, 65):
                    n += check([x] * na + [y] * nb)
                    n += check([x] * na + [y] * nb + [x] * na)
        return n, bad[:5]

    ensures = [prop("decode-of-encode-at-run-and-width-boundaries", lambda a, old, r: r[0] == 34140 and not r[1])]
