"""name table (C02, C01): compile writes the records sorted by (platform, encoding, language, name id),
each with an (offset, length) that points at ITS string in the storage area (equal strings may share
storage), behind a header (format 0, count, 6 + 12 * count); decompile returns the same records.
Ids are symbolic, strings are concrete byte strings (some equal, one empty)."""
from pyvc.core import Contract, contract, prop, internal
from pyvc.models import std, SymBytes
from pyvc.spec import And, Or, Not, Implies, Ite, eq

STRINGS = (b"Regular", b"\x00R\x00e", b"Regular", b"")


def _items(b):
    return list(b.items) if isinstance(b, SymBytes) else list(b)


def _be(items):
    v = 0
    for x in items:
        v = v * 256 + x
    return v


@contract
class NameTableRoundTrip(Contract):
    module = "fontTools.ttLib.tables._n_a_m_e"
    qualname = "table__n_a_m_e.decompile"
    props = ("C02", "C01")
    variants = (2, 3, 4)
    level = "PF"

    def rebind(self):
        from pyvc.models import sstruct_shadow
        return dict(std("struct", "len", "bytes", "int", "bytesjoin"), sstruct=sstruct_shadow())

    def variants_for(self, tier):
        return (2, 3) if tier == "quick" else self.variants

    def args(self, S, variant):
        mod = self.mod
        t = mod.table__n_a_m_e()
        recs = []
        for i in range(variant):
            r = mod.NameRecord()
            r.platformID, r.platEncID, r.langID, r.nameID = (S.int("%s%d" % (k, i), 0, 0xFFFF) for k in ("plat", "enc", "lang", "name"))
            r.string = STRINGS[i]
            recs.append(r)
        t.names = list(recs)
        return dict(self=t, _recs=recs, _ids=[(r.platformID, r.platEncID, r.langID, r.nameID) for r in recs], _n=variant)

    def call(self, f, a):
        cls = type(a.self)
        data = cls.compile(a.self, None)
        back = cls()
        f(back, data, None)
        return data, back.names, list(a.self.names)

    @staticmethod
    def _post(a, r):
        data, back, order = r
        n = a._n
        b = _items(data)
        cs = [eq(_be(b[0:2]), 0), eq(_be(b[2:4]), n), eq(_be(b[4:6]), 6 + 12 * n)]
        storage = b[6 + 12 * n:]
        # records as written: sorted, each pointing at its own string
        idx = {id(rec): i for i, rec in enumerate(a._recs)}
        if len(order) != n or len(back) != n:
            return False
        keys = []
        for k, rec in enumerate(order):
            i = idx[id(rec)]
            ids = a._ids[i]
            at = 6 + 12 * k
            fields = [_be(b[at + 2 * j: at + 2 * j + 2]) for j in range(6)]
            cs += [eq(fields[0], ids[0]), eq(fields[1], ids[1]), eq(fields[2], ids[2]), eq(fields[3], ids[3])]
            length, offset = fields[4], fields[5]
            cs.append(eq(length, len(STRINGS[i])))
            off = offset if isinstance(offset, int) else offset.concrete()
            if off is None or list(storage[off:off + len(STRINGS[i])]) != list(STRINGS[i]):
                return False
            keys.append(ids)
            # and read back
            got = back[k]
            cs += [eq(got.platformID, ids[0]), eq(got.platEncID, ids[1]), eq(got.langID, ids[2]), eq(got.nameID, ids[3])]
            gs = got.string
            if bytes(_items(gs)) != STRINGS[i] or hasattr(got, "offset") or hasattr(got, "length"):
                return False
        # sorted by the id tuple (ties: by string bytes)
        for x, y in zip(keys, keys[1:]):
            lt = False
            for p in range(3, -1, -1):
                lt = Or(x[p] < y[p], And(eq(x[p], y[p]), lt)) if p < 3 else Or(x[p] < y[p], eq(x[p], y[p]))
            cs.append(lt)
        return And(*cs)

    ensures = [prop("sorted-records-point-at-their-strings-and-read-back", lambda a, old, r: NameTableRoundTrip._post(a, r))]


@contract
class NameCompileIsRepeatable(Contract):
    """name.compile twice gives the same bytes, and what the table answers afterwards is what it
    answered before: the same records (as a multiset) with the same strings, and getName's answer
    for every (nameID, platform, encoding, language) of a record - compile may sort the list and
    annotate records with storage offsets, which no reader of the table sees."""
    module = "fontTools.ttLib.tables._n_a_m_e"
    qualname = "table__n_a_m_e.compile"
    props = ("C16",)
    variants = (2, 3)
    level = "PF"

    def rebind(self):
        from pyvc.models import sstruct_shadow
        return dict(std("struct", "len", "bytes", "int", "bytesjoin"), sstruct=sstruct_shadow())

    def args(self, S, variant):
        mod = self.mod
        t = mod.table__n_a_m_e()
        recs = []
        for i in range(variant):
            r = mod.NameRecord()
            r.platformID, r.platEncID, r.langID, r.nameID = (S.int("%s%d" % (k, i), 0, 3) for k in ("plat", "enc", "lang", "name"))
            r.string = STRINGS[i]
            recs.append(r)
        t.names = list(recs)
        return dict(self=t, ttFont=None, _recs=recs, _ids=[(r.platformID, r.platEncID, r.langID, r.nameID) for r in recs])

    def requires(self, a):
        # distinct keys: which of two records with one key getName returns is not specified
        ids = a._ids
        return And(*[Or(*[Not(eq(x, y)) for x, y in zip(ids[i], ids[j])]) for i in range(len(ids)) for j in range(i + 1, len(ids))])

    def call(self, f, a):
        first = f(a.self, a.ttFont)
        second = f(a.self, a.ttFont)
        answers = [a.self.getName(ids[3], ids[0], ids[1], ids[2]) for ids in a._ids]
        return first, second, answers, list(a.self.names)

    @staticmethod
    def _post(a, r):
        first, second, answers, names = r
        b1, b2 = _items(first), _items(second)
        if len(b1) != len(b2) or len(names) != len(a._recs) or not all(any(x is y for y in names) for x in a._recs):
            return False
        cs = [eq(x, y) for x, y in zip(b1, b2)]
        cs += [ans is rec for ans, rec in zip(answers, a._recs)]
        cs += [bytes(_items(rec.string)) == STRINGS[i] for i, rec in enumerate(a._recs)]
        return And(*cs)

    ensures = [prop("second-compile-identical-and-table-answers-unchanged", lambda a, old, r: NameCompileIsRepeatable._post(a, r))]
