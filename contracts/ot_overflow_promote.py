"""fixLookupOverFlows (C06): resolving an offset overflow by promoting lookups to Extension lookups
never changes what a lookup says - every subtable is still there, in place, either as it was or
wrapped in an Extension subtable (Format 1) whose ExtSubTable IS the original; promotion starts at
the lookup the overflow record points at (the previous one for a LookupList -> Lookup overflow,
further back past lookups that are Extension already) and covers every later lookup; the
function reports 1 exactly when it promoted something.  All patterns of 'already Extension' over
up to four lookups, every overflow position, GSUB and GPOS."""
import itertools

from pyvc.core import Contract, contract, prop, internal


@contract
class FixLookupOverFlows(Contract):
    module = "fontTools.ttLib.tables.otTables"
    qualname = "fixLookupOverFlows"
    props = ("C06",)
    shadow_mode = "real"
    variants = ("GSUB", "GPOS")
    level = "PF"
    assumptions = ("token-valued: subtables are compared by identity; the family is every pattern of Extension / plain lookups over 1..4 lookups with 1..2 subtables",)

    def args(self, S, variant):
        return dict(_table=variant)

    def call(self, f, a):
        from fontTools.ttLib.tables import otTables as ot, otBase
        tag = a._table
        ext_type = 7 if tag == "GSUB" else 9
        ext_cls = ot.ExtensionSubst if tag == "GSUB" else ot.ExtensionPos
        plain_cls = ot.SingleSubst if tag == "GSUB" else ot.SinglePos
        plain_type = 1
        bad, count = [], 0
        for n in (1, 2, 3, 4):
            for pattern in itertools.product((False, True), repeat=n):
                for k in range(n):
                    for sub_index in (None, 0):
                        lookups, originals = [], []
                        for i, is_ext in enumerate(pattern):
                            lk = ot.Lookup()
                            lk.LookupFlag = 0
                            subs = []
                            for j in range(1 + i % 2):
                                st = plain_cls()
                                subs.append(st)
                            originals.append(list(subs))
                            if is_ext:
                                wrapped = []
                                for st in subs:
                                    e = ext_cls()
                                    e.Format, e.ExtSubTable = 1, st
                                    wrapped.append(e)
                                lk.LookupType, lk.SubTable = ext_type, wrapped
                            else:
                                lk.LookupType, lk.SubTable = plain_type, subs
                            lookups.append(lk)

                        class _T:
                            pass
                        t = _T()
                        t.table = _T()
                        t.table.LookupList = _T()
                        t.table.LookupList.Lookup = lookups
                        rec = otBase.OverflowErrorRecord((tag, k, sub_index, None, None))
                        ok = f({tag: t}, rec)
                        count += 1
                        # meaning: every original subtable still in place, plain or wrapped once
                        same = True
                        for lk, orig in zip(lookups, originals):
                            if len(lk.SubTable) != len(orig):
                                same = False
                                continue
                            for st, o in zip(lk.SubTable, orig):
                                if lk.LookupType == ext_type:
                                    same = same and type(st) is ext_cls and st.Format == 1 and st.ExtSubTable is o
                                else:
                                    same = same and st is o and lk.LookupType == plain_type
                        # where promotion starts
                        start = k - 1 if sub_index is None else k
                        while start >= 0 and pattern[start]:
                            start -= 1
                        if start < 0:
                            want_ext = list(pattern)
                        else:
                            want_ext = list(pattern[:start]) + [True] * (n - start)
                        got_ext = [lk.LookupType == ext_type for lk in lookups]
                        changed = want_ext != list(pattern)
                        if not (same and got_ext == want_ext and bool(ok) == changed):
                            bad.append((pattern, k, sub_index, got_ext, want_ext, ok, same))
        return count, bad

    ensures = [prop("promotion-wraps-subtables-in-place-from-the-right-lookup-on", lambda a, old, r: r[0] > 100 and not r[1])]
