"""Glyph.compile (C04): with recalcBBoxes the header written in front of the point data is the
bounding box OF THE POINTS BEING WRITTEN - whatever box the glyph object carried, and also for a
glyph that is still packed (raw data, never expanded since it was read); without recalcBBoxes
nothing is recomputed and a packed glyph is written back verbatim."""
from pyvc.core import Contract, contract, prop, internal
from pyvc.models import std, SymBytes
from pyvc.spec import And, Or, Not, Implies, Ite, eq


def _items(b):
    return list(b) if isinstance(b, (bytes, bytearray)) else list(b.items)


def _i16(hi, lo):
    v = hi * 256 + lo
    return Ite(v >= 32768, v - 65536, v)


def _min(xs):
    m = xs[0]
    for x in xs[1:]:
        m = Ite(x < m, x, m)
    return m


def _max(xs):
    m = xs[0]
    for x in xs[1:]:
        m = Ite(x > m, x, m)
    return m


@contract
class GlyphCompileHeaderBox(Contract):
    """Simple glyph with 1..3 points at symbolic integer coordinates and an arbitrary (wrong)
    stored box.  compileCoordinates is used through a tagging stub (its own contract is
    CoordinatesRoundTrip); recalcBounds / getCoordinates / calcIntBounds are the real ones."""
    module = "fontTools.ttLib.tables._g_l_y_f"
    qualname = "Glyph.compile"
    props = ("C04",)
    level = "PF"
    variants = tuple((n, packed, recalc) for n in (1, 2, 3) for packed in (False, True) for recalc in (True, False))
    also = ("Glyph.recalcBounds",)
    assumptions = ("Glyph.expand of a packed glyph is replaced by a stub that installs the prepared points (decoding is under CoordinatesRoundTrip)",)

    def rebind(self):
        from pyvc.models import round_tools, sstruct_shadow
        rt = round_tools()
        return std("struct", "len", "bytes", "bytearray", "array", "int", otRound=rt.otRound, sstruct=sstruct_shadow())

    def args(self, S, variant):
        n, packed, recalc = variant
        mod = self.mod
        g = mod.Glyph.__new__(mod.Glyph)
        pts = [(S.int("x%d" % i, -16000, 16000), S.int("y%d" % i, -16000, 16000)) for i in range(n)]
        box = [S.int(nm, -32768, 32767) for nm in ("sxMin", "syMin", "sxMax", "syMax")]
        raw = b"\x00\x01" + b"RAW-DATA-AS-READ"

        def install(glyph):
            glyph.numberOfContours = 1
            glyph.xMin, glyph.yMin, glyph.xMax, glyph.yMax = box
            glyph.endPtsOfContours = [n - 1]
            glyph.coordinates = mod.GlyphCoordinates(pts)
            glyph.flags = mod.bytearray([1] * n)
            glyph.program = None
        log = []
        if packed:
            g.data = raw

            def expand(self, glyfTable):
                log.append("expand")
                del self.data
                install(self)
            mod.Glyph.expand = expand
        else:
            install(g)
        mod.Glyph.compileCoordinates = lambda self, optimizeSize=True: (log.append("coords"), b"<POINTS>")[1]
        return dict(self=g, glyfTable={}, recalcBBoxes=recalc, _pts=pts, _box=box, _raw=raw, _v=variant, _log=log)

    def call(self, f, a):
        return f(a.self, a.glyfTable, a.recalcBBoxes), list(a._log)

    @staticmethod
    def _post(a, r):
        data, log = r
        n, packed, recalc = a._v
        if packed and not recalc:
            return data == a._raw and log == []
        b = _items(data)
        if len(b) != 10 + len(b"<POINTS>") or bytes(x if isinstance(x, int) else -1 for x in b[10:]) != b"<POINTS>":
            return False
        got = [_i16(b[2 + 2 * k], b[3 + 2 * k]) for k in range(4)]
        xs, ys = [p[0] for p in a._pts], [p[1] for p in a._pts]
        want = [_min(xs), _min(ys), _max(xs), _max(ys)] if recalc else a._box
        return And(eq(_i16(b[0], b[1]), 1), *[eq(x, y) for x, y in zip(got, want)])

    ensures = [prop("header-box-is-the-box-of-the-written-points-when-recomputed", lambda a, old, r: GlyphCompileHeaderBox._post(a, r))]
