"""Subsetter kernels for positioning by class and by attachment (C07), as MEANING preservation over
every retained glyph set: what the subtable says about retained glyphs - the value of a class pair,
the anchors through which a mark attaches to a base / ligature component / other mark, a cursive
entry or exit - is said, unchanged, by the subset subtable, and nothing is said about other glyphs."""
from types import SimpleNamespace

from pyvc.core import Contract, contract, prop, internal
from pyvc.ghost import SymSet
from contracts.subset_kernels import _K, U


def _s(S, universe=U):
    return SimpleNamespace(glyphs=SymSet("keep", universe, S))


def _cov(ot, glyphs):
    c = ot.Coverage()
    c.glyphs = list(glyphs)
    return c


def _classdef(ot, d):
    c = ot.ClassDef()
    c.classDefs = dict(d)
    return c


def _pair_meaning(st):
    """{(first glyph, second glyph): value} as the class-pair subtable defines it (class 0 = any other glyph)"""
    out = {}
    for g1 in st.Coverage.glyphs:
        c1 = st.ClassDef1.classDefs.get(g1, 0)
        if c1 >= len(st.Class1Record):
            continue
        for g2 in U:
            c2 = st.ClassDef2.classDefs.get(g2, 0)
            rec = st.Class1Record[c1].Class2Record
            if c2 < len(rec):
                out[(g1, g2)] = rec[c2].Value1
    return out


@contract
class PairPosFormat2Subset(_K):
    qualname = "PairPos.subset_glyphs"
    variants = ("classes", "class1-zero-unused", "second-class-has-one-glyph")

    def args(self, S, variant):
        from fontTools.ttLib.tables import otTables as ot
        st = ot.PairPos()
        st.Format = 2
        if variant == "classes":
            cov, cd1, cd2 = ["a", "b", "c"], {"b": 1, "c": 1}, {"d": 1, "e": 2, "a": 2}
        elif variant == "class1-zero-unused":
            cov, cd1, cd2 = ["a", "c"], {"a": 1, "c": 2}, {"b": 1, "d": 1}
        else:
            cov, cd1, cd2 = ["a", "b", "e"], {"e": 1}, {"c": 1, "d": 2}
        st.Coverage = _cov(ot, cov)
        st.ClassDef1, st.ClassDef2 = _classdef(ot, cd1), _classdef(ot, cd2)
        n1, n2 = max(cd1.values()) + 1, max(cd2.values()) + 1
        st.Class1Record = []
        for i in range(n1):
            c1 = ot.Class1Record()
            c1.Class2Record = []
            for j in range(n2):
                c2 = ot.Class2Record()
                c2.Value1, c2.Value2 = ("value", i, j) if j else None, None      # class 0 of the second glyph: no adjustment
                c1.Class2Record.append(c2)
            st.Class1Record.append(c1)
        st.Class1Count, st.Class2Count = n1, n2
        return dict(self=st, s=_s(S))

    @staticmethod
    def _post(a, old, r):
        keep = a.s.glyphs
        want = {(g1, g2): v for (g1, g2), v in _pair_meaning(old.self).items() if g1 in keep and g2 in keep and v is not None}
        if not r:
            # dropped as a whole: only allowed when it has nothing to say about retained glyphs
            return not want
        got = {(g1, g2): v for (g1, g2), v in _pair_meaning(a.self).items() if g2 in keep and v is not None}
        st = a.self
        return (got == want and all(g in keep for g in st.Coverage.glyphs) and len(st.Class1Record) == st.Class1Count
                and all(len(c.Class2Record) == st.Class2Count for c in st.Class1Record)
                and all(g in keep for g in list(st.ClassDef1.classDefs) + list(st.ClassDef2.classDefs)))

    ensures = [prop("class-pair-values-of-retained-glyphs-unchanged", lambda a, old, r: PairPosFormat2Subset._post(a, old, r))]


def _mark_base_meaning(st, base_cov, base_array, records, anchors):
    """{(mark glyph, base glyph): (mark anchor, base anchor)}"""
    out = {}
    for m, mrec in zip(st.MarkCoverage.glyphs if hasattr(st, "MarkCoverage") else st.Mark1Coverage.glyphs,
                       (st.MarkArray if hasattr(st, "MarkArray") else st.Mark1Array).MarkRecord):
        for b, brec in zip(getattr(st, base_cov).glyphs, getattr(getattr(st, base_array), records)):
            anchor = getattr(brec, anchors)[mrec.Class] if mrec.Class < len(getattr(brec, anchors)) else None
            if anchor is not None:
                out[(m, b)] = (mrec.MarkAnchor, anchor)
    return out


def _mark_base(ot, kind):
    marks = [("a", 0), ("b", 1), ("c", 1), ("d", 2)]
    bases = {"e": ["e0", None, "e2"], "a": [None, "a1", None], "c": ["c0", "c1", "c2"]}
    if kind == "base":
        st = ot.MarkBasePos()
        st.MarkCoverage, st.BaseCoverage = _cov(ot, [m for m, _ in marks]), _cov(ot, list(bases))
        st.MarkArray, st.BaseArray = ot.MarkArray(), ot.BaseArray()
        arr, rec_cls, rec_attr, anchor_attr = st.BaseArray, ot.BaseRecord, "BaseRecord", "BaseAnchor"
    else:
        st = ot.MarkMarkPos()
        st.Mark1Coverage, st.Mark2Coverage = _cov(ot, [m for m, _ in marks]), _cov(ot, list(bases))
        st.Mark1Array, st.Mark2Array = ot.MarkArray(), ot.Mark2Array()
        arr, rec_cls, rec_attr, anchor_attr = st.Mark2Array, ot.Mark2Record, "Mark2Record", "Mark2Anchor"
    st.Format, st.ClassCount = 1, 3
    ma = st.MarkArray if kind == "base" else st.Mark1Array
    ma.MarkRecord = []
    for m, cls in marks:
        r = ot.MarkRecord()
        r.Class, r.MarkAnchor = cls, "anchor-of-" + m
        ma.MarkRecord.append(r)
    ma.MarkCount = len(marks)
    setattr(arr, rec_attr, [])
    for b, anchors in bases.items():
        r = rec_cls()
        setattr(r, anchor_attr, list(anchors))
        getattr(arr, rec_attr).append(r)
    return st


@contract
class MarkBasePosSubset(_K):
    qualname = "MarkBasePos.subset_glyphs"
    variants = ("mark-to-base",)

    def args(self, S, variant):
        from fontTools.ttLib.tables import otTables as ot
        return dict(self=_mark_base(ot, "base"), s=_s(S))

    @staticmethod
    def _post(a, old, r, names=("BaseCoverage", "BaseArray", "BaseRecord", "BaseAnchor")):
        keep = a.s.glyphs
        want = {k: v for k, v in _mark_base_meaning(old.self, *names).items() if k[0] in keep and k[1] in keep}
        if not r:
            return not want
        got = _mark_base_meaning(a.self, *names)
        st = a.self
        ma = st.MarkArray if hasattr(st, "MarkArray") else st.Mark1Array
        recs = getattr(getattr(st, names[1]), names[2])
        return (got == want and all(0 <= m.Class < st.ClassCount for m in ma.MarkRecord)
                and all(len(getattr(b, names[3])) == st.ClassCount for b in recs) and len(recs) == len(getattr(st, names[0]).glyphs))

    ensures = [prop("attachments-between-retained-glyphs-unchanged", lambda a, old, r: MarkBasePosSubset._post(a, old, r))]


@contract
class MarkMarkPosSubset(_K):
    qualname = "MarkMarkPos.subset_glyphs"
    variants = ("mark-to-mark",)

    def args(self, S, variant):
        from fontTools.ttLib.tables import otTables as ot
        return dict(self=_mark_base(ot, "mark"), s=_s(S))

    ensures = [prop("attachments-between-retained-glyphs-unchanged",
                    lambda a, old, r: MarkBasePosSubset._post(a, old, r, ("Mark2Coverage", "Mark2Array", "Mark2Record", "Mark2Anchor")))]


def _mark_lig_meaning(st):
    out = {}
    for m, mrec in zip(st.MarkCoverage.glyphs, st.MarkArray.MarkRecord):
        for l, att in zip(st.LigatureCoverage.glyphs, st.LigatureArray.LigatureAttach):
            for k, comp in enumerate(att.ComponentRecord):
                anchor = comp.LigatureAnchor[mrec.Class] if mrec.Class < len(comp.LigatureAnchor) else None
                if anchor is not None:
                    out[(m, l, k)] = (mrec.MarkAnchor, anchor)
    return out


@contract
class MarkLigPosSubset(_K):
    qualname = "MarkLigPos.subset_glyphs"
    variants = ("mark-to-ligature",)

    def args(self, S, variant):
        from fontTools.ttLib.tables import otTables as ot
        st = ot.MarkLigPos()
        st.Format, st.ClassCount = 1, 2
        marks = [("a", 0), ("b", 1), ("d", 1)]
        st.MarkCoverage = _cov(ot, [m for m, _ in marks])
        st.MarkArray = ot.MarkArray()
        st.MarkArray.MarkRecord = []
        for m, cls in marks:
            r = ot.MarkRecord()
            r.Class, r.MarkAnchor = cls, "anchor-of-" + m
            st.MarkArray.MarkRecord.append(r)
        ligs = {"c": [["c0.0", None], ["c1.0", "c1.1"]], "e": [[None, "e0.1"]], "b": [[None, None], ["b1.0", None], [None, "b2.1"]]}
        st.LigatureCoverage = _cov(ot, list(ligs))
        st.LigatureArray = ot.LigatureArray()
        st.LigatureArray.LigatureAttach = []
        for l, comps in ligs.items():
            att = ot.LigatureAttach()
            att.ComponentRecord = []
            for anchors in comps:
                c = ot.ComponentRecord()
                c.LigatureAnchor = list(anchors)
                att.ComponentRecord.append(c)
            att.ComponentCount = len(comps)
            st.LigatureArray.LigatureAttach.append(att)
        st.LigatureArray.LigatureCount = len(ligs)
        return dict(self=st, s=_s(S))

    @staticmethod
    def _post(a, old, r):
        keep = a.s.glyphs
        want = {k: v for k, v in _mark_lig_meaning(old.self).items() if k[0] in keep and k[1] in keep}
        if not r:
            return not want
        st = a.self
        # component counts are part of the meaning: a ligature keeps all its components
        counts = {l: len(att.ComponentRecord) for l, att in zip(old.self.LigatureCoverage.glyphs, old.self.LigatureArray.LigatureAttach)}
        return (_mark_lig_meaning(st) == want and all(len(att.ComponentRecord) == counts[l] for l, att in zip(st.LigatureCoverage.glyphs, st.LigatureArray.LigatureAttach))
                and all(len(c.LigatureAnchor) == st.ClassCount for att in st.LigatureArray.LigatureAttach for c in att.ComponentRecord))

    ensures = [prop("attachments-to-components-of-retained-ligatures-unchanged", lambda a, old, r: MarkLigPosSubset._post(a, old, r))]


@contract
class CursivePosSubset(_K):
    qualname = "CursivePos.subset_glyphs"
    variants = ("cursive",)

    def args(self, S, variant):
        from fontTools.ttLib.tables import otTables as ot
        st = ot.CursivePos()
        st.Format = 1
        st.Coverage = _cov(ot, ["a", "c", "d", "e"])
        st.EntryExitRecord = []
        for g in st.Coverage.glyphs:
            r = ot.EntryExitRecord()
            r.EntryAnchor, r.ExitAnchor = "entry-" + g, (None if g == "c" else "exit-" + g)
            st.EntryExitRecord.append(r)
        st.EntryExitCount = 4
        return dict(self=st, s=_s(S))

    ensures = [prop("entry-exit-records-stay-with-their-glyphs", lambda a, old, r: (
        [(g, rec.EntryAnchor, rec.ExitAnchor) for g, rec in zip(a.self.Coverage.glyphs, a.self.EntryExitRecord)]
        == [(g, rec.EntryAnchor, rec.ExitAnchor) for g, rec in zip(old.self.Coverage.glyphs, old.self.EntryExitRecord) if g in a.s.glyphs]
        and len(a.self.Coverage.glyphs) == len(a.self.EntryExitRecord) == a.self.EntryExitCount and bool(r) == bool(a.self.EntryExitRecord)))]


@contract
class GDEFSubset(_K):
    """GDEF.subset_glyphs: ligature carets and attachment points stay with their glyphs, class
    definitions keep exactly the retained glyphs with their classes, mark glyph sets keep their
    retained members; sets that become empty (or whose offset was NULL) are removed and
    s.used_mark_sets lists the surviving old set indices in order - the map lookups use to
    renumber MarkFilteringSet."""
    module = "fontTools.ttLib.tables.G_D_E_F_"
    qualname = "table_G_D_E_F_.subset_glyphs"
    variants = ("all-parts", "null-mark-set", "bare")

    def args(self, S, variant):
        from fontTools.ttLib import newTable
        from fontTools.ttLib.tables import otTables as ot
        gdef = newTable("GDEF")
        t = gdef.table = ot.GDEF()
        t.Version = 0x00010002
        t.GlyphClassDef = t.AttachList = t.LigCaretList = t.MarkAttachClassDef = t.MarkGlyphSetsDef = None
        if variant != "bare":
            t.GlyphClassDef = _classdef(ot, {"a": 1, "b": 3, "c": 2, "e": 3})
            t.MarkAttachClassDef = _classdef(ot, {"b": 1, "e": 2})
            t.LigCaretList = ot.LigCaretList()
            t.LigCaretList.Coverage = _cov(ot, ["c", "d"])
            t.LigCaretList.LigGlyph = ["carets-of-c", "carets-of-d"]
            t.LigCaretList.LigGlyphCount = 2
            t.AttachList = ot.AttachList()
            t.AttachList.Coverage = _cov(ot, ["a", "d", "e"])
            t.AttachList.AttachPoint = ["points-of-a", "points-of-d", "points-of-e"]
            t.AttachList.GlyphCount = 3
            t.MarkGlyphSetsDef = ot.MarkGlyphSetsDef()
            t.MarkGlyphSetsDef.MarkSetTableFormat = 1
            sets = [["b", "e"], ["a"], ["b"], []]
            t.MarkGlyphSetsDef.Coverage = [_cov(ot, g) for g in sets]
            if variant == "null-mark-set":
                t.MarkGlyphSetsDef.Coverage[1] = None
            t.MarkGlyphSetsDef.MarkSetCount = 4
        s = _s(S)
        s.glyphs_gsubed = s.glyphs
        return dict(self=gdef, s=s, _variant=variant)

    @staticmethod
    def _post(a, old, r):
        keep, t, o = a.s.glyphs, a.self.table, old.self.table
        if a._variant == "bare":
            return r is True and all(getattr(t, n) is None for n in ("GlyphClassDef", "AttachList", "LigCaretList", "MarkAttachClassDef", "MarkGlyphSetsDef"))
        ok = r is True
        ok = ok and t.GlyphClassDef.classDefs == {g: c for g, c in o.GlyphClassDef.classDefs.items() if g in keep}
        ok = ok and t.MarkAttachClassDef.classDefs == {g: c for g, c in o.MarkAttachClassDef.classDefs.items() if g in keep}
        ok = ok and list(zip(t.LigCaretList.Coverage.glyphs, t.LigCaretList.LigGlyph)) == [
            (g, x) for g, x in zip(o.LigCaretList.Coverage.glyphs, o.LigCaretList.LigGlyph) if g in keep] and t.LigCaretList.LigGlyphCount == len(t.LigCaretList.LigGlyph)
        ok = ok and list(zip(t.AttachList.Coverage.glyphs, t.AttachList.AttachPoint)) == [
            (g, x) for g, x in zip(o.AttachList.Coverage.glyphs, o.AttachList.AttachPoint) if g in keep] and t.AttachList.GlyphCount == len(t.AttachList.AttachPoint)
        old_sets = [None if c is None else list(c.glyphs) for c in o.MarkGlyphSetsDef.Coverage]
        want = [(i, [g for g in gs if g in keep]) for i, gs in enumerate(old_sets) if gs is not None]
        want = [(i, gs) for i, gs in want if gs]
        ok = ok and a.s.used_mark_sets == [i for i, _ in want] and [c.glyphs for c in t.MarkGlyphSetsDef.Coverage] == [gs for _, gs in want]
        return ok

    ensures = [prop("per-glyph-data-stays-with-retained-glyphs-and-mark-sets-are-renumbered-consistently", lambda a, old, r: GDEFSubset._post(a, old, r))]


# -- contextual lookups by class (format 2) and by coverage (format 3) ---------------------------------

def _cls(classdef, g):
    return classdef.classDefs.get(g, 0) if classdef is not None else 0


def _ctx2_meaning(st, chain, universe):
    """every (backtrack glyphs, input glyph sequence, lookahead glyphs, lookups) the class-based subtable matches,
    glyphs ranging over `universe`"""
    import itertools
    out = set()
    sets = st.ChainSubClassSet if chain else st.SubClassSet
    in_cd = st.InputClassDef if chain else st.ClassDef
    for g0 in st.Coverage.glyphs:
        if g0 not in universe:
            continue
        k = _cls(in_cd, g0)
        if k >= len(sets) or sets[k] is None:
            continue
        for r in (sets[k].ChainSubClassRule if chain else sets[k].SubClassRule):
            tails = [[g for g in universe if _cls(in_cd, g) == c] for c in (r.Input if chain else r.Class)]
            backs = [[g for g in universe if _cls(st.BacktrackClassDef, g) == c] for c in r.Backtrack] if chain else []
            aheads = [[g for g in universe if _cls(st.LookAheadClassDef, g) == c] for c in r.LookAhead] if chain else []
            lookups = tuple((l.SequenceIndex, l.LookupListIndex) for l in r.SubstLookupRecord)
            for t in itertools.product(*tails):
                for b in itertools.product(*backs):
                    for la in itertools.product(*aheads):
                        out.add((b, (g0,) + t, la, lookups))
    return out


@contract
class ContextFormat2Subset(_K):
    """(Chain)ContextSubst format 2: every glyph sequence over RETAINED glyphs that a class rule
    matched (first glyph covered, classes - class 0 included - as listed, for input, backtrack and
    lookahead) is matched by the subset subtable with the same lookup records, and no other."""
    qualname = "ContextSubst.subset_glyphs"
    variants = ("context", "chain")

    def args(self, S, variant):
        from fontTools.ttLib.tables import otTables as ot
        chain = variant == "chain"
        st = ot.ChainContextSubst() if chain else ot.ContextSubst()
        st.Format = 2
        st.Coverage = _cov(ot, ["a", "b", "c"])
        in_cd = _classdef(ot, {"a": 1, "b": 1, "c": 2, "d": 2})           # e is class 0
        spec = {1: [((2,), 0), ((0, 1), 1)], 2: [((1,), 2), ((), 3)]}
        sets = [None]
        for k in (1, 2):
            rs = (ot.ChainSubClassSet if chain else ot.SubClassSet)()
            rules = []
            for classes, idx in spec[k]:
                r = (ot.ChainSubClassRule if chain else ot.SubClassRule)()
                if chain:
                    r.Input = list(classes)
                    r.Backtrack, r.LookAhead = ([1] if idx == 0 else []), ([0] if idx == 2 else [2] if idx == 3 else [])
                    r.BacktrackGlyphCount, r.LookAheadGlyphCount, r.InputGlyphCount = len(r.Backtrack), len(r.LookAhead), len(classes) + 1
                else:
                    r.Class = list(classes)
                    r.GlyphCount = len(classes) + 1
                rec = ot.SubstLookupRecord()
                rec.SequenceIndex, rec.LookupListIndex = 0, idx
                r.SubstLookupRecord, r.SubstCount = [rec], 1
                rules.append(r)
            if chain:
                rs.ChainSubClassRule, rs.ChainSubClassRuleCount = rules, len(rules)
            else:
                rs.SubClassRule, rs.SubClassRuleCount = rules, len(rules)
            sets.append(rs)
        if chain:
            st.InputClassDef = in_cd
            st.BacktrackClassDef = _classdef(ot, {"e": 1, "a": 1})
            st.LookAheadClassDef = _classdef(ot, {"b": 2, "d": 1})
            st.ChainSubClassSet, st.ChainSubClassSetCount = sets, 3
        else:
            st.ClassDef = in_cd
            st.SubClassSet, st.SubClassSetCount = sets, 3
        return dict(self=st, s=_s(S), _chain=chain)

    @staticmethod
    def _post(a, old, r):
        keep = [g for g in U if g in a.s.glyphs]
        want = _ctx2_meaning(old.self, a._chain, keep)
        if not r:
            return not want
        return _ctx2_meaning(a.self, a._chain, keep) == want and all(g in a.s.glyphs for g in a.self.Coverage.glyphs)

    ensures = [prop("matches-over-retained-glyphs-unchanged", lambda a, old, r: ContextFormat2Subset._post(a, old, r))]


@contract
class ContextFormat3Subset(_K):
    """(Chain)ContextSubst format 3: every coverage keeps exactly its retained glyphs, and the
    subtable survives exactly when none of them became empty."""
    qualname = "ContextSubst.subset_glyphs"
    variants = ("context-f3", "chain-f3")

    def args(self, S, variant):
        from fontTools.ttLib.tables import otTables as ot
        chain = variant == "chain-f3"
        st = ot.ChainContextSubst() if chain else ot.ContextSubst()
        st.Format = 3
        covs = [_cov(ot, ["a", "b"]), _cov(ot, ["c", "d", "e"])]
        if chain:
            st.InputCoverage, st.BacktrackCoverage, st.LookAheadCoverage = covs, [_cov(ot, ["e", "a"])], [_cov(ot, ["b"]), _cov(ot, ["d", "c"])]
            st.InputGlyphCount, st.BacktrackGlyphCount, st.LookAheadGlyphCount = 2, 1, 2
        else:
            st.Coverage, st.GlyphCount = covs, 2
        rec = ot.SubstLookupRecord()
        rec.SequenceIndex, rec.LookupListIndex = 1, 7
        st.SubstLookupRecord, st.SubstCount = [rec], 1
        return dict(self=st, s=_s(S), _chain=chain)

    @staticmethod
    def _all(st, chain):
        return (st.BacktrackCoverage + st.InputCoverage + st.LookAheadCoverage) if chain else st.Coverage

    @staticmethod
    def _post(a, old, r):
        before, after = ContextFormat3Subset._all(old.self, a._chain), ContextFormat3Subset._all(a.self, a._chain)
        want = [[g for g in c.glyphs if g in a.s.glyphs] for c in before]
        if not all(want):
            return not r
        return bool(r) and [c.glyphs for c in after] == want and a.self.SubstLookupRecord[0].LookupListIndex == 7

    ensures = [prop("every-coverage-keeps-its-retained-glyphs", lambda a, old, r: ContextFormat3Subset._post(a, old, r))]
