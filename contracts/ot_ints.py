"""Contracts on OpenType integer packers (C15, C06): uint32var, UInt24, UShort, ULong."""
import struct

from pyvc.core import Contract, contract, prop, internal
from pyvc.models import std, SymBytes, Tail
from pyvc.spec import And, Or, Not, Implies, Ite, eq

REBIND = std("struct", "len", "bytes")


def _items(b):
    return list(b.items) if isinstance(b, SymBytes) else list(b)


def be(bs):
    v = 0
    for b in bs:
        v = v * 256 + b
    return v


def spec_uint32var(bs):
    """(value, length) per the variable-length uint32 of the VARC table spec: the number of
    leading 1 bits of the first byte (0..4) says how many bytes follow."""
    b = bs + [0, 0, 0, 0]
    b0 = b[0]
    return (Ite(b0 < 0x80, b0,
                Ite(b0 < 0xC0, be([b0 - 0x80, b[1]]),
                    Ite(b0 < 0xE0, be([b0 - 0xC0, b[1], b[2]]),
                        Ite(b0 < 0xF0, be([b0 - 0xE0, b[1], b[2], b[3]]),
                            be([b0 - 0xF0, b[1], b[2], b[3], b[4]]))))),
            Ite(b0 < 0x80, 1, Ite(b0 < 0xC0, 2, Ite(b0 < 0xE0, 3, Ite(b0 < 0xF0, 4, 5)))))


@contract
class WriteUint32Var(Contract):
    module = "fontTools.ttLib.tables.otTables"
    qualname = "_write_uint32var"
    props = ("C15", "C02")
    rebind = REBIND
    shadow_mode = "function"

    def args(self, S, variant):
        return dict(v=S.int("v"))

    def requires(self, a):
        return And(0 <= a.v, a.v < 2 ** 32)

    ensures = [prop("decodes-to-v-per-spec", lambda a, old, r: And(
        eq(spec_uint32var(_items(r))[0], a.v), eq(spec_uint32var(_items(r))[1], len(_items(r)))))]


@contract
class Uint32VarRoundTrip(Contract):
    """_read_uint32var(prefix + _write_uint32var(v) + rest, len(prefix)) == (v, next index)."""
    module = "fontTools.ttLib.tables.otTables"
    qualname = "_read_uint32var"
    props = ("C15", "C02")
    rebind = REBIND
    shadow_mode = "function"
    also = ("_write_uint32var",)
    variants = (0, 2)   # prefix length

    def args(self, S, variant):
        return dict(v=S.int("v"), prefix=S.bytes("prefix", variant), rest=S.bytes("rest", 1))

    def requires(self, a):
        return And(0 <= a.v, a.v < 2 ** 32)

    def call(self, f, a):
        enc = self.mod._write_uint32var(a.v)
        self._enclen = len(_items(enc))
        return f(a.prefix + enc + a.rest, len(a.prefix))

    ensures = [prop("decode-of-encode", lambda a, old, r: And(
        eq(r[0], a.v), eq(r[1], len(a.prefix) + Uint32VarRoundTrip._len(a.v))))]

    @staticmethod
    def _len(v):
        return Ite(v < 0x80, 1, Ite(v < 0x4000, 2, Ite(v < 0x200000, 3, Ite(v < 0x10000000, 4, 5))))


@contract
class ReadUint32Var(Contract):
    module = "fontTools.ttLib.tables.otTables"
    qualname = "_read_uint32var"
    props = ("C15", "C02")
    rebind = REBIND
    shadow_mode = "function"

    def args(self, S, variant):
        return dict(data=S.bytes("data", 6), i=1)

    ensures = [prop("value-and-next-index-per-spec", lambda a, old, r: And(
        eq(r[0], spec_uint32var(_items(a.data)[1:])[0]), eq(r[1], 1 + spec_uint32var(_items(a.data)[1:])[1])))]


class _Pack(Contract):
    module = "fontTools.ttLib.tables.otBase"
    props = ("C15", "C06")
    rebind = REBIND
    shadow_mode = "function"
    size = None
    exc = None

    def args(self, S, variant):
        return dict(value=S.int("value"))

    @property
    def raises(self):
        n = self.size
        return {self.exc: lambda a: Or(a.value < 0, a.value >= 256 ** n)}

    @property
    def ensures(self):
        n = self.size
        return [prop("big-endian-bytes-of-value", lambda a, old, r: And(
            eq(len(_items(r)), n), eq(be(_items(r)), a.value)))]


@contract
class PackUShort(_Pack):
    qualname = "packUShort"
    size, exc = 2, struct.error


@contract
class PackULong(_Pack):
    qualname = "packULong"
    size, exc = 4, AssertionError


@contract
class PackUInt24(_Pack):
    qualname = "packUInt24"
    size, exc = 3, AssertionError
    assumptions = ("asserts enabled (no python -O): packUInt24/packULong range checks are assert statements",)


@contract
class PackUInt8(_Pack):
    qualname = "packUInt8"
    size, exc = 1, struct.error
