"""_get_advance_metrics (C10): what goes into HVAR / VVAR for a glyph is computed from THAT glyph's
advance in every master - a master that lacks the glyph, or carries the 0xFFFF 'does not
participate' sentinel for it, contributes None (sparse master) - and, for VVAR with VORG, from that
glyph's vertical origin in every master, a master without a record for the glyph contributing its
own defaultVertOriginY.  VariationModel.getDeltasAndSupports is a recorder."""
from pyvc.core import Contract, contract, prop, internal
from pyvc.spec import And, Or, Not, Implies, Ite, eq


class _Ns:
    def __init__(self, **kw):
        self.__dict__.update(kw)


class _Model:
    def __init__(self):
        self.calls = []

    def getDeltasAndSupports(self, values, round=None):
        tag = ("result", len(self.calls))
        self.calls.append((list(values), round))
        return tag


@contract
class GetAdvanceMetrics(Contract):
    module = "fontTools.varLib"
    qualname = "_get_advance_metrics"
    props = ("C10", "C09")
    shadow_mode = "function"
    variants = ("HVAR", "VVAR-with-VORG", "VVAR-without-VORG")
    level = "PF"
    assumptions = ("VariationModel.getDeltasAndSupports is a recorder (own contracts: GetDeltas, SparseModelHistory)",)

    def args(self, S, variant):
        import fontTools.varLib as varLib
        fields = varLib.HVAR_FIELDS if variant == "HVAR" else varLib.VVAR_FIELDS
        order = ["a", "b", "c"]
        mtag = fields.metricsTag
        masters, adv, vorg, dflt = [], {}, {}, []
        for m in range(3):
            metrics = {}
            for g in order:
                if (m, g) == (1, "c"):
                    continue                                   # glyph c is missing from master 1
                adv[(m, g)] = S.int("adv_%d_%s" % (m, g), 0, 0xFFFF)
                metrics[g] = (adv[(m, g)], 0)
            d = {mtag: _Ns(metrics=metrics)}
            if variant == "VVAR-with-VORG":
                recs = {}
                for g in order:
                    if (m + order.index(g)) % 2 == 0:           # only some glyphs have a record
                        vorg[(m, g)] = S.int("vorg_%d_%s" % (m, g), -2000, 2000)
                        recs[g] = vorg[(m, g)]
                dflt.append(S.int("vorg_default_%d" % m, -2000, 2000))
                d["VORG"] = _Ns(VOriginRecords=recs, defaultVertOriginY=dflt[m])
            masters.append(d)
        model = _Model()
        font = _Ns(getGlyphOrder=lambda: list(order))
        return dict(font=font, masterModel=model, master_ttfs=masters, axisTags=["wght"], tableFields=fields,
                    _order=order, _adv=adv, _vorg=vorg, _dflt=dflt, _variant=variant, _model=model)

    def call(self, f, a):
        return f(a.font, a.masterModel, a.master_ttfs, a.axisTags, a.tableFields), list(a._model.calls)

    @staticmethod
    def _post(a, r):
        (advs, vorigs), calls = r
        cs = []
        if sorted(advs) != sorted(a._order):
            return False
        for g in a._order:
            tag = advs[g]
            if not (isinstance(tag, tuple) and tag[0] == "result"):
                return False
            values, rnd = calls[tag[1]]
            if rnd is not round or len(values) != 3:
                return False
            for m in range(3):
                v = a._adv.get((m, g))
                if v is None:
                    cs.append(values[m] is None)
                else:
                    is_none = values[m] is None
                    cs.append(eq(is_none, eq(v, 0xFFFF)))
                    if not is_none:
                        cs.append(eq(values[m], v))
        if a._variant != "VVAR-with-VORG":
            return And(not vorigs, len(calls) == 3, *cs)
        if sorted(vorigs) != sorted(a._order) or len(calls) != 6:
            return False
        for g in a._order:
            values, rnd = calls[vorigs[g][1]]
            cs.append(rnd is round and len(values) == 3)
            cs += [eq(values[m], a._vorg.get((m, g), a._dflt[m])) for m in range(3)]
        return And(*cs)

    ensures = [prop("each-glyph-from-its-own-values-in-every-master", lambda a, old, r: GetAdvanceMetrics._post(a, r))]
