"""table__g_l_y_f.compile (C04): glyph data of ANY lengths are laid out back to back in glyph order,
each padded with zero bytes to a multiple of the table's padding (2 or 4), or - with padding 1 -
odd-length glyphs get one zero byte exactly when that lets the whole table use short loca
offsets; loca receives the start offset of every glyph plus the end, maxp the glyph count, and a
table without any data is one zero byte.  Glyph.compile is a stub handing out byte strings of
symbolic length (its own contract: GlyphCompileHeaderBox / CoordinatesRoundTrip)."""
from pyvc.blobs import Atom, Blob
from pyvc.core import Contract, contract, prop, internal
from pyvc.models import std, tobytes_
from pyvc.spec import And, Or, Not, Implies, Ite, eq


def _pad_stub(data, size):
    """textTools.pad through its contract: zero bytes up to the next multiple of size (decided per path)"""
    b = Blob.of(data)
    n = b.__symlen__()
    if size > 1:
        for k in range(size):
            if bool(eq((n + k) % size, 0)):
                return b + Blob.zeros(k) if k else b
    return b


def _norm(b):
    """drop pieces whose length is 0 on this path"""
    segs = []
    for sg in b.segs:
        ln = sg[3] if sg[0] != "lit" else len(sg[1].items)
        if not isinstance(ln, int) and bool(eq(ln, 0)):
            continue
        segs.append(sg)
    return Blob(segs)


@contract
class GlyfTableCompile(Contract):
    module = "fontTools.ttLib.tables._g_l_y_f"
    qualname = "table__g_l_y_f.compile"
    props = ("C04", "C02")
    variants = (0, 1, 2, 4)
    level = "P"
    assumptions = ("Glyph.compile is a stub returning byte strings of symbolic length; textTools.pad is used through its contract",)

    def rebind(self):
        return dict(std("len", "bytes", __join__=True), pad=_pad_stub)

    def args(self, S, variant):
        atoms = [Atom("glyph%d" % i) for i in range(3)]
        for at in atoms:
            S.ctx.symbols[at.name + ".len"] = at.n.t
        names = ["a", "b", "c"]

        class _G:
            def __init__(self, at):
                self.at = at

            def compile(self, glyfTable, recalcBBoxes=True, *, boundsDone=None, optimizeSize=True):
                return self.at.blob()
        t = self.mod.table__g_l_y_f()
        t.glyphs = {n: _G(at) for n, at in zip(names, atoms)}
        t.glyphOrder = list(names)
        t.padding = variant
        sink = {}

        class _Loca:
            def set(self, locations):
                sink["loca"] = list(locations)

        class _Maxp:
            numGlyphs = None

        class _Font(dict):
            recalcBBoxes = True
            cfg = __import__("collections").defaultdict(lambda: False)
        font = _Font(loca=_Loca(), maxp=_Maxp())
        return dict(self=t, ttFont=font, _atoms=atoms, _sink=sink, _pad=variant)

    def requires(self, a):
        return And(*[And(at.n >= 0, at.n < 2 ** 20) for at in a._atoms])

    @staticmethod
    def _post(a, r):
        locs = a._sink.get("loca")
        if locs is None or len(locs) != 4 or a.ttFont["maxp"].numGlyphs != 3:
            return False
        n = [at.n for at in a._atoms]
        raw_total = n[0] + n[1] + n[2]
        if a._pad in (2, 4):
            padded = [x + (a._pad - x % a._pad) % a._pad for x in n]
        elif a._pad == 1:
            odd = [x % 2 for x in n]
            fits = And(raw_total < 0x20000, raw_total + odd[0] + odd[1] + odd[2] < 0x20000)
            padded = [Ite(fits, x + x % 2, x) for x in n]
        else:
            padded = n
        cs = [eq(locs[0], 0)]
        run = 0
        for i in range(3):
            run = run + padded[i]
            cs.append(eq(locs[i + 1], run))
        total = Blob.of(r).__symlen__()
        cs.append(eq(total, Ite(eq(run, 0), 1, run)))
        # contents: every glyph's bytes verbatim, zero bytes in between (pad widths are decided on this path)
        want = Blob([])
        for i, at in enumerate(a._atoms):
            want = want + at.blob()
            k = [j for j in range(4) if bool(eq(padded[i] - n[i], j))]
            if len(k) != 1:
                return False
            if k[0]:
                want = want + Blob.zeros(k[0])
        if bool(eq(run, 0)):
            want = Blob.zeros(1)
        cs.append(_norm(Blob.of(r)).same(_norm(want)))
        return And(*cs)

    ensures = [prop("glyphs-back-to-back-with-the-requested-padding-and-loca-offsets", lambda a, old, r: GlyfTableCompile._post(a, r))]
