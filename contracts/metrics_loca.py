"""hmtx/vmtx and loca (C04: derived fields consistent with the data; C02: round trip;
C16: compile is idempotent and writes only the derived field)."""
import struct

from pyvc.core import Contract, contract, prop, internal
from pyvc.models import std, SymBytes, round_tools
from pyvc.spec import And, Or, Not, Implies, Ite, eq, floor
from contracts._support import FakeFont, ns


def _items(b):
    return list(b.items) if isinstance(b, SymBytes) else list(b)


def _hmtx_rebind():
    return std("struct", "len", "bytes", "int", "array", otRound=round_tools().otRound)


def s16(hi, lo):
    v = hi * 256 + lo
    return Ite(v >= 32768, v - 65536, v)


def spec_hmtx_decode(bs, k, n):
    """OpenType hmtx: k longHorMetric records (uint16 advance, int16 lsb) followed by
    n-k int16 side bearings; glyphs k.. reuse the last advance."""
    out = []
    for i in range(k):
        o = 4 * i
        out.append((bs[o] * 256 + bs[o + 1], s16(bs[o + 2], bs[o + 3])))
    last = out[-1][0]
    for j in range(n - k):
        o = 4 * k + 2 * j
        out.append((last, s16(bs[o], bs[o + 1])))
    return out


def ot_round(x):
    return floor(x + (1 / 2 if False else __import__("fractions").Fraction(1, 2)))


@contract
class HmtxCompile(Contract):
    """For every glyph count 1..4 and all advances/side bearings (ints or fractional):
    with k = the numberOfHMetrics written to hhea, 1 <= k <= n, the bytes have the length
    the spec prescribes for k and decode (spec reader) to the rounded input metrics of
    EVERY glyph - so trimming never loses an advance."""
    module = "fontTools.ttLib.tables._h_m_t_x"
    qualname = "table__h_m_t_x.compile"
    props = ("C04", "C02", "C16")
    rebind = staticmethod(_hmtx_rebind)
    variants = ("1", "2", "3", "4", "3-real")
    level = "PF"

    def args(self, S, variant):
        n = int(variant[0])
        real = variant.endswith("real")
        cls = self.mod.table__h_m_t_x
        t = cls.__new__(cls)
        names = ["g%d" % i for i in range(n)]
        mk = S.real if real else S.int
        t.metrics = {g: (mk("adv_" + g), mk("lsb_" + g)) for g in names}
        font = FakeFont(names, hhea=ns(numberOfHMetrics=S.int("oldCount")), maxp=ns(numGlyphs=n))
        return dict(self=t, ttFont=font)

    @staticmethod
    def _in_range(a):
        cs = []
        for g, (adv, lsb) in a.self.metrics.items():
            cs += [ot_round(adv) >= 0, ot_round(adv) <= 65535, ot_round(lsb) >= -32768, ot_round(lsb) <= 32767]
        return And(*cs)

    from fontTools.ttLib import TTLibError as _E
    # out-of-range metrics are an error (struct.error / OverflowError / TTLibError), never wrapped
    raises = {struct.error: lambda a: Not(HmtxCompile._in_range(a)), OverflowError: lambda a: Not(HmtxCompile._in_range(a)),
              _E: lambda a: Not(HmtxCompile._in_range(a))}
    raises_iff = False

    @staticmethod
    def _post(a, r):
        names = a.ttFont.getGlyphOrder()
        n = len(names)
        k = a.ttFont["hhea"].numberOfHMetrics
        bs = _items(SymBytes.of(r))
        for kk in range(1, n + 1):
            if eq(k, kk):                      # forks on the written count
                if len(bs) != 4 * kk + 2 * (n - kk):
                    return False
                dec = spec_hmtx_decode(bs, kk, n)
                return And(*[And(eq(dec[i][0], ot_round(a.self.metrics[g][0])), eq(dec[i][1], ot_round(a.self.metrics[g][1])))
                             for i, g in enumerate(names)])
        return False                            # count outside 1..n

    ensures = [
        prop("count-length-and-every-metric-preserved", lambda a, old, r: HmtxCompile._post(a, r)),
        prop("in-range-on-normal-return", lambda a, old, r: HmtxCompile._in_range(a)),
        prop("content-not-modified", lambda a, old, r: And(*[
            And(eq(a.self.metrics[g][0], old.self.metrics[g][0]), eq(a.self.metrics[g][1], old.self.metrics[g][1]))
            for g in old.self.metrics]) and list(a.self.metrics) == list(old.self.metrics)),
        internal("count-is-minimal", lambda a, old, r: HmtxCompile._minimal(a)),
    ]

    @staticmethod
    def _minimal(a):
        names = a.ttFont.getGlyphOrder()
        k = a.ttFont["hhea"].numberOfHMetrics
        advs = [a.self.metrics[g][0] for g in names]
        n = len(names)
        cs = []
        for kk in range(2, n + 1):
            cs.append(Implies(eq(k, kk), Not(eq(advs[kk - 2], advs[n - 1]))))
        return And(*cs)


@contract
class HmtxRoundTrip(Contract):
    """decompile(compile(metrics)) returns the (rounded) metrics, with the count hhea got."""
    module = "fontTools.ttLib.tables._h_m_t_x"
    qualname = "table__h_m_t_x.decompile"
    props = ("C02",)
    rebind = staticmethod(_hmtx_rebind)
    variants = ("1", "2", "3")
    level = "PF"

    def args(self, S, variant):
        n = int(variant)
        cls = self.mod.table__h_m_t_x
        t = cls.__new__(cls)
        names = ["g%d" % i for i in range(n)]
        t.metrics = {g: (S.int("adv_" + g, 0, 65535), S.int("lsb_" + g, -32768, 32767)) for g in names}
        font = FakeFont(names, hhea=ns(numberOfHMetrics=0), maxp=ns(numGlyphs=n))
        return dict(self=t, ttFont=font)

    def call(self, f, a):
        data = a.self.compile(a.ttFont)
        cls = self.mod.table__h_m_t_x
        t2 = cls.__new__(cls)
        f(t2, data, a.ttFont)
        return t2.metrics

    ensures = [prop("same-metrics-back", lambda a, old, r: list(r) == list(a.self.metrics) and And(*[
        And(eq(r[g][0], a.self.metrics[g][0]), eq(r[g][1], a.self.metrics[g][1])) for g in a.self.metrics]))]


def _loca_rebind():
    return std("struct", "len", "bytes", "int", "array")


@contract
class LocaCompile(Contract):
    """The format flag written to head describes the bytes returned: short format => every
    location is even, < 0x20000 and stored halved in uint16; long => uint32 verbatim."""
    module = "fontTools.ttLib.tables._l_o_c_a"
    qualname = "table__l_o_c_a.compile"
    props = ("C04", "C02", "C16")
    rebind = staticmethod(_loca_rebind)
    variants = (1, 2, 3, 4)
    level = "PF"

    def args(self, S, variant):
        cls = self.mod.table__l_o_c_a
        t = cls.__new__(cls)
        t.locations = [S.int("loc%d" % i, 0, 2 ** 32 - 1) for i in range(variant)]
        font = FakeFont([], head=ns(indexToLocFormat=S.int("oldFormat")))
        return dict(self=t, ttFont=font)

    @staticmethod
    def _post(a, r):
        fmt = a.ttFont["head"].indexToLocFormat
        bs = _items(SymBytes.of(r))
        locs = list(a.self.locations)
        n = len(locs)
        if eq(fmt, 0):
            if len(bs) != 2 * n:
                return False
            return And(*[eq((bs[2 * i] * 256 + bs[2 * i + 1]) * 2, locs[i]) for i in range(n)])
        if eq(fmt, 1):
            if len(bs) != 4 * n:
                return False
            return And(*[eq(((bs[4 * i] * 256 + bs[4 * i + 1]) * 256 + bs[4 * i + 2]) * 256 + bs[4 * i + 3], locs[i]) for i in range(n)])
        return False

    ensures = [
        prop("format-flag-matches-bytes-and-locations-recoverable", lambda a, old, r: LocaCompile._post(a, r)),
        internal("short-format-whenever-possible", lambda a, old, r: Implies(
            And(*[And(l % 2 == 0, l < 0x20000) for l in a.self.locations]), eq(a.ttFont["head"].indexToLocFormat, 0))),
    ]
