"""More subsetter kernels (C07), stated as MEANING preservation over every retained set: the
rules a subtable expresses, restricted to rules all of whose glyphs are retained, are exactly
the rules of the subset subtable - in particular the pairing between a Coverage position and
its parallel array (Substitute[], Value[], PairSet[], RuleSet[]) survives."""
from types import SimpleNamespace

from pyvc.core import Contract, contract, prop, internal
from pyvc.ghost import SymSet
from pyvc.spec import And, Or, Not, Implies, Ite, eq
from contracts.subset_kernels import _K, U


def _s(S, universe=U):
    return SimpleNamespace(glyphs=SymSet("keep", universe, S))


def _cov(ot, glyphs):
    c = ot.Coverage()
    c.glyphs = list(glyphs)
    return c


@contract
class MultipleSubstSubset(_K):
    qualname = "MultipleSubst.subset_glyphs"
    variants = ("m",)

    def args(self, S, variant):
        from fontTools.ttLib.tables import otTables as ot
        st = ot.MultipleSubst()
        st.mapping = {"a": ["b", "c"], "b": ["d"], "c": [], "e": ["a", "a"]}
        return dict(self=st, s=_s(S))

    ensures = [prop("exactly-the-rules-with-all-glyphs-retained", lambda a, old, r: (
        a.self.mapping == {g: v for g, v in old.self.mapping.items() if g in a.s.glyphs and all(x in a.s.glyphs for x in v)}
        and list(a.self.mapping) == [g for g in old.self.mapping if g in a.self.mapping]
        and bool(r) == bool(a.self.mapping)))]


@contract
class AlternateSubstSubset(_K):
    qualname = "AlternateSubst.subset_glyphs"
    variants = ("alt",)

    def args(self, S, variant):
        from fontTools.ttLib.tables import otTables as ot
        st = ot.AlternateSubst()
        st.alternates = {"a": ["b", "c", "d"], "b": ["e"], "d": ["a", "e"]}
        return dict(self=st, s=_s(S))

    ensures = [prop("retained-alternates-in-their-order-rule-dropped-when-none-left", lambda a, old, r: (
        a.self.alternates == {g: [v for v in vs if v in a.s.glyphs] for g, vs in old.self.alternates.items()
                              if g in a.s.glyphs and any(v in a.s.glyphs for v in vs)}
        and bool(r) == bool(a.self.alternates)))]


def _ligs(st):
    return [(first, tuple(l.Component), l.LigGlyph) for first, ls in st.ligatures.items() for l in ls]


@contract
class LigatureSubstSubset(_K):
    qualname = "LigatureSubst.subset_glyphs"
    variants = ("lig",)

    def args(self, S, variant):
        from fontTools.ttLib.tables import otTables as ot
        st = ot.LigatureSubst()
        st.ligatures = {}
        for first, comps, lig in (("a", ("b", "c"), "d"), ("a", ("b",), "e"), ("a", (), "c"), ("b", ("a",), "e"), ("c", ("c",), "c")):
            l = ot.Ligature()
            l.Component, l.LigGlyph, l.CompCount = list(comps), lig, len(comps) + 1
            st.ligatures.setdefault(first, []).append(l)
        return dict(self=st, s=_s(S))

    ensures = [prop("exactly-the-ligatures-with-all-glyphs-retained-in-order", lambda a, old, r: (
        _ligs(a.self) == [(f, c, l) for f, c, l in _ligs(old.self) if f in a.s.glyphs and l in a.s.glyphs and all(x in a.s.glyphs for x in c)]
        and all(v for v in a.self.ligatures.values()) and bool(r) == bool(a.self.ligatures)))]


@contract
class ReverseChainSingleSubstSubset(_K):
    qualname = "ReverseChainSingleSubst.subset_glyphs"
    variants = ("plain", "with-context")

    def args(self, S, variant):
        from fontTools.ttLib.tables import otTables as ot
        st = ot.ReverseChainSingleSubst()
        st.Format = 1
        st.Coverage = _cov(ot, ["a", "b", "c", "d"])
        st.Substitute = ["b", "e", "a", "c"]
        st.GlyphCount = 4
        st.BacktrackCoverage = [_cov(ot, ["a", "e"])] if variant == "with-context" else []
        st.LookAheadCoverage = [_cov(ot, ["b"])] if variant == "with-context" else []
        return dict(self=st, s=_s(S))

    @staticmethod
    def _post(a, old, r):
        want = [(g, sub) for g, sub in zip(old.self.Coverage.glyphs, old.self.Substitute) if g in a.s.glyphs and sub in a.s.glyphs]
        got = list(zip(a.self.Coverage.glyphs, a.self.Substitute))
        ctx_ok = all(any(g in a.s.glyphs for g in c.glyphs) for c in old.self.BacktrackCoverage + old.self.LookAheadCoverage)
        return (got == want and len(a.self.Coverage.glyphs) == len(a.self.Substitute) == a.self.GlyphCount
                and bool(r) == (bool(want) and ctx_ok))

    ensures = [prop("coverage-and-substitutes-stay-paired", lambda a, old, r: ReverseChainSingleSubstSubset._post(a, old, r))]


@contract
class SinglePosFormat2Subset(_K):
    qualname = "SinglePos.subset_glyphs"
    variants = ("f2", "f1")

    def args(self, S, variant):
        from fontTools.ttLib.tables import otTables as ot
        st = ot.SinglePos()
        st.Coverage = _cov(ot, ["a", "c", "d", "e"])
        if variant == "f2":
            st.Format = 2
            st.Value = ["Va", "Vc", "Vd", "Ve"]
            st.ValueCount = 4
        else:
            st.Format = 1
            st.Value = "V"
        return dict(self=st, s=_s(S), _variant=variant)

    @staticmethod
    def _post(a, old, r):
        kept = [g for g in old.self.Coverage.glyphs if g in a.s.glyphs]
        if a.self.Coverage.glyphs != kept:
            return False
        if a._variant == "f1":
            return bool(r) == bool(kept)
        pairs = dict(zip(old.self.Coverage.glyphs, old.self.Value))
        return a.self.Value == [pairs[g] for g in kept] and a.self.ValueCount == len(kept) and bool(r) == bool(kept)

    ensures = [prop("coverage-and-values-stay-paired", lambda a, old, r: SinglePosFormat2Subset._post(a, old, r))]


def _pairs(st):
    return [(g, rec.SecondGlyph, rec.Value1) for g, ps in zip(st.Coverage.glyphs, st.PairSet) for rec in ps.PairValueRecord]


@contract
class PairPosFormat1Subset(_K):
    qualname = "PairPos.subset_glyphs"
    variants = ("f1",)

    def args(self, S, variant):
        from fontTools.ttLib.tables import otTables as ot
        st = ot.PairPos()
        st.Format = 1
        st.Coverage = _cov(ot, ["a", "b", "d"])
        st.PairSet = []
        for first, seconds in (("a", ["b", "c"]), ("b", ["e"]), ("d", ["a", "d", "e"])):
            ps = ot.PairSet()
            ps.PairValueRecord = []
            for sec in seconds:
                rec = ot.PairValueRecord()
                rec.SecondGlyph, rec.Value1, rec.Value2 = sec, "%s%s" % (first, sec), None
                ps.PairValueRecord.append(rec)
            ps.PairValueCount = len(seconds)
            st.PairSet.append(ps)
        st.PairSetCount = 3
        return dict(self=st, s=_s(S))

    ensures = [prop("exactly-the-pairs-with-both-glyphs-retained", lambda a, old, r: (
        _pairs(a.self) == [(f, s2, v) for f, s2, v in _pairs(old.self) if f in a.s.glyphs and s2 in a.s.glyphs]
        and len(a.self.Coverage.glyphs) == len(a.self.PairSet) == a.self.PairSetCount
        and all(ps.PairValueCount == len(ps.PairValueRecord) > 0 for ps in a.self.PairSet)
        and bool(r) == bool(a.self.PairSet)))]


def _ctx_rules(st, chain):
    """(first glyph, input tail, [backtrack, lookahead], lookup indices) of every rule"""
    out = []
    sets = st.ChainSubRuleSet if chain else st.SubRuleSet
    for g, rs in zip(st.Coverage.glyphs, sets):
        if rs is None:
            continue
        for r in (rs.ChainSubRule if chain else rs.SubRule):
            out.append((g, tuple(r.Input), tuple(r.Backtrack) if chain else (), tuple(r.LookAhead) if chain else (),
                        tuple(l.LookupListIndex for l in r.SubstLookupRecord)))
    return out


@contract
class ContextFormat1Subset(_K):
    """(Chain)ContextSubst format 1: the rules of each covered first glyph stay with THAT glyph
    (Coverage and rule-set list stay aligned when a first glyph loses all its rules), and exactly
    the rules all of whose glyphs are retained remain."""
    qualname = "ContextSubst.subset_glyphs"
    variants = ("context", "chain")

    def args(self, S, variant):
        from fontTools.ttLib.tables import otTables as ot
        chain = variant == "chain"
        st = ot.ChainContextSubst() if chain else ot.ContextSubst()
        st.Format = 1
        st.Coverage = _cov(ot, ["a", "b", "c"])
        sets = []
        # a: rules needing b / needing d; b: one rule needing e; c: rules needing d / nothing else
        spec = {"a": [(("b",), 0), (("d",), 1)], "b": [(("e",), 2)], "c": [(("d",), 3), ((), 4)]}
        for first in st.Coverage.glyphs:
            rs = (ot.ChainSubRuleSet if chain else ot.SubRuleSet)()
            rules = []
            for tail, idx in spec[first]:
                r = (ot.ChainSubRule if chain else ot.SubRule)()
                r.Input = list(tail)
                if chain:
                    r.Backtrack, r.LookAhead = (["e"] if idx == 0 else []), (["a"] if idx == 3 else [])
                    r.BacktrackGlyphCount, r.LookAheadGlyphCount = len(r.Backtrack), len(r.LookAhead)
                    r.InputGlyphCount = len(tail) + 1
                else:
                    r.GlyphCount = len(tail) + 1
                rec = ot.SubstLookupRecord()
                rec.SequenceIndex, rec.LookupListIndex = 0, idx
                r.SubstLookupRecord = [rec]
                r.SubstCount = 1
                rules.append(r)
            if chain:
                rs.ChainSubRule, rs.ChainSubRuleCount = rules, len(rules)
            else:
                rs.SubRule, rs.SubRuleCount = rules, len(rules)
            sets.append(rs)
        if chain:
            st.ChainSubRuleSet, st.ChainSubRuleSetCount = sets, 3
        else:
            st.SubRuleSet, st.SubRuleSetCount = sets, 3
        return dict(self=st, s=_s(S), _chain=chain)

    @staticmethod
    def _post(a, old, r):
        keep = a.s.glyphs
        want = [x for x in _ctx_rules(old.self, a._chain)
                if x[0] in keep and all(g in keep for g in x[1]) and all(g in keep for g in x[2]) and all(g in keep for g in x[3])]
        got = _ctx_rules(a.self, a._chain)
        sets = a.self.ChainSubRuleSet if a._chain else a.self.SubRuleSet
        return got == want and len(sets) == len(a.self.Coverage.glyphs) and bool(r) == bool(want)

    ensures = [prop("rules-stay-with-their-first-glyph-and-only-fully-retained-rules-remain", lambda a, old, r: ContextFormat1Subset._post(a, old, r))]


# -- --no-hinting: hinting devices go, variation devices stay ------------------------------------------

@contract
class PruneHintsKeepsVariation(_K):
    """Anchor.prune_hints and ValueRecord.prune_hints (subsetter option hinting=False) for every
    combination of {absent, hinting Device (DeltaFormat 1-3), VariationIndex (DeltaFormat
    0x8000)} on each device slot: exactly the hinting devices are removed, every variation device
    stays attached to ITS OWN field, coordinates are untouched, and an Anchor drops to format 1 only
    when no device is left."""
    qualname = "Anchor.prune_hints"
    variants = tuple((x, y) for x in ("none", "hint", "var") for y in ("none", "hint", "var")) + (("anchor2", "none"),)

    @staticmethod
    def _dev(ot, kind, tag):
        if kind == "none":
            return None
        d = ot.Device()
        d._tag = tag
        if kind == "hint":
            d.StartSize, d.EndSize, d.DeltaFormat, d.DeltaValue = 9, 10, 2, [1, -1]
        else:
            d.StartSize, d.EndSize, d.DeltaFormat = 0, 3, 0x8000       # outer / inner variation index
        return d

    def args(self, S, variant):
        from fontTools.ttLib.tables import otTables as ot
        x, y = variant
        a = ot.Anchor()
        a.XCoordinate, a.YCoordinate = S.int("x", -32768, 32767), S.int("y", -32768, 32767)
        if x == "anchor2":
            a.Format, a.AnchorPoint = 2, 7
        else:
            a.Format = 3
            a.XDeviceTable, a.YDeviceTable = self._dev(ot, x, "X"), self._dev(ot, y, "Y")
        vr = ot.ValueRecord()
        vr.XPlacement, vr.YAdvance = S.int("xp", -100, 100), S.int("ya", -100, 100)
        slots = ("XPlaDevice", "YPlaDevice", "XAdvDevice", "YAdvDevice")
        kinds = (x if x != "anchor2" else "none", y, y, x if x != "anchor2" else "hint")
        for slot, kind in zip(slots, kinds):
            d = self._dev(ot, kind, slot)
            if d is not None:
                setattr(vr, slot, d)
        return dict(self=a, _vr=vr, _kinds=dict(zip(slots, kinds)), _variant=variant)

    def call(self, f, a):
        f(a.self)
        type(a._vr).prune_hints(a._vr)
        return None

    @staticmethod
    def _post(a, old):
        an, x, y = a.self, a._variant[0], a._variant[1]
        cs = [eq(an.XCoordinate, old.self.XCoordinate), eq(an.YCoordinate, old.self.YCoordinate)]
        if x == "anchor2":
            ok = an.Format == 1
        else:
            keepx, keepy = x == "var", y == "var"
            ok = ((an.XDeviceTable is not None) == keepx and (an.YDeviceTable is not None) == keepy
                  and (not keepx or an.XDeviceTable._tag == "X") and (not keepy or an.YDeviceTable._tag == "Y")
                  and an.Format == (3 if keepx or keepy else 1))
        vr = a._vr
        for slot, kind in a._kinds.items():
            d = getattr(vr, slot, None)
            ok = ok and ((d is not None) == (kind == "var")) and (d is None or d._tag == slot)
        cs += [eq(vr.XPlacement, old._vr.XPlacement), eq(vr.YAdvance, old._vr.YAdvance)]
        return And(ok, *cs)

    ensures = [prop("hinting-devices-removed-variation-devices-kept-in-place", lambda a, old, r: PruneHintsKeepsVariation._post(a, old))]


# -- subsetter options: one run must not change the defaults of the next -------------------------------

@contract
class OptionsDefaultsAreNotShared(Contract):
    """subset.Options: after a run that edits a list-valued option in place ('+=' / '-=' on the
    command line, or options.x += [...] from Python) a fresh Options() has the documented
    defaults again, and they are the same for every instance - for each list-valued option."""
    module = "fontTools.subset"
    qualname = "Options.__init__"
    props = ("C16", "C07")
    shadow_mode = "real"
    variants = ("drop_tables", "no_subset_tables", "hinting_tables", "layout_features", "layout_scripts", "name_IDs", "name_languages")
    level = "PF"

    def args(self, S, variant):
        from fontTools import subset
        return dict(_opt=variant, _before=None)

    def call(self, f, a):
        from fontTools import subset
        cls = subset.Options
        fresh0 = cls()
        default0 = list(getattr(fresh0, a._opt))
        flag = "--" + a._opt.replace("_", "-")
        edited = cls()
        extra = "1234" if a._opt == "name_IDs" else "0x123" if a._opt == "name_languages" else "ZZZZ"
        edited.parse_opts([flag + "+=" + extra])
        edited.parse_opts([flag + "-=" + str(default0[0])]) if default0 and default0[0] != "*" else None
        py = cls()
        v = getattr(py, a._opt)
        v += [extra] if isinstance(v, list) else []
        fresh1 = cls()
        return default0, list(getattr(fresh1, a._opt)), getattr(fresh1, a._opt) is getattr(cls(), a._opt)

    ensures = [prop("fresh-options-have-the-defaults-again", lambda a, old, r: r[0] == r[1]),
               prop("instances-do-not-share-their-lists", lambda a, old, r: not r[2])]


# -- the per-lookup memo of the GSUB glyph closure ------------------------------------------------------

class _RecordingSubTable:
    def __init__(self):
        self.calls = []

    def closure_glyphs(self, s, cur_glyphs):
        self.calls.append((frozenset(s.glyphs), frozenset(cur_glyphs)))


@contract
class LookupClosureMemo(Contract):
    """Lookup.closure_glyphs keeps, per lookup, the position glyphs it was already applied to -
    but only for the glyph set as it was then.  For EVERY history of calls (position glyph sets
    over three glyphs, the glyph set growing between calls or not): after each call the
    subtables have been run on the current glyph set for a superset-union of the requested
    position glyphs - a call made after the glyph set has grown is never answered from the memo."""
    module = "fontTools.ttLib.tables.otTables"
    qualname = "Lookup.closure_glyphs"
    imports = ("fontTools.subset",)
    props = ("C07",)
    shadow_mode = "real"
    level = "PF"
    variants = ("histories-of-3",)

    def args(self, S, variant):
        return dict(_n=3)

    def call(self, f, a):
        import itertools
        import fontTools.subset  # noqa: F401
        from fontTools.ttLib.tables import otTables as ot
        universe = ("f", "i", "l")
        curs = [frozenset(c) for k in (1, 2) for c in itertools.combinations(universe, k)] + [None]
        bad, count = [], 0
        for hist in itertools.product(itertools.product(curs, (False, True)), repeat=a._n):
            class _S:
                pass
            s = _S()
            s.glyphs = {"f", "i"}
            s._doneLookups = {}
            lk = ot.Lookup()
            st = _RecordingSubTable()
            lk.SubTable = [None, st]
            grow = iter(("l", "x", "y"))
            for step, (cur, grows) in enumerate(hist):
                if grows:
                    s.glyphs.add(next(grow))
                f(lk, s, cur)
                count += 1
                now = frozenset(s.glyphs)
                want = now if cur is None else cur
                seen = set()
                for g, c in st.calls:
                    if g == now:
                        seen |= c
                if not want <= seen:
                    bad.append((hist[:step + 1], sorted(want), sorted(seen)))
                    break
        return count, bad

    ensures = [prop("subtables-ran-on-the-current-glyph-set-for-the-requested-positions", lambda a, old, r: r[0] > 0 and not r[1])]
