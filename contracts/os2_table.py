"""OS/2 (C16 write-frame and idempotence of compile, C02 round trip, C20 raw-cmap fallback):
compile() of every table version leaves the object as it was (panose restored, optical sizes
still in points), compiling twice gives the same bytes, decompile(compile(t)) returns the
fields, and an undecodable cmap kept as raw bytes does not stop OS/2 from being compiled."""
from pyvc.core import Contract, contract, prop, internal
from pyvc.models import std, SymBytes, sstruct_shadow
from pyvc.spec import And, Or, Not, Implies, Ite, eq
from pyvc.sym import SymNum
from contracts._support import FakeFont, ns

# OpenType OS/2 field list (written out from the specification, independent of the module's
# format strings): (name, struct code), version-0 part, then the additions
V0 = [("version", "H"), ("xAvgCharWidth", "h"), ("usWeightClass", "H"), ("usWidthClass", "H"), ("fsType", "H"),
      ("ySubscriptXSize", "h"), ("ySubscriptYSize", "h"), ("ySubscriptXOffset", "h"), ("ySubscriptYOffset", "h"),
      ("ySuperscriptXSize", "h"), ("ySuperscriptYSize", "h"), ("ySuperscriptXOffset", "h"), ("ySuperscriptYOffset", "h"),
      ("yStrikeoutSize", "h"), ("yStrikeoutPosition", "h"), ("sFamilyClass", "h"), ("panose", "10s"),
      ("ulUnicodeRange1", "L"), ("ulUnicodeRange2", "L"), ("ulUnicodeRange3", "L"), ("ulUnicodeRange4", "L"),
      ("achVendID", "4s"), ("fsSelection", "H"), ("usFirstCharIndex", "H"), ("usLastCharIndex", "H"),
      ("sTypoAscender", "h"), ("sTypoDescender", "h"), ("sTypoLineGap", "h"), ("usWinAscent", "H"), ("usWinDescent", "H")]
V1 = [("ulCodePageRange1", "L"), ("ulCodePageRange2", "L")]
V2 = V1 + [("sxHeight", "h"), ("sCapHeight", "h"), ("usDefaultChar", "H"), ("usBreakChar", "H"), ("usMaxContext", "H")]
V5 = V2 + [("usLowerOpticalPointSize", "H"), ("usUpperOpticalPointSize", "H")]
PANOSE = ["bFamilyType", "bSerifStyle", "bWeight", "bProportion", "bContrast", "bStrokeVariation", "bArmStyle",
          "bLetterForm", "bMidline", "bXHeight"]
LIM = {"H": (0, 65535), "h": (-32768, 32767), "L": (0, 2 ** 32 - 1)}


def fields_for(version):
    return V0 + ([] if version == 0 else V1 if version == 1 else V2 if version in (2, 3, 4) else V5)


def _rebind():
    return dict(std("struct", "len", "bytes", "int"), sstruct=sstruct_shadow())


def _mk(mod, S, version):
    cls = mod.table_O_S_2f_2
    t = cls.__new__(cls)
    for name, ch in fields_for(version):
        if name == "version":
            t.version = version
        elif name == "panose":
            p = mod.Panose.__new__(mod.Panose)
            for n in PANOSE:
                setattr(p, n, S.int("panose." + n, 0, 255))
            t.panose = p
        elif name == "achVendID":
            t.achVendID = "".join(chr(65 + i) for i in range(4))
        elif name.endswith("OpticalPointSize"):
            k = S.int(name + "_twips", 0, 65535)
            setattr(t, "_k_" + name, k)
            setattr(t, name, k / 20 if S.concrete else SymNum(k.real() / 20))
        else:
            setattr(t, name, S.int(name, *LIM[ch]))
    return t


def spec_decode(bs, version):
    out, pos = {}, 0
    for name, ch in fields_for(version):
        if ch.endswith("s"):
            n = int(ch[:-1])
            out[name] = bs[pos:pos + n]
        else:
            n = {"H": 2, "h": 2, "L": 4}[ch]
            v = 0
            for b in bs[pos:pos + n]:
                v = v * 256 + b
            if ch == "h":
                v = Ite(v >= 32768, v - 65536, v)
            out[name] = v
        pos += n
    return out, pos


class _RawTable:
    """what TTFont keeps for a table whose decompile failed: no decoded attributes at all"""

    def __init__(self):
        self.data = b"\x00\x01garbage"


def _font(kind, S):
    if kind == "no-cmap":
        return FakeFont([])
    if kind == "raw-cmap":
        return FakeFont([], cmap=_RawTable())
    codes = [S.int("code%d" % i, 0, 0x10FFFF) for i in range(2)]
    sub = ns(cmap={c: "g" for c in codes}, isUnicode=lambda: True)
    other = ns(cmap={S.int("maccode", 0, 255): "g"}, isUnicode=lambda: False)
    f = FakeFont([], cmap=ns(tables=[other, sub]))
    f._codes = codes
    return f


@contract
class OS2Compile(Contract):
    module = "fontTools.ttLib.tables.O_S_2f_2"
    qualname = "table_O_S_2f_2.compile"
    props = ("C16", "C02", "C20")
    rebind = staticmethod(_rebind)
    variants = tuple((v, k) for v in (0, 1, 2, 3, 4, 5) for k in ("no-cmap",)) + ((4, "raw-cmap"), (5, "raw-cmap"), (4, "unicode-cmap"))
    level = "PF"
    assumptions = ("A-REAL for the optical point sizes (k/20*20 exact)", "head/bhed absent (their macStyle cross-check only logs)")

    def args(self, S, variant):
        version, kind = variant
        return dict(self=_mk(self.mod, S, version), ttFont=_font(kind, S), _version=version, _kind=kind)

    def call(self, f, a):
        first = f(a.self, a.ttFont)
        snap = dict(a.self.__dict__)
        second = f(a.self, a.ttFont)
        return first, second, snap

    @staticmethod
    def _decodes(a, r):
        bs = list(SymBytes.of(r[0]).items)
        dec, n = spec_decode(bs, a._version)
        cs = [len(bs) == n]
        for name, ch in fields_for(a._version):
            if name == "panose":
                cs += [eq(dec[name][i], getattr(a.self.panose, pn)) for i, pn in enumerate(PANOSE)]
            elif name == "achVendID":
                cs += [eq(dec[name][i], ord(ch_)) for i, ch_ in enumerate(a.self.achVendID)]
            elif name.endswith("OpticalPointSize"):
                cs.append(eq(dec[name], getattr(a.self, "_k_" + name)))
            elif a._kind == "unicode-cmap" and name in ("usFirstCharIndex", "usLastCharIndex"):
                c0, c1 = a.ttFont._codes
                lo, hi = Ite(c0 <= c1, c0, c1), Ite(c0 <= c1, c1, c0)
                want = lo if name == "usFirstCharIndex" else hi
                cs.append(eq(dec[name], Ite(want > 0xFFFF, 0xFFFF, want)))
            else:
                cs.append(eq(dec[name], getattr(a.self, name)))
        return And(*cs)

    @staticmethod
    def _frame(a, old, r):
        may_change = ("usFirstCharIndex", "usLastCharIndex") if a._kind == "unicode-cmap" else ()
        now, before = a.self.__dict__, old.self.__dict__
        if list(now) != list(before):
            return False
        cs = []
        for k in before:
            if k in may_change:
                continue
            if k == "panose":
                cs.append(type(now[k]) is type(before[k]))
                cs += [eq(getattr(now[k], n), getattr(before[k], n)) for n in PANOSE]
            elif k == "achVendID":
                cs.append(now[k] == before[k])
            else:
                cs.append(eq(now[k], before[k]))
        return And(*cs)

    ensures = [
        prop("bytes-decode-to-the-fields", lambda a, old, r: OS2Compile._decodes(a, r)),
        prop("second-compile-identical", lambda a, old, r: SymBytes.of(r[0]) == SymBytes.of(r[1])),
        prop("object-left-as-it-was", lambda a, old, r: OS2Compile._frame(a, old, r)),
    ]


@contract
class OS2RoundTrip(Contract):
    """decompile(compile(t)) gives back every field (optical point sizes in points)."""
    module = "fontTools.ttLib.tables.O_S_2f_2"
    qualname = "table_O_S_2f_2.decompile"
    props = ("C02", "C01")
    rebind = staticmethod(_rebind)
    variants = (0, 1, 3, 5)
    level = "PF"

    def args(self, S, variant):
        return dict(self=_mk(self.mod, S, variant), ttFont=FakeFont([]), _version=variant)

    def call(self, f, a):
        cls = type(a.self)
        data = cls.compile(a.self, a.ttFont)
        back = cls.__new__(cls)
        f(back, data, a.ttFont)
        return back

    @staticmethod
    def _same(a, r):
        cs = []
        for name, ch in fields_for(a._version):
            if name == "panose":
                cs += [eq(getattr(r.panose, n), getattr(a.self.panose, n)) for n in PANOSE]
            elif name == "achVendID":
                cs.append(r.achVendID == a.self.achVendID)
            elif name.endswith("OpticalPointSize"):
                cs.append(eq(getattr(r, name) * 20, getattr(a.self, "_k_" + name)))
            else:
                cs.append(eq(getattr(r, name), getattr(a.self, name)))
        return And(*cs)

    ensures = [prop("fields-survive", lambda a, old, r: OS2RoundTrip._same(a, r))]
