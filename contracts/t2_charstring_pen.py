"""T2CharStringPen (C14, C12): the charstring built from pen calls draws those very calls back - every
point at its (rounded) absolute position, contours in order - carries the rounded width first (CFF
only) and ends with endchar (CFF only).  specializeCommands is used through a recorder (its own
contract: SpecializeCommands) and must be asked with generalizeFirst=False and the stack limit of
the format; the pen's own part is the absolute -> relative bookkeeping."""
from pyvc.core import Contract, contract, prop, internal
from pyvc.spec import And, Or, Not, Implies, Ite, eq, floor
from contracts.varlib_mutator_merger import _IntModel

SHAPES = {
    "line-contour": ["m", "l", "l", "c"],
    "curve-contour": ["m", "q3", "l", "c"],
    "two-contours": ["m", "l", "c", "m", "q3", "q3", "c"],
    "open-path": ["m", "l", "e"],
    "empty": [],
}


@contract
class T2CharStringPenRoundTrip(_IntModel, Contract):
    module = "fontTools.pens.t2CharStringPen"
    qualname = "T2CharStringPen.getCharString"
    props = ("C14", "C12")
    shadow_mode = "real"
    variants = tuple((shape, cff2, rounding) for shape in SHAPES for cff2 in (False, True) for rounding in ("integers", "round-half-up"))
    level = "PF"
    assumptions = ("A-REAL", "specializeCommands is a recorder returning its input (own contract: SpecializeCommands); T2OutlineExtractor is the oracle for 'draws'")

    def setup(self):
        _IntModel.setup(self)
        import fontTools.pens.t2CharStringPen as mod
        self._saved_spec = mod.specializeCommands

    def teardown(self):
        import fontTools.pens.t2CharStringPen as mod
        mod.specializeCommands = self._saved_spec
        _IntModel.teardown(self)

    def args(self, S, variant):
        import fontTools.pens.t2CharStringPen as mod
        shape, cff2, rounding = variant
        mk = (lambda n: S.int(n, -2000, 2000)) if rounding == "integers" else (lambda n: S.real(n))
        calls, k = [], 0

        def pt():
            nonlocal k
            k += 1
            return (mk("x%d" % k), mk("y%d" % k))
        for tok in SHAPES[shape]:
            if tok == "m":
                calls.append(("moveTo", (pt(),)))
            elif tok == "l":
                calls.append(("lineTo", (pt(),)))
            elif tok == "q3":
                calls.append(("curveTo", (pt(), pt(), pt())))
            elif tok == "c":
                calls.append(("closePath", ()))
            else:
                calls.append(("endPath", ()))
        asked = []

        def spec(commands, generalizeFirst=True, maxstack=48, **kw):
            asked.append((generalizeFirst, maxstack))
            return commands
        mod.specializeCommands = spec
        width = None if cff2 else (S.int("width", 0, 3000) if rounding == "integers" else S.real("width"))
        pen = mod.T2CharStringPen(width, None, roundTolerance=0.5, CFF2=cff2)
        for op, a_ in calls:
            getattr(pen, op)(*a_)
        return dict(self=pen, _calls=calls, _asked=asked, _width=width, _v=variant)

    def call(self, f, a):
        return f(a.self, None, None, True)

    @staticmethod
    def _post(a, r):
        from fontTools.pens.recordingPen import RecordingPen
        from fontTools.misc.psCharStrings import T2OutlineExtractor
        shape, cff2, rounding = a._v
        prog = list(r.program)
        rd = (lambda v: v) if rounding == "integers" else (lambda v: floor(v + 0.5))
        cs = [a._asked == [(False, 513 if cff2 else 48)]]
        if not cff2:
            if not prog or prog[-1] != "endchar":
                return False
            if a._width is not None:
                cs.append(eq(prog[0], rd(a._width)))
        elif "endchar" in [t for t in prog if isinstance(t, str)]:
            return False

        class _P:
            nominalWidthX = defaultWidthX = 0
        pen = RecordingPen()
        ex = T2OutlineExtractor(pen, [], [], 0, 0, _P())
        ex.execute(r)
        got = [(op, pts) for op, pts in pen.value if op not in ("closePath", "endPath")]
        want = [(op, pts) for op, pts in a._calls if op not in ("closePath", "endPath")]
        if [g[0] for g in got] != [w[0] for w in want]:
            return False
        for (_, gp), (_, wp) in zip(got, want):
            if len(gp) != len(wp):
                return False
            cs += [eq(p[i], rd(q[i])) for p, q in zip(gp, wp) for i in (0, 1)]
        return And(*cs)

    ensures = [prop("charstring-draws-the-pen-calls-back", lambda a, old, r: T2CharStringPenRoundTrip._post(a, r))]
