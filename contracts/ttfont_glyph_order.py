"""TTFont glyph order bookkeeping (C17): after setGlyphOrder every query - getGlyphID, getGlyphName,
getGlyphIDMany, getGlyphNameMany, getReverseGlyphMap - answers from the NEW order (the cached
reverse map is dropped), a loaded glyf table follows, and names of the form glyphNNNNN that are not
in the order still resolve to NNNNN.  Every permutation of four names, queried before and after,
and a second reordering."""
import itertools

from pyvc.core import Contract, contract, prop, internal


@contract
class GlyphOrderHistory(Contract):
    module = "fontTools.ttLib.ttFont"
    qualname = "TTFont.setGlyphOrder"
    props = ("C17",)
    shadow_mode = "real"
    variants = ("glyf-loaded", "no-glyf")
    level = "PF"
    assumptions = ("token-valued: the family is every pair of permutations of four glyph names",)

    def args(self, S, variant):
        return dict(_glyf=(variant == "glyf-loaded"))

    def call(self, f, a):
        from fontTools.ttLib import TTFont, newTable
        names = [".notdef", "A", "a", "glyph00007"]
        bad, count = [], 0

        def answers(font):
            return ([font.getGlyphID(n) for n in names], [font.getGlyphName(i) for i in range(4)], font.getGlyphIDMany(list(names)),
                    font.getGlyphNameMany([3, 0]), dict(font.getReverseGlyphMap()), font.getGlyphID("glyph00002"), list(font.getGlyphOrder()))

        def expected(order):
            return ([order.index(n) for n in names], list(order), [order.index(n) for n in names], [order[3], order[0]],
                    {n: i for i, n in enumerate(order)}, 2, list(order))
        for p1 in itertools.permutations(names):
            for p2 in itertools.permutations(names):
                font = TTFont()
                font.glyphOrder = list(names)
                if a._glyf:
                    glyf = newTable("glyf")
                    glyf.glyphs, glyf.glyphOrder = {n: None for n in names}, list(names)
                    font.tables["glyf"] = glyf
                trail = [answers(font) == expected(names)]
                for p in (p1, p2):
                    f(font, list(p))
                    trail.append(answers(font) == expected(list(p)))
                    if a._glyf:
                        trail.append(list(font["glyf"].glyphOrder) == list(p))
                count += 1
                if not all(trail):
                    bad.append((p1, p2, trail))
        return count, bad

    ensures = [prop("every-query-answers-from-the-current-order", lambda a, old, r: r[0] == 576 and not r[1])]
