"""instantiateFvar (C08): the instance's fvar lists exactly the axes that are not pinned, each with
the requested range (its old default when the request leaves the default open); a named instance
survives exactly when it sits ON every pinned value and INSIDE every limited range, and then keeps
its coordinates on the remaining axes; with every axis pinned the table is dropped."""
from pyvc.core import Contract, contract, prop, internal
from pyvc.spec import And, Or, Not, Implies, Ite, eq


class _Axis:
    pass


class _Inst:
    pass


# per axis: "keep" (no limit), "pin", "range" (min, default, max given), "range-open-default"
SHAPES = {
    "pin-keep": ("pin", "keep"), "keep-pin": ("keep", "pin"), "range-keep": ("range", "keep"), "range-pin": ("range", "pin"),
    "range-range": ("range", "range"), "open-range": ("range-open-default", "range"), "pin-pin": ("pin", "pin"), "keep-keep": ("keep", "keep"),
}
TAGS = ("wght", "wdth")


@contract
class InstantiateFvar(Contract):
    module = "fontTools.varLib.instancer"
    qualname = "instantiateFvar"
    props = ("C08",)
    shadow_mode = "real"
    variants = tuple(SHAPES)
    level = "PF"
    assumptions = ("A-REAL: coordinates as reals",)

    def args(self, S, variant):
        from fontTools.varLib.instancer import AxisLimits, AxisTriple
        axes, limits, req = [], {}, {}
        for tag, kind in zip(TAGS, SHAPES[variant]):
            a = _Axis()
            a.axisTag = tag
            a.minValue, a.defaultValue, a.maxValue = S.real(tag + ".min"), S.real(tag + ".default"), S.real(tag + ".max")
            a.flags = 0
            axes.append(a)
            def triple(lo, de, hi):
                # built without __post_init__: its ordering check is this contract's precondition
                t = AxisTriple.__new__(AxisTriple)
                for k, v in (("minimum", lo), ("default", de), ("maximum", hi)):
                    object.__setattr__(t, k, v)
                return t
            if kind == "pin":
                v = S.real(tag + ".pin")
                req[tag] = ("pin", v)
                limits[tag] = triple(v, v, v)
            elif kind == "range":
                lo, de, hi = S.real(tag + ".lo"), S.real(tag + ".de"), S.real(tag + ".hi")
                req[tag] = ("range", lo, de, hi)
                limits[tag] = triple(lo, de, hi)
            elif kind == "range-open-default":
                lo, hi = S.real(tag + ".lo"), S.real(tag + ".hi")
                req[tag] = ("range", lo, None, hi)
                limits[tag] = triple(lo, None, hi)
        insts = []
        for i in range(2):
            n = _Inst()
            n.coordinates = {tag: S.real("inst%d.%s" % (i, tag)) for tag in TAGS}
            n.subfamilyNameID, n.postscriptNameID = 256 + i, 0xFFFF
            insts.append(n)

        class _Fvar:
            pass
        fvar = _Fvar()
        fvar.axes, fvar.instances = list(axes), list(insts)
        font = {"fvar": fvar}
        al = AxisLimits()
        al._data.update(limits)
        return dict(varfont=font, axisLimits=al, _axes=axes, _insts=insts, _req=req, _fvar=fvar,
                    _old=[(a.minValue, a.defaultValue, a.maxValue) for a in axes], _coords=[dict(n.coordinates) for n in insts])

    def requires(self, a):
        cs = []
        for tag, r in a._req.items():
            if r[0] == "range":
                cs.append(r[1] < r[3])                      # a genuine range (lo == hi is a pin)
                if r[2] is not None:
                    cs += [r[1] <= r[2], r[2] <= r[3]]
        return And(*cs)

    @staticmethod
    def _post(a):
        font, fvar, req = a.varfont, a._fvar, a._req
        pinned = [t for t in TAGS if t in req and req[t][0] == "pin"]
        if len(pinned) == len(TAGS):
            return "fvar" not in font
        if font.get("fvar") is not fvar:
            return False
        kept = [ax for ax in a._axes if ax.axisTag not in pinned]
        if len(fvar.axes) != len(kept) or any(x is not y for x, y in zip(fvar.axes, kept)):
            return False
        cs = []
        for ax, old in zip(a._axes, a._old):
            if ax.axisTag in pinned:
                continue
            r = req.get(ax.axisTag)
            want = old if r is None else (r[1], old[1] if r[2] is None else r[2], r[3])
            cs += [eq(ax.minValue, want[0]), eq(ax.defaultValue, want[1]), eq(ax.maxValue, want[2])]
        # named instances
        keep = []
        for n, c in zip(a._insts, a._coords):
            cond = []
            for t in TAGS:
                r = req.get(t)
                if r is None:
                    continue
                cond.append(eq(c[t], r[1]) if r[0] == "pin" else And(r[1] <= c[t], c[t] <= r[3]))
            keep.append(And(*cond))
        present = [any(n is m for m in fvar.instances) for n in a._insts]
        cs += [eq(p, k) for p, k in zip(present, keep)]
        order = [n for n in a._insts if any(n is m for m in fvar.instances)]
        cs.append(len(order) == len(fvar.instances) and all(x is y for x, y in zip(order, fvar.instances)))
        for n, c in zip(a._insts, a._coords):
            if any(n is m for m in fvar.instances):
                cs.append(set(n.coordinates) == set(TAGS) - set(pinned))
                cs += [eq(n.coordinates[t], c[t]) for t in n.coordinates]
        return And(*cs)

    ensures = [prop("remaining-axes-ranges-and-named-instances", lambda a, old, r: InstantiateFvar._post(a))]


@contract
class StatAxisValuesFromLimits(Contract):
    """axisValuesFromAxisLimits: a STAT AxisValue table stays exactly when every value it names
    (formats 1 and 3: Value; format 2: NominalValue; format 4: every record) lies inside the
    requested range of its axis - a pinned axis keeps only its exact value -, tables of axes
    without a request and of unknown formats stay, and the order is kept."""
    module = "fontTools.varLib.instancer"
    qualname = "axisValuesFromAxisLimits"
    props = ("C08",)
    shadow_mode = "real"
    variants = ("pin-wght", "range-wght", "range-wght-pin-wdth")
    level = "PF"
    assumptions = ("A-REAL: coordinates as reals",)

    def args(self, S, variant):
        from fontTools.varLib.instancer import AxisLimits, AxisTriple
        from fontTools.ttLib.tables import otTables as ot

        def triple(lo, de, hi):
            t = AxisTriple.__new__(AxisTriple)
            for k, v in (("minimum", lo), ("default", de), ("maximum", hi)):
                object.__setattr__(t, k, v)
            return t
        lim = {}
        if variant == "pin-wght":
            v = S.real("wght.pin")
            lim["wght"] = (v, v)
        else:
            lim["wght"] = (S.real("wght.lo"), S.real("wght.hi"))
            if variant.endswith("pin-wdth"):
                v = S.real("wdth.pin")
                lim["wdth"] = (v, v)
        al = AxisLimits()
        al._data.update({t: triple(lo, lo, hi) for t, (lo, hi) in lim.items()})
        stat = ot.STAT()
        stat.DesignAxisRecord = ot.AxisRecordArray()
        stat.DesignAxisRecord.Axis = []
        for tag in ("wght", "wdth", "ital"):
            ax = ot.AxisRecord()
            ax.AxisTag = tag
            stat.DesignAxisRecord.Axis.append(ax)
        tables, named = [], []

        def av(fmt, axis, name):
            t = ot.AxisValue()
            t.Format, t.AxisIndex = fmt, axis
            if fmt == 2:
                t.NominalValue, t.RangeMinValue, t.RangeMaxValue = S.real(name + ".nominal"), S.real(name + ".rmin"), S.real(name + ".rmax")
                named.append((t, [(axis, t.NominalValue)]))
            else:
                t.Value = S.real(name + ".value")
                if fmt == 3:
                    t.LinkedValue = S.real(name + ".linked")
                named.append((t, [(axis, t.Value)]))
            tables.append(t)
        av(1, 0, "f1wght")
        av(2, 0, "f2wght")
        av(3, 1, "f3wdth")
        av(1, 2, "f1ital")
        t4 = ot.AxisValue()
        t4.Format, t4.AxisValueRecord = 4, []
        recs = []
        for axis in (0, 1):
            r = ot.AxisValueRecord()
            r.AxisIndex, r.Value = axis, S.real("f4.axis%d" % axis)
            t4.AxisValueRecord.append(r)
            recs.append((axis, r.Value))
        tables.append(t4)
        named.append((t4, recs))
        t9 = ot.AxisValue()
        t9.Format = 9
        tables.append(t9)
        named.append((t9, []))
        stat.AxisValueArray = ot.AxisValueArray()
        stat.AxisValueArray.AxisValue = list(tables)
        return dict(stat=stat, axisLimits=al, _lim=lim, _named=named, _tables=tables)

    def requires(self, a):
        return And(*[lo <= hi for lo, hi in a._lim.values()])

    @staticmethod
    def _post(a, r):
        tags = ("wght", "wdth", "ital")
        cs = []
        for t, vals in a._named:
            inside = And(*[And(a._lim[tags[ax]][0] <= v, v <= a._lim[tags[ax]][1]) for ax, v in vals if tags[ax] in a._lim])
            cs.append(eq(any(t is x for x in r), inside))
        kept = [t for t in a._tables if any(t is x for x in r)]
        return And(len(kept) == len(r) and all(x is y for x, y in zip(kept, r)), *cs)

    ensures = [prop("exactly-the-axis-values-inside-the-requested-ranges-stay", lambda a, old, r: StatAxisValuesFromLimits._post(a, r))]
