"""instantiateGvar (C08): glyphs are instanced components-first.  A composite's bounds - and from
them its side bearing and phantom points - are computed from the current state of its components,
so every component has to be instanced before any composite that uses it, however deep the
nesting and whatever the glyph names."""
import itertools

from pyvc.core import Contract, contract, prop, internal


def _structures(names):
    """every acyclic component structure over the glyph names (each glyph: simple, or composite of
    any non-empty set of glyphs that come later in some fixed topological numbering)"""
    n = len(names)
    for perm in itertools.permutations(range(n)):
        # perm[k] = topological level position of glyph k; a glyph may use glyphs with a smaller position
        choices = []
        for k in range(n):
            lower = [j for j in range(n) if perm[j] < perm[k]]
            subsets = [()]
            for r in range(1, len(lower) + 1):
                subsets += list(itertools.combinations(lower, r))
            choices.append(subsets)
        for combo in itertools.product(*choices):
            yield {names[k]: tuple(names[j] for j in combo[k]) for k in range(n)}


@contract
class InstantiateGvarOrder(Contract):
    """For EVERY acyclic component structure over four glyphs with adversarially ordered names
    (and with the real maxp depth computation on real Glyph objects): _instantiateGvarGlyph is
    called exactly once per glyph, and for a composite only after all of its components."""
    module = "fontTools.varLib.instancer"
    qualname = "instantiateGvar"
    props = ("C08",)
    shadow_mode = "real"
    variants = ("4-glyphs",)
    level = "PF"
    assumptions = ("_instantiateGvarGlyph is replaced by a recorder: what it does per glyph is under the bounded instancer harness",)

    def args(self, S, variant):
        return dict(_names=("a", "B", "c.alt", "Aa"))

    def setup(self):
        import fontTools.varLib.instancer as inst
        self._saved = inst._instantiateGvarGlyph

    def teardown(self):
        import fontTools.varLib.instancer as inst
        inst._instantiateGvarGlyph = self._saved

    def call(self, f, a):
        import fontTools.varLib.instancer as inst
        from fontTools.ttLib import newTable
        from fontTools.ttLib.tables._g_l_y_f import Glyph, GlyphComponent, GlyphCoordinates
        seen, bad, count = set(), [], 0
        for struct in _structures(a._names):
            key = tuple(sorted(struct.items()))
            if key in seen:
                continue
            seen.add(key)
            count += 1
            glyf = newTable("glyf")
            glyf.glyphs, glyf.glyphOrder = {}, list(a._names)
            for name, comps in struct.items():
                g = Glyph()
                if comps:
                    g.numberOfContours = -1
                    g.components = []
                    for c in comps:
                        gc = GlyphComponent()
                        gc.glyphName, gc.x, gc.y, gc.flags = c, 0, 0, 0x4
                        g.components.append(gc)
                else:
                    g.numberOfContours = 1
                    g.coordinates = GlyphCoordinates([(0, 0), (10, 0), (10, 10)])
                    g.flags = bytearray([1, 1, 1])
                    g.endPtsOfContours = [2]
                    g.program = None
                glyf.glyphs[name] = g
            order = []
            inst._instantiateGvarGlyph = lambda glyphname, *rest, **kw: order.append(glyphname)

            class _Gvar:
                variations = {"x": 1}

            class _Hmtx:
                metrics = {}
            font = {"gvar": _Gvar(), "glyf": glyf, "hmtx": _Hmtx()}
            f(font, {}, True)
            done, ok = set(), sorted(order) == sorted(a._names)
            for name in order:
                if not set(struct.get(name, ())) <= done:
                    ok = False
                done.add(name)
            if not ok:
                bad.append((struct, order))
        return count, bad

    ensures = [prop("components-are-instanced-before-the-composites-using-them", lambda a, old, r: r[0] > 100 and not r[1])]
