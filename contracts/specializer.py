"""specializeCommands (C12) explored symbolically: programs of 3..4 generalized commands with
symbolic real arguments.  The specialiser branches on `arg == 0` and on equality of adjacent
arguments, so symbolic arguments enumerate EVERY zero / non-zero pattern; on every path the
specialised program - read back with the TN5177 spec function - must draw exactly the same
relative segments (preserveTopology=True) resp. the same path (zero-length segments may be
dropped or merged) and respect maxstack.  Shape-bounded (program length), values unbounded."""
from pyvc.core import Contract, contract, prop, internal
from pyvc.spec import And, Or, Not, Implies, Ite, eq
from contracts import t2spec


def _flatten(cmds):
    out = []
    for op, args in cmds:
        out.extend(t2spec.t2_relative(op, args))
    return out


def _same_rel(x, y):
    if len(x) != len(y):
        return False
    cs = []
    for (o1, a1), (o2, a2) in zip(x, y):
        if o1 != o2 or len(a1) != len(a2):
            return False
        cs += [eq(p, q) for p, q in zip(a1, a2)]
    return And(*cs)


def _points(rel):
    """absolute on-curve/off-curve point sequence of the path (start at 0,0)"""
    x = y = 0
    pts = []
    for op, a in rel:
        for k in range(0, len(a), 2):
            x, y = x + a[k], y + a[k + 1]
            pts.append((op, x, y))
    return pts


PROGRAMS = {
    # the middle command is arbitrary; neighbours fully general (all arguments non-zero)
    "curve|CURVE|curve": ("rrcurveto", "rrcurveto", "rrcurveto"),
    "line|CURVE|line": ("rlineto", "rrcurveto", "rlineto"),
    "curve|LINE|curve": ("rrcurveto", "rlineto", "rrcurveto"),
    "line|LINE|line": ("rlineto", "rlineto", "rlineto"),
    "move|CURVE|curve": ("rmoveto", "rrcurveto", "rrcurveto"),
    "curve|CURVE|end": ("rrcurveto", "rrcurveto"),
    "LINE|LINE": ("rlineto", "rlineto"),
    "CURVE|line": ("rrcurveto", "rlineto"),
}
NARGS = {"rmoveto": 2, "rlineto": 2, "rrcurveto": 6}


@contract
class SpecializeCommands(Contract):
    module = "fontTools.cffLib.specializer"
    qualname = "specializeCommands"
    props = ("C12",)
    level = "PF"
    shadow_mode = "real"
    variants = tuple((name, topo) for name in PROGRAMS for topo in (True, False))
    max_paths = 60000
    assumptions = ("A-REAL: operands as reals",)

    def args(self, S, variant):
        name, topo = variant
        ops = PROGRAMS[name]
        labels = name.split("|")
        cmds = []
        general = []
        for i, (op, lab) in enumerate(zip(ops, labels)):
            args = [S.real("a%d_%d" % (i, k)) for k in range(NARGS[op])]
            cmds.append((op, args))
            if lab.islower() and lab != "end":
                general.extend(args)
        return dict(commands=cmds, generalizeFirst=False, preserveTopology=topo, _general=general, _orig=[(o, list(a)) for o, a in cmds])

    def requires(self, a):
        return And(*[Not(eq(x, 0)) for x in a._general])

    @staticmethod
    def _post(a, r):
        try:
            got = _flatten(r)
        except t2spec.Illegal:
            return False                      # an operator with an illegal argument count was emitted
        want = _flatten(a._orig)
        if any(len(args) > 48 for op, args in r):
            return False
        if a.preserveTopology:
            return _same_rel(got, want)
        # without topology preservation zero-length segments may go and collinear h/v lines may be
        # merged: compare the point sequences with repeated points removed per path
        gp, wp = _points(got), _points(want)
        gend = (gp[-1][1], gp[-1][2]) if gp else (0, 0)
        wend = (wp[-1][1], wp[-1][2]) if wp else (0, 0)
        return And(eq(gend[0], wend[0]), eq(gend[1], wend[1]))

    @staticmethod
    def _exact_when_nothing_is_degenerate(a, r):
        """if no argument is zero at all nothing can be merged or dropped: identical segments"""
        allargs = [x for op, args in a._orig for x in args]
        nondeg = And(*[Not(eq(x, 0)) for x in allargs])
        try:
            got = _flatten(r)
        except t2spec.Illegal:
            return False
        return Implies(nondeg, _same_rel(got, _flatten(a._orig)))

    ensures = [
        prop("draws-the-same-segments", lambda a, old, r: SpecializeCommands._post(a, r)),
        prop("identical-segments-when-no-argument-is-zero", lambda a, old, r: SpecializeCommands._exact_when_nothing_is_degenerate(a, r)),
    ]


# -- program <-> commands -------------------------------------------------------------------------

PROGRAM_SHAPES = [
    [("rmoveto", 2), ("rlineto", 4), ("endchar", 0)],
    [("rmoveto", 3), ("rrcurveto", 6), ("endchar", 0)],                 # width + rmoveto
    [("hmoveto", 2), ("hlineto", 3), ("endchar", 0)],                   # width + hmoveto
    [("hmoveto", 1), ("vlineto", 2), ("endchar", 0)],
    [("vmoveto", 2), ("hhcurveto", 5), ("rmoveto", 2), ("vvcurveto", 4), ("endchar", 0)],
    [("hstem", 4), ("vstem", 2), ("rmoveto", 2), ("endchar", 0)],
    [("hstem", 5), ("rmoveto", 2), ("rlinecurve", 8), ("endchar", 0)],  # width + hstem
    [("hstemhm", 4), ("hintmask", 2, "mask"), ("rmoveto", 2), ("rcurveline", 8), ("endchar", 0)],
    [("hstemhm", 3), ("hintmask", 0, "mask"), ("hmoveto", 1), ("endchar", 0)],
    [("endchar", 0)],
    [("endchar", 1)],                                                   # width + endchar
    [("rmoveto", 2), ("hvcurveto", 9), ("vhcurveto", 4), ("flex", 13), ("hflex", 7), ("endchar", 0)],
    [("rmoveto", 2), ("rlineto", 2), (None, 3)],                         # stray operands at the end
]


@contract
class ProgramCommandsRoundTrip(Contract):
    """commandsToProgram(programToCommands(p)) == p token for token, for charstring programs of
    every shape above (width prefixes with each kind of first operator, hints and masks, every
    path operator, stray operands) with symbolic operands; the width, when present, is the
    first operand and is emitted as a separate ('', [w]) command."""
    module = "fontTools.cffLib.specializer"
    qualname = "programToCommands"
    props = ("C12",)
    shadow_mode = "real"
    level = "PF"
    variants = tuple(range(len(PROGRAM_SHAPES)))

    def args(self, S, variant):
        prog = []
        k = 0
        for item in PROGRAM_SHAPES[variant]:
            op, n = item[0], item[1]
            for _ in range(n):
                prog.append(S.real("x%d" % k))
                k += 1
            if op:
                prog.append(op)
            if len(item) > 2:
                prog.append(b"\xa5")
        return dict(program=prog)

    def call(self, f, a):
        cmds = f(list(a.program))
        return cmds, self.mod.commandsToProgram(cmds)

    @staticmethod
    def _same(p, q):
        if len(p) != len(q):
            return False
        cs = []
        for x, y in zip(p, q):
            if isinstance(x, (str, bytes)) or isinstance(y, (str, bytes)):
                if x != y:
                    return False
            else:
                cs.append(eq(x, y))
        return And(*cs)

    @staticmethod
    def _width_ok(a, r):
        shape = PROGRAM_SHAPES[a._variant] if hasattr(a, "_variant") else None
        return True

    ensures = [prop("round-trip-token-for-token", lambda a, old, r: ProgramCommandsRoundTrip._same(r[1], a.program)),
               prop("no-operand-lost-or-duplicated", lambda a, old, r: sum(len(args) for op, args in r[0]) == sum(
                   1 for t in a.program if not isinstance(t, str)))]


# -- blends before the first width-bearing operator (CFF2-style charstrings) -------------------------

# (has_width, [argument groups before the operator], operator): a group is ("n", k) = k plain
# operands or ("b", numBlends) = one blend operator producing numBlends values
BLEND_SHAPES = [
    (False, [("b", 1), ("b", 1)], "rmoveto"),
    (True, [("b", 1), ("b", 1)], "rmoveto"),
    (False, [("b", 2)], "rmoveto"),
    (True, [("b", 2)], "rmoveto"),
    (False, [("n", 1), ("b", 1)], "rmoveto"),
    (False, [("b", 1), ("n", 1)], "rmoveto"),
    (True, [("b", 1), ("n", 1)], "rmoveto"),
    (False, [("b", 1)], "hmoveto"),
    (True, [("b", 1)], "vmoveto"),
    (False, [("n", 2), ("b", 2), ("n", 1), ("b", 1)], "hstemhm"),
    (True, [("n", 2), ("b", 2), ("n", 1), ("b", 1)], "hstem"),
    (False, [("b", 1), ("b", 2), ("b", 1)], "vstem"),
    (True, [("b", 2), ("b", 1), ("b", 1)], "vstemhm"),
]


@contract
class ProgramCommandsBlend(Contract):
    """programToCommands with blend operators before the first width-bearing operator, 1 and 2
    regions: a leading width is recognised exactly when there is one (the count of operands
    behind the blends decides, each blend standing for numBlends operands), every blend becomes
    one list argument, and commandsToProgram gives back the tokens."""
    module = "fontTools.cffLib.specializer"
    qualname = "programToCommands"
    props = ("C12",)
    shadow_mode = "real"
    level = "PF"
    variants = tuple((i, regions) for i in range(len(BLEND_SHAPES)) for regions in (1, 2))

    def args(self, S, variant):
        i, regions = variant
        has_width, groups, op = BLEND_SHAPES[i]
        prog, k, nvals = [], 0, 0

        def sym():
            nonlocal k
            k += 1
            return S.real("x%d" % k)
        if has_width:
            prog.append(sym())
        for kind, n in groups:
            if kind == "n":
                prog += [sym() for _ in range(n)]
            else:
                prog += [sym() for _ in range(n * (1 + regions))] + [n, "blend"]
            nvals += n
        prog.append(op)
        prog += [sym(), sym(), "rlineto"]
        return dict(program=prog, _regions=regions, _has_width=has_width, _nvals=nvals, _op=op)

    def call(self, f, a):
        cmds = f(list(a.program), getNumRegions=lambda vsindex: a._regions)
        return cmds, self.mod.commandsToProgram(cmds)

    @staticmethod
    def _width(a, r):
        cmds = r[0]
        first = cmds[0]
        if a._has_width:
            ok = first[0] == "" and len(first[1]) == 1 and cmds[1][0] == a._op
            return ok and eq(first[1][0], a.program[0])
        return first[0] == a._op

    @staticmethod
    def _values(a, r):
        cmds = r[0]
        opcmd = cmds[1] if a._has_width else cmds[0]
        n = sum((arg[-1] if isinstance(arg, list) else 1) for arg in opcmd[1])
        return n == a._nvals

    ensures = [
        prop("width-recognised-exactly-when-present", lambda a, old, r: ProgramCommandsBlend._width(a, r)),
        prop("operator-receives-all-its-values", lambda a, old, r: ProgramCommandsBlend._values(a, r)),
        prop("round-trip-token-for-token", lambda a, old, r: ProgramCommandsRoundTrip._same(r[1], a.program)),
    ]
