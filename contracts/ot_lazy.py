"""Lazy otTables (C17, C07, C01): BaseTable.ensureDecompiled(recurse=True) - the inductive step.
The node decodes itself (its reader is consumed exactly once, before its children are looked
at) and passes recurse=True on to EVERY child table, direct or inside a list; with each child
obeying the same contract the whole tree is decoded.  (Callers such as reorderGlyphs and the
subsetter rely on this before they change the glyph order.)"""
from pyvc.core import Contract, contract, prop, internal
from pyvc.spec import And, Or, Not, Implies, Ite, eq

SHAPES = {
    "leaf": ([], []),
    "one-child": (["A"], []),
    "list-of-3": ([], [("L", 3)]),
    "mixed": (["A", "B"], [("L", 2), ("M", 1)]),
    "with-none-and-non-table": (["A", None], [("L", 2)]),
}


@contract
class EnsureDecompiledStep(Contract):
    module = "fontTools.ttLib.tables.otBase"
    qualname = "BaseTable.ensureDecompiled"
    props = ("C17", "C07", "C01")
    shadow_mode = "real"
    variants = tuple((s, lazy) for s in SHAPES for lazy in (True, False))
    level = "PF"

    def args(self, S, variant):
        from fontTools.ttLib.tables.otBase import BaseTable
        shape, lazy = variant
        singles, lists = SHAPES[shape]
        log = []

        class Child(BaseTable):
            def __init__(self, tag):
                self.tag = tag

            def ensureDecompiled(self, recurse=False):
                log.append(("child", self.tag, recurse))

        names = ["S%d" % i for i in range(len(singles))] + [n for n, _ in lists] + ["count"]

        class Node(BaseTable):
            def getConverters(self):
                return [type("Conv", (), {"name": n})() for n in names]

            def decompile(self, reader, font):
                log.append(("decompile", reader, font))
                self._populate()

            def _populate(self):
                for i, s in enumerate(singles):
                    setattr(self, "S%d" % i, None if s is None else Child(s))
                for n, k in lists:
                    setattr(self, n, [Child("%s[%d]" % (n, j)) if j != 1 or shape != "with-none-and-non-table" else 7 for j in range(k)])
                self.count = 3           # a plain value among the converters

        node = Node()
        if lazy:
            node.reader, node.font = "READER", "FONT"
        else:
            node._populate()
        return dict(self=node, recurse=True, _log=log, _lazy=lazy, _shape=shape)

    @staticmethod
    def _children(node):
        from fontTools.ttLib.tables.otBase import BaseTable
        out = []
        for k, v in node.__dict__.items():
            if isinstance(v, BaseTable):
                out.append(v.tag)
            elif isinstance(v, list):
                out += [x.tag for x in v if isinstance(x, BaseTable)]
        return out

    ensures = [
        prop("reader-consumed-exactly-once-before-children", lambda a, old, r: (
            "reader" not in a.self.__dict__ and "font" not in a.self.__dict__
            and [e for e in a._log if e[0] == "decompile"] == ([("decompile", "READER", "FONT")] if a._lazy else [])
            and (not a._lazy or a._log[0][0] == "decompile"))),
        prop("every-child-table-asked-to-decompile-recursively", lambda a, old, r: (
            sorted(e[1] for e in a._log if e[0] == "child" and e[2] is True) == sorted(EnsureDecompiledStep._children(a.self))
            and all(e[2] is True for e in a._log if e[0] == "child"))),
    ]


@contract
class EnsureDecompiledNoRecurse(Contract):
    """recurse=False decodes the node only (children are left lazy: nothing is asked of them)."""
    module = "fontTools.ttLib.tables.otBase"
    qualname = "BaseTable.ensureDecompiled"
    props = ("C17",)
    shadow_mode = "real"
    variants = (("mixed", True),)
    level = "PF"
    args = EnsureDecompiledStep.args

    def call(self, f, a):
        return f(a.self, False)

    ensures = [internal("node-only", lambda a, old, r: "reader" not in a.self.__dict__ and [e[0] for e in a._log] == ["decompile"])]
