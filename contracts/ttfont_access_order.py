"""TTFont table access (C16): whatever the order in which tables are touched - and whether they are
touched at all - every table is decoded at most once (a second access returns the same object),
keys() lists the same tags in the same order (GlyphOrder, then the recommended physical order),
`in`, get() and isLoaded answer consistently, and a table that was replaced or deleted by the
user is never resurrected from the file.  Every access sequence of length <= 3 over three tags,
with an optional deletion / replacement in between; _readTable is a recorder."""
import itertools

from pyvc.core import Contract, contract, prop, internal


@contract
class TableAccessOrder(Contract):
    module = "fontTools.ttLib.ttFont"
    qualname = "TTFont.__getitem__"
    props = ("C16", "C01")
    shadow_mode = "real"
    variants = ("sequences",)
    level = "PF"
    assumptions = ("token-valued: the reader and _readTable are recorders",)

    def args(self, S, variant):
        return dict()

    def call(self, f, a):
        from fontTools.ttLib import TTFont
        tags = ("head", "zzzz", "glyf")
        ops = [("get", t) for t in tags] + [("del", "zzzz"), ("set", "head")]
        bad, count = [], 0
        for n in range(0, 4):
            for seq in itertools.product(ops, repeat=n):
                font = TTFont()
                decoded = []

                class _Reader(dict):
                    file = None
                font.reader = _Reader({t: b"raw-" + t.encode() for t in tags})

                def _readTable(tag, font=font):
                    font.reader[tag]                   # as the real one: KeyError for a table the file does not (any longer) have
                    decoded.append(tag)
                    obj = ("table", tag, len(decoded))
                    font.tables[tag] = obj
                    return obj
                font._readTable = _readTable
                present, replaced, seen = set(tags), {}, {}
                ok = True
                for op, t in seq:
                    if op == "get":
                        if t not in present:
                            try:
                                f(font, t)
                                ok = False
                            except KeyError:
                                pass
                            continue
                        obj = f(font, t)
                        if t in replaced:
                            ok = ok and obj is replaced[t]
                        else:
                            ok = ok and obj == seen.setdefault(t, obj) and obj[1] == t
                    elif op == "del":
                        if t in present:
                            del font[t]
                            present.discard(t)
                        else:
                            try:
                                del font[t]
                                ok = False
                            except KeyError:
                                pass
                    else:
                        replaced[t] = ("user-table", t, len(replaced))
                        font[t] = replaced[t]
                        present.add(t)
                    ok = ok and all((x in font) == (x in present) for x in tags)
                want_keys = ["GlyphOrder"] + [t for t in ("head", "glyf", "zzzz") if t in present]
                ok = ok and font.keys() == want_keys and len(decoded) == len(set(decoded))
                ok = ok and all(d not in replaced or decoded.index(d) >= 0 for d in decoded)
                ok = ok and font.get("zzzz", "absent") == ("absent" if "zzzz" not in present else font["zzzz"])
                count += 1
                if not ok:
                    bad.append((seq, decoded, font.keys()))
        return count, bad

    ensures = [prop("each-table-decoded-at-most-once-and-answers-do-not-depend-on-the-order", lambda a, old, r: r[0] > 100 and not r[1])]
