"""OnlineVarStoreBuilder (C09, C10): whatever sequence of setSupports / storeDeltas calls a
builder has seen, the variation index returned for a delta row addresses a row of the store
in which EVERY delta sits under the region it was given for (regions compared by their
peak/start/end coordinates through VarRegionList, as a reader resolves them)."""
import itertools

from pyvc.core import Contract, contract, prop, internal
from pyvc.spec import And, Or, Not, Implies, Ite, eq

_R = [
    {"wght": (0, 1.0, 1.0)},
    {"wght": (0, 0.5, 1.0)},
    {"wdth": (0, 1.0, 1.0)},
    {"wght": (0, 1.0, 1.0), "wdth": (0, 1.0, 1.0)},
]
AXES = ["wght", "wdth"]

# histories: a list of (region index tuple) per setSupports call; one row is stored after each
HISTORIES = {
    "same-regions-twice": [(0, 1), (0, 1)],
    "permuted-2": [(0, 1), (1, 0)],
    "permuted-3": [(0, 1, 2), (2, 0, 1)],
    "permuted-then-original": [(0, 2), (2, 0), (0, 2)],
    "subset-then-superset": [(0,), (0, 1), (1, 0, 3)],
    "disjoint": [(0, 1), (2, 3)],
    "reversed-4": [(0, 1, 2, 3), (3, 2, 1, 0)],
}


def _region_coords(store, ridx):
    reg = store.VarRegionList.Region[ridx]
    return tuple((ax.StartCoord, ax.PeakCoord, ax.EndCoord) for ax in reg.VarRegionAxis)


def _support_coords(sup):
    return tuple(tuple(sup.get(t, (0, 0, 0))) for t in AXES)


@contract
class VarStoreBuilderHistory(Contract):
    module = "fontTools.varLib.varStore"
    qualname = "OnlineVarStoreBuilder.storeDeltas"
    props = ("C09", "C10")
    shadow_mode = "real"
    variants = tuple(HISTORIES)
    level = "PF"

    def args(self, S, variant):
        hist = HISTORIES[variant]
        rows = [[S.int("d%d_%d" % (i, k)) for k in range(len(regs))] for i, regs in enumerate(hist)]
        return dict(_hist=hist, _rows=rows)

    def requires(self, a):
        return And(*[And(v >= -32768, v <= 32767) for row in a._rows for v in row])

    def call(self, f, a):
        from fontTools.misc.roundTools import noRound
        b = self.mod.OnlineVarStoreBuilder(list(AXES))
        idxs = []
        for regs, row in zip(a._hist, a._rows):
            b.setSupports([dict(_R[r]) for r in regs])
            idxs.append(f(b, list(row), round=noRound))
        # the store is read as built; finish() (counts, NumShorts, column reordering by width) is not
        # part of this contract: bit_length() of a symbolic delta is outside the verifier
        return b._store, idxs

    @staticmethod
    def _rows_ok(a, r):
        store, idxs = r
        out = []
        for regs, row, idx in zip(a._hist, a._rows, idxs):
            outer, inner = idx >> 16, idx & 0xFFFF
            vd = store.VarData[outer]
            item = vd.Item[inner]
            out.append(len(item) == len(vd.VarRegionIndex) == len(regs))
            # as a reader sees it: (region coordinates, delta) pairs of the addressed row
            for k, rk in enumerate(regs):
                want = _support_coords(_R[rk])
                hits = [j for j, ri in enumerate(vd.VarRegionIndex) if _region_coords(store, ri) == want]
                out.append(len(hits) == 1)
                if len(hits) == 1:
                    out.append(eq(item[hits[0]], row[k]))
        return And(*out)

    ensures = [
        prop("every-delta-is-stored-under-its-own-region", lambda a, old, r: VarStoreBuilderHistory._rows_ok(a, r)),
    ]
