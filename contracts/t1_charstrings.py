"""Type 1 charstring encryption around eexec (C15): T1Font.parse strips, and T1Font.encode_eexec
prepends, exactly lenIV bytes - the value declared in the Private dictionary, 4 when it is not
declared, and 0 when it is declared as 0 - for glyph programs AND subroutines, wherever 'lenIV'
stands in the dictionary.  eexec.decrypt / encrypt are used through a stub that tags what it was
given (their own round trip is EexecStringRoundTrip)."""
from pyvc.core import Contract, contract, prop, internal

LENIVS = (None, 0, 1, 4, 6)


class _CS:
    """what psCharStrings.T1CharString is given"""

    def __init__(self, bytecode=None, subrs=None):
        self.bytecode, self.subrs = bytecode, subrs

    def compile(self):
        pass


@contract
class T1ParseStripsLenIV(Contract):
    module = "fontTools.t1Lib"
    qualname = "T1Font.parse"
    props = ("C15",)
    shadow_mode = "real"
    variants = LENIVS
    level = "PF"
    assumptions = ("psLib.suckfont, eexec.decrypt and psCharStrings.T1CharString are replaced by recorders",)

    def setup(self):
        from fontTools.misc import psLib, psCharStrings
        from fontTools.misc import eexec
        self._saved = (psLib.suckfont, psCharStrings.T1CharString, eexec.decrypt)

    def teardown(self):
        from fontTools.misc import psLib, psCharStrings
        from fontTools.misc import eexec
        psLib.suckfont, psCharStrings.T1CharString, eexec.decrypt = self._saved

    def args(self, S, variant):
        return dict(_lenIV=variant)

    def call(self, f, a):
        from fontTools.misc import psLib, psCharStrings, eexec
        from fontTools.t1Lib import T1Font
        private = {"Subrs": [b"S0-encrypted", b"S1-encrypted"]}
        if a._lenIV is not None:
            private["lenIV"] = a._lenIV
        font = {"CharStrings": {"a": b"A-encrypted", "b": b"B-encrypted"}, "Private": private}
        psLib.suckfont = lambda data, encoding: font
        psCharStrings.T1CharString = _CS
        eexec.decrypt = lambda cipher, R: (b"0123456789" + cipher.replace(b"-encrypted", b"-plain"), R + 1) if R == 4330 else (b"wrong key", 0)
        t = T1Font.__new__(T1Font)
        t.data, t.encoding = b"data", "ascii"
        f(t)
        return font, hasattr(t, "data")

    @staticmethod
    def _post(a, r):
        font, has_data = r
        n = 4 if a._lenIV is None else a._lenIV
        want = lambda tag: (b"0123456789" + tag + b"-plain")[n:]
        cs, subrs = font["CharStrings"], font["Private"]["Subrs"]
        return (not has_data and cs["a"].bytecode == want(b"A") and cs["b"].bytecode == want(b"B")
                and [s.bytecode for s in subrs] == [want(b"S0"), want(b"S1")]
                and all(x.subrs is subrs for x in list(cs.values()) + list(subrs)))

    ensures = [prop("exactly-lenIV-bytes-stripped-from-glyphs-and-subroutines", lambda a, old, r: T1ParseStripsLenIV._post(a, r))]


@contract
class T1EncodePrependsLenIV(Contract):
    """encode_eexec: what is handed to eexec.encrypt for every glyph and every subroutine is
    lenIV filler bytes followed by the compiled program; 'lenIV' before or after 'Subrs'."""
    module = "fontTools.t1Lib"
    qualname = "T1Font.encode_eexec"
    props = ("C15",)
    shadow_mode = "real"
    variants = tuple((n, order) for n in LENIVS for order in ("lenIV-first", "lenIV-last") if not (n is None and order == "lenIV-last"))
    level = "PF"
    assumptions = ("eexec.encrypt is replaced by a recorder",)

    def setup(self):
        from fontTools.misc import eexec
        self._saved = eexec.encrypt

    def teardown(self):
        from fontTools.misc import eexec
        eexec.encrypt = self._saved

    def args(self, S, variant):
        return dict(_lenIV=variant[0], _order=variant[1])

    def call(self, f, a):
        from fontTools.misc import eexec
        from fontTools.t1Lib import T1Font
        seen = []

        def encrypt(plain, R):
            seen.append((bytes(plain), R))
            return b"<" + bytes(plain) + b">", R
        eexec.encrypt = encrypt
        subrs = [_CS(b"SUBR0"), _CS(b"SUBR1")]
        private = {"-|": [], "|-": [], "|": []}
        from fontTools import t1Lib
        private["-|"], private["|-"], private["|"] = t1Lib.RD_value, t1Lib.ND_values[0], t1Lib.PD_values[0]
        if a._lenIV is not None and a._order == "lenIV-first":
            private["lenIV"] = a._lenIV
        private["Subrs"] = subrs
        if a._lenIV is not None and a._order == "lenIV-last":
            private["lenIV"] = a._lenIV
        d = {"CharStrings": {"a": _CS(b"GLYPH-A"), "b": _CS(b"GLYPH-B")}, "Private": private}
        t = T1Font.__new__(T1Font)
        t.encoding = "ascii"
        f(t, d)
        return seen

    @staticmethod
    def _post(a, r):
        n = 4 if a._lenIV is None else a._lenIV
        # charstring encryption uses key 4330; the enclosing eexec block (key 55665) is encrypted once, last
        inner = [p for p, R in r if R == 4330]
        outer = [p for p, R in r if R != 4330]
        return (sorted(p[n:] for p in inner) == [b"GLYPH-A", b"GLYPH-B", b"SUBR0", b"SUBR1"] and all(len(p) >= n for p in inner)
                and len(outer) == 1 and r[-1][1] == 55665)

    ensures = [prop("exactly-lenIV-filler-bytes-before-every-program", lambda a, old, r: T1EncodePrependsLenIV._post(a, r))]
