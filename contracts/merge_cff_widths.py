"""CFF merge (C18): glyphs of the second and later inputs come under the FIRST input's Private
dictionary; their charstrings are rewritten so that each glyph keeps its advance width (explicit
width operand relative to nominalWidthX, or defaultWidthX when there is none) and its outline
operands - for every combination of the four dictionary values and every width."""
from pyvc.core import Contract, contract, prop, internal
from pyvc.models import std
from pyvc.spec import And, Or, Not, Implies, Ite, eq


class _Private:
    def __init__(self, d, n):
        self.defaultWidthX, self.nominalWidthX = d, n


class _Strings:
    def __init__(self, names):
        self.strings = list(names)


class _CharStrings:
    charStringsAreIndexed = False

    def __init__(self, d):
        self.charStrings = dict(d)

    def __len__(self):
        return len(self.charStrings)

    def __getitem__(self, k):
        return self.charStrings[k]

    def __setitem__(self, k, v):
        self.charStrings[k] = v


class _Font:
    def __init__(self, private, glyphs):
        self.Private = private
        self.charset = list(glyphs)
        self.strings = _Strings(glyphs)
        self.CharStrings = _CharStrings(glyphs)

    def getGlyphOrder(self):
        return list(self.charset)


class _CFF:
    GlobalSubrs = []

    def __init__(self, font):
        self.font = font

    def __getitem__(self, i):
        assert i == 0
        return self.font

    def desubroutinize(self):
        pass


class _Table:
    def __init__(self, font):
        self.cff = _CFF(font)


# how the later input's glyphs spell their width: (has width operand, first operator, operand count without the width)
SPELLINGS = {"explicit-rmoveto": (True, "rmoveto", 2), "implicit-rmoveto": (False, "rmoveto", 2),
             "explicit-hmoveto": (True, "hmoveto", 1), "implicit-endchar": (False, "endchar", 0),
             "explicit-endchar": (True, "endchar", 0), "explicit-hstem": (True, "hstem", 2)}


@contract
class MergeCFFKeepsWidths(Contract):
    module = "fontTools.ttLib.tables.C_F_F_"
    qualname = "table_C_F_F_.merge"           # installed by fontTools.merge.tables' @add_method
    imports = ("fontTools.merge.tables",)
    props = ("C18",)
    shadow_mode = "real"
    variants = tuple(SPELLINGS)
    level = "PF"
    assumptions = ("the CFF object graph around the charstrings (strings, charset, INDEX bookkeeping) is a minimal stand-in; "
                   "T2WidthExtractor is the real one, run on integer proxies",)

    def args(self, S, variant):
        from fontTools.misc.psCharStrings import T2CharString
        has_w, op, nargs = SPELLINGS[variant]
        old = _Private(S.int("oldDefault", 0, 2000), S.int("oldNominal", 0, 2000))
        new = _Private(S.int("newDefault", 0, 2000), S.int("newNominal", 0, 2000))
        w = S.int("w", -2000, 2000)
        operands = [S.int("arg%d" % i, -500, 500) for i in range(nargs)]
        prog = ([w] if has_w else []) + operands + [op] + ([] if op == "endchar" else ([5, 6, "rmoveto"] if op == "hstem" else []) + [7, 8, "rlineto", "endchar"])
        cs = T2CharString(program=list(prog))
        first = _Font(new, {".notdef": T2CharString(program=["endchar"])})
        later = _Font(old, {"g": cs})
        return dict(self=None, m=None, tables=[_Table(first), _Table(later)], _old=old, _new=new, _w=w, _has=has_w,
                    _rest=list(prog[1:] if has_w else prog), _cs=cs)

    def call(self, f, a):
        f(a.tables[0], a.m, a.tables)
        return a.tables[0].cff[0]

    @staticmethod
    def _post(a, r):
        p = a._cs.program
        width_before = (a._old.nominalWidthX + a._w) if a._has else a._old.defaultWidthX
        n = len(a._rest)
        if r.CharStrings["g"] is not a._cs or r.Private is not a._new or len(p) not in (n, n + 1):
            return False
        rest = p[len(p) - n:]
        same_rest = And(*[(x == y) if isinstance(y, str) or isinstance(x, str) else eq(x, y) for x, y in zip(rest, a._rest)])
        width_after = (a._new.nominalWidthX + p[0]) if len(p) == n + 1 else a._new.defaultWidthX
        return And(same_rest, eq(width_after, width_before), r.charset == [".notdef", "g"])

    ensures = [prop("every-glyph-keeps-its-width-and-outline-under-the-first-private-dict", lambda a, old, r: MergeCFFKeepsWidths._post(a, r))]
