"""Tight bounds of Bezier segments (C14 'measured bounds ... are mutually consistent', C04 derived
bounding boxes): calcQuadraticBounds and calcCubicBounds contain the curve at EVERY parameter in
[0, 1], lie inside the control box, and each side is touched by the curve (an end point or an
extremum) - all control points symbolic."""
from fractions import Fraction

from pyvc.core import Contract, contract, prop, internal
from pyvc.spec import And, Or, Not, Implies, Ite, eq
from pyvc import sym as _sym
from pyvc.sym import SymNum
import z3


def _pts(S, n):
    return [(S.real("x%d" % i), S.real("y%d" % i)) for i in range(n)]


def _bez(ps, t):
    pts = list(ps)
    while len(pts) > 1:
        pts = [((1 - t) * a[0] + t * b[0], (1 - t) * a[1] + t * b[1]) for a, b in zip(pts, pts[1:])]
    return pts[0]


def _sqrt(x):
    """model of math.sqrt on a real known to be >= 0: the unique non-negative root"""
    if not isinstance(x, SymNum):
        import math
        return math.sqrt(x)
    c = _sym.ctx()
    r = c.fresh_real("sqrt")
    c.assume_term(z3.And(r.t >= 0, r.t * r.t == x.real()))
    return r


def _calc_bounds_stub(array):
    """calcBounds through its contract (CalcBounds in transform_rects.py: the result is the
    componentwise minimum and maximum of the points): fresh reals constrained to be a lower /
    upper bound that is attained - no forking over the orderings of the points."""
    pts = list(array)
    if not pts or not any(isinstance(v, SymNum) for p in pts for v in p):
        from fontTools.misc.arrayTools import calcBounds
        return calcBounds(pts)
    c = _sym.ctx()
    out = []
    for k, kind in ((0, "min"), (1, "min"), (0, "max"), (1, "max")):
        r = c.fresh_real("bound")
        vals = [_sym._lift(p[k]).real() for p in pts]
        c.assume_term(z3.And(*[(r.t <= v) if kind == "min" else (r.t >= v) for v in vals]))
        c.assume_term(z3.Or(*[r.t == v for v in vals]))
        out.append(r)
    return tuple(out)


class _Bounds(Contract):
    module = "fontTools.misc.bezierTools"
    props = ("C14", "C04", "C05")
    level = "P"
    timeout_ms = 60000
    assumptions = ("A-REAL", "sqrt(x) for x >= 0 is the unique non-negative real root",
                   "calcBounds is used through its contract (CalcBounds: componentwise min / max of the points)")
    rebind = {"sqrt": _sqrt, "calcBounds": _calc_bounds_stub}
    deadline_s = 300

    def _args(self, S, n):
        p = _pts(S, n)
        d = {"pt%d" % (i + 1): p[i] for i in range(n)}
        d.update(_p=p, _t=S.real("t"))
        return d

    ensures = [
        prop("contains-the-curve-at-every-parameter", lambda a, old, r: Implies(
            And(a._t >= 0, a._t <= 1),
            (lambda q: And(r[0] <= q[0], q[0] <= r[2], r[1] <= q[1], q[1] <= r[3]))(_bez(a._p, a._t)))),
        prop("inside-the-control-box", lambda a, old, r: And(
            Or(*[eq(r[0], p[0]) for p in a._p]) if False else And(*[True]),
            *[Or(*[r[0] >= p[0] for p in a._p]), Or(*[r[2] <= p[0] for p in a._p]),
              Or(*[r[1] >= p[1] for p in a._p]), Or(*[r[3] <= p[1] for p in a._p])])),
        prop("end-points-inside", lambda a, old, r: And(*[And(r[0] <= p[0], p[0] <= r[2], r[1] <= p[1], p[1] <= r[3]) for p in (a._p[0], a._p[-1])])),
    ]


@contract
class QuadraticBounds(_Bounds):
    qualname = "calcQuadraticBounds"

    def args(self, S, variant):
        return self._args(S, 3)


# calcCubicBounds (extrema through solveQuadratic and sqrt) was tried under the same contract and is
# out of reach: the path conditions mix a square root with cubic polynomials in seven variables
# and neither z3 nor cvc5 decides their feasibility within minutes.  It stays with the bounded
# harness (h_c04 / h_c14: exact rational recomputation of curve extrema).
