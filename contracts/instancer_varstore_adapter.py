"""_TupleVarStoreAdapter (C08): an ItemVariationStore seen as lists of TupleVariations and back.
fromItemVarStore -> asItemVarStore keeps, for every VarData and every item, the delta under each
region (regions compared by their axis supports), keeps the number of VarData and of items per
VarData (delta-set indices stay valid), lists every used region once and drops unused ones;
`instantiate` pads a VarData whose variations all vanished with zero default deltas."""
from pyvc.core import Contract, contract, prop, internal
from pyvc.models import std
from pyvc.spec import And, Or, Not, Implies, Ite, eq

SUPPORTS = ({"wght": (0.0, 1.0, 1.0)}, {"wdth": (-1.0, -1.0, 0.0)}, {"wght": (0.0, 0.5, 1.0), "wdth": (0.0, 1.0, 1.0)}, {"wght": (-1.0, -1.0, 0.0)})
# VarData layouts: region index lists (into SUPPORTS) and item counts
LAYOUTS = {
    "one-vardata": [((0, 2), 2)],
    "two-vardata-shared-region": [((0, 1), 2), ((2, 0), 1)],
    "unused-region-and-empty-vardata": [((1,), 2), ((), 3)],
    "repeated-region": [((0, 0, 2), 1)],
}


@contract
class TupleVarStoreAdapterRoundTrip(Contract):
    module = "fontTools.varLib.instancer"
    qualname = "_TupleVarStoreAdapter.asItemVarStore"
    props = ("C08", "C09")
    shadow_mode = "real"
    variants = tuple(LAYOUTS)
    level = "PF"
    assumptions = ("deltas are symbolic integers; regions are a fixed set of four supports",)

    def args(self, S, variant):
        from fontTools.varLib import builder
        from fontTools.ttLib.tables._f_v_a_r import Axis
        axes = []
        for t in ("wght", "wdth"):
            ax = Axis()
            ax.axisTag = t
            axes.append(ax)
        regionList = builder.buildVarRegionList(list(SUPPORTS), ["wght", "wdth"])
        datas, rows = [], []
        for k, (idx, count) in enumerate(LAYOUTS[variant]):
            items = [[S.int("d%d_%d_%d" % (k, i, j), -30000, 30000) for j in range(len(idx))] for i in range(count)]
            vd = builder.buildVarData(list(idx), [[0] * len(idx) for _ in range(count)], optimize=False)
            vd.Item = items
            datas.append(vd)
            rows.append(items)
        store = builder.buildVarStore(regionList, datas)
        return dict(store=store, axes=axes, _rows=rows, _layout=LAYOUTS[variant])

    def setup(self):
        from fontTools.ttLib.tables import otTables as ot
        self._saved = ot.VarData.calculateNumShorts
        ot.VarData.calculateNumShorts = lambda self, optimize=False: self      # column widths are varLib.builder's own business

    def teardown(self):
        from fontTools.ttLib.tables import otTables as ot
        ot.VarData.calculateNumShorts = self._saved

    def call(self, f, a):
        from fontTools.varLib.instancer import _TupleVarStoreAdapter
        ad = _TupleVarStoreAdapter.fromItemVarStore(a.store, a.axes)
        return f(ad), ad

    @staticmethod
    def _post(a, r):
        new, ad = r
        def support(region):
            return {k: v for k, v in region.get_support(a.axes).items()}
        regs = [support(reg) for reg in new.VarRegionList.Region]
        used = sorted({i for idx, _ in a._layout for i in idx})
        cs = [len(new.VarData) == len(a._layout), ad.itemCounts == [c for _, c in a._layout]]
        cs.append(sorted(map(repr, regs)) == sorted(repr(dict(SUPPORTS[i])) for i in used))
        for vd, (idx, count), rows in zip(new.VarData, a._layout, a._rows):
            if len(vd.Item) != count or vd.ItemCount != count:
                return False
            for i in range(count):
                # sum of the deltas per support (a region listed twice contributes twice)
                for s in {repr(dict(SUPPORTS[j])) for j in idx}:
                    want = sum((rows[i][c] for c, j in enumerate(idx) if repr(dict(SUPPORTS[j])) == s), 0)
                    got = sum((vd.Item[i][c] for c, ri in enumerate(vd.VarRegionIndex) if repr(regs[ri]) == s), 0)
                    cs.append(eq(got, want))
                cs.append(len(vd.Item[i]) == len(vd.VarRegionIndex))
            cs.append({repr(regs[ri]) for ri in vd.VarRegionIndex} == {repr(dict(SUPPORTS[j])) for j in idx})
        return And(*cs)

    ensures = [prop("every-item-keeps-its-delta-under-every-region", lambda a, old, r: TupleVarStoreAdapterRoundTrip._post(a, r))]
