"""Contracts on the TTFont glue that carries table bytes around (C01, C20, C16):
undecodable tables fall back to raw bytes, untouched tables are passed through by identity,
and a failing save never opens the destination."""
import struct

from pyvc.core import Contract, contract, prop, internal
from pyvc.blobs import Atom, Blob
from pyvc.spec import And, Or, Not, Implies, Ite, eq
from fontTools.ttLib import TTLibError

import os as _os
import tempfile as _tempfile

# Destination names: never opened for real while the obligations are explored (`open` is a recorder),
# but a native replay of a counter-model runs the real save() - it must not drop files into the cwd.
DEST_TTF = _os.path.join(_tempfile.gettempdir(), "pyvc-replay-dest.ttf")
DEST_TTC = _os.path.join(_tempfile.gettempdir(), "pyvc-replay-dest.ttc")


EXC_TYPES = (TTLibError, struct.error, AssertionError, ValueError, KeyError, IndexError, TypeError, AttributeError,
             NotImplementedError, ZeroDivisionError, OverflowError, EOFError, RuntimeError, LookupError,
             ArithmeticError, UnicodeError, OSError, StopIteration, MemoryError, Exception)


def _payload(S, name="data"):
    if S.concrete:
        return bytes(range(7))
    at = Atom(name)
    S.ctx.assume_term(at.n.t >= 0)
    return at.blob()


def _is(x, y):
    return x is y


@contract
class ReadTableFallback(Contract):
    """With ignoreDecompileErrors, WHATEVER exception type a table's decompile raises, the
    table object kept is a DefaultTable holding exactly the reader's bytes (the same object),
    with the traceback recorded; without it the exception propagates unchanged."""
    module = "fontTools.ttLib.ttFont"
    qualname = "TTFont._readTable"
    props = ("C20", "C01")
    shadow_mode = "function"
    variants = tuple((e.__name__, ign) for e in EXC_TYPES for ign in (True, False)) + (("none", True),)
    level = "PF"
    expect_exceptional_only = tuple((e.__name__, False) for e in EXC_TYPES)

    def rebind(self):
        outer = self

        def getTableClass(tag):
            exc = outer._exc

            class Boom:
                dependencies = []

                def __init__(self, tag=None):
                    self.tableTag = tag

                def decompile(self, data, font):
                    self.data_seen = data
                    if exc is not None:
                        raise exc("decompile failed")

            return Boom

        return {"getTableClass": getTableClass}

    def args(self, S, variant):
        name, ign = variant
        self._exc = None if name == "none" else [e for e in EXC_TYPES if e.__name__ == name][0]
        from fontTools.ttLib import TTFont

        font = TTFont()
        data = _payload(S)
        font.reader = {"zzzz": data}
        font.ignoreDecompileErrors = ign
        font._tableCache = None
        return dict(self=font, tag="zzzz", _data=data)

    def call(self, f, a):
        return f(a.self, a.tag)

    @property
    def raises(self):
        return {Exception: lambda a, self=self: (not a.self.ignoreDecompileErrors) and self._exc is not None}

    @staticmethod
    def _post(self, a, r):
        from fontTools.ttLib.tables.DefaultTable import DefaultTable

        if self._exc is None:
            return a.self.tables["zzzz"] is r and r.data_seen is a._data
        return (type(r) is DefaultTable and r.data is a._data and a.self.tables["zzzz"] is r
                and isinstance(getattr(r, "ERROR", None), str) and r.compile(a.self) is a._data)

    @property
    def ensures(self):
        return [prop("undecodable-table-kept-as-the-same-raw-bytes", lambda a, old, r, self=self: ReadTableFallback._post(self, a, r))]


@contract
class DefaultTableRoundTrip(Contract):
    module = "fontTools.ttLib.tables.DefaultTable"
    qualname = "DefaultTable.compile"
    props = ("C01", "C20", "C16")

    def args(self, S, variant):
        from fontTools.ttLib.tables.DefaultTable import DefaultTable

        t = DefaultTable("zzzz")
        data = _payload(S)
        t.decompile(data, None)
        return dict(self=t, ttFont=None, _data=data)

    def call(self, f, a):
        return f(a.self, a.ttFont)

    ensures = [
        prop("compile-of-decompile-is-the-same-bytes", lambda a, old, r: r is a._data),
        prop("compile-leaves-the-table-unchanged", lambda a, old, r: a.self.data is a._data and list(a.self.__dict__) == ["tableTag", "data"]),
    ]


class _RecWriter:
    def __init__(self):
        self.sets = []
        self.entries = []

    def __setitem__(self, tag, data):
        self.sets.append((tag, data))

    def __getitem__(self, tag):
        return ("entry", tag)

    def setEntry(self, tag, entry):
        self.entries.append((tag, entry))


@contract
class WriteTablePassThrough(Contract):
    """A table that was never loaded reaches the writer as exactly the object reader[tag]
    returned (no copy, no re-encoding); a loaded one as what its compile() returned."""
    module = "fontTools.ttLib.ttFont"
    qualname = "TTFont._writeTable"
    props = ("C01", "C16")
    shadow_mode = "function"
    also = ("TTFont.getTableData",)
    variants = ("unloaded", "loaded")
    level = "PF"

    def args(self, S, variant):
        from fontTools.ttLib import TTFont
        from fontTools.ttLib.tables.DefaultTable import DefaultTable

        font = TTFont()
        raw = _payload(S, "raw")
        font.reader = {"zzzz": raw}
        compiled = None
        if variant == "loaded":
            t = DefaultTable("zzzz")
            compiled = _payload(S, "compiled")
            t.data = compiled
            font.tables["zzzz"] = t
        w = _RecWriter()
        return dict(self=font, tag="zzzz", writer=w, done=[], _raw=raw, _compiled=compiled)

    def call(self, f, a):
        return f(a.self, a.tag, a.writer, a.done)

    ensures = [prop("writer-receives-the-same-object", lambda a, old, r: (
        len(a.writer.sets) == 1 and a.writer.sets[0][0] == "zzzz"
        and a.writer.sets[0][1] is (a._raw if a._compiled is None else a._compiled)
        and a.done == ["zzzz"] and (a._compiled is not None or "zzzz" not in a.self.tables)))]


class _Boom(Exception):
    pass


@contract
class SaveNeverOpensDestinationBeforeSuccess(Contract):
    """TTFont.save(path): the destination is opened (for writing) only after the whole font
    was compiled into memory and reordered; if any of that raises, no open() on the
    destination happened at all - an existing file stays untouched."""
    module = "fontTools.ttLib.ttFont"
    qualname = "TTFont.save"
    props = ("C20",)
    shadow_mode = "function"
    variants = tuple((where, rt) for where in ("ok", "compile-fails", "reorder-fails") for rt in (True, False, None))
    level = "PF"
    expect_exceptional_only = tuple((w, rt) for w in ("compile-fails", "reorder-fails") for rt in (True, False, None)
                                    if not (w == "reorder-fails" and rt is None))

    def rebind(self):
        outer = self

        class _F:
            def __init__(self, path, mode):
                self.path, self.mode = path, mode
                outer._log.append(("open", path, mode))

            def __enter__(self):
                return self

            def __exit__(self, *a):
                outer._log.append(("close", self.path))
                return False

            def write(self, data):
                outer._log.append(("write", self.path, data))

        def open_(path, mode="r", *a, **k):
            return _F(path, mode)

        def reorderFontTables(src, dst, tableOrder=None):
            outer._log.append(("reorder",))
            if outer._where == "reorder-fails":
                raise _Boom("reorder")
            dst.write(src.getvalue())

        return {"open": open_, "reorderFontTables": reorderFontTables}

    def args(self, S, variant):
        from fontTools.ttLib import TTFont

        self._where, rt = variant
        self._log = []
        font = TTFont()
        font.reader = {"a": 1} if rt is False else None     # reorderTables=False needs an original order
        outer = self

        def _save(file, tableCache=None):
            outer._log.append(("_save",))
            if outer._where == "compile-fails":
                raise _Boom("compile")
            file.write(b"FONTDATA")
            return False

        font._save = _save
        if font.reader is not None:
            class R(dict):
                pass
            font.reader = R(a=1)
        return dict(self=font, file=DEST_TTF, reorderTables=rt)

    def call(self, f, a):
        try:
            return f(a.self, a.file, a.reorderTables)
        finally:
            a._log = list(self._log)

    @property
    def raises(self):
        return {_Boom: lambda a, self=self: self._where != "ok" and not (self._where == "reorder-fails" and a.reorderTables is None)}

    @staticmethod
    def _opens(a):
        return [e for e in a._log if e[0] == "open"]

    ensures = [prop("destination-written-once-after-everything-succeeded", lambda a, old, r: (
        len(SaveNeverOpensDestinationBeforeSuccess._opens(a)) == 1
        and SaveNeverOpensDestinationBeforeSuccess._opens(a)[0][1:] == (DEST_TTF, "wb")
        and a._log.index(("_save",)) < a._log.index(("open", DEST_TTF, "wb"))
        and (("reorder",) not in a._log or a._log.index(("reorder",)) < a._log.index(("open", DEST_TTF, "wb")))
        and [e for e in a._log if e[0] == "write"] == [("write", DEST_TTF, b"FONTDATA")]))]


@contract
class SaveFailureLeavesDestinationUntouched(SaveNeverOpensDestinationBeforeSuccess):
    ensures = []

    @property
    def raises(self):
        return {_Boom: lambda a: len([e for e in a._log if e[0] == "open"]) == 0}


@contract
class WriteTableDependencyOrder(Contract):
    """_writeTable writes every table a table class declares as a dependency BEFORE the table
    itself (that is what lets hmtx/vmtx/glyf update hhea/vhea/maxp/loca/head before those are
    compiled), each table exactly once."""
    module = "fontTools.ttLib.ttFont"
    qualname = "TTFont._writeTable"
    props = ("C16", "C04")
    shadow_mode = "function"
    also = ("TTFont.getTableData",)
    variants = ("chain", "diamond", "missing-dependency")
    level = "PF"

    DEPS = {"chain": {"aaaa": ["bbbb"], "bbbb": ["cccc"], "cccc": []},
            "diamond": {"aaaa": ["bbbb", "cccc"], "bbbb": ["dddd"], "cccc": ["dddd"], "dddd": []},
            "missing-dependency": {"aaaa": ["zzzz", "bbbb"], "bbbb": []}}

    def rebind(self):
        outer = self

        def getTableClass(tag):
            class T:
                dependencies = outer._deps.get(tag, [])
            return T
        return {"getTableClass": getTableClass}

    def args(self, S, variant):
        from fontTools.ttLib import TTFont

        self._deps = self.DEPS[variant]
        font = TTFont()
        font.reader = {t: _payload(S, "raw_" + t) for t in self._deps}
        w = _RecWriter()
        return dict(self=font, tag="aaaa", writer=w, done=[], _deps=self._deps)

    def call(self, f, a):
        import types
        # the method recurses through self._writeTable: bind the function under verification
        a.self._writeTable = types.MethodType(f, a.self)
        return f(a.self, a.tag, a.writer, a.done)

    @staticmethod
    def _post(a):
        order = [t for t, d in a.writer.sets]
        if len(order) != len(set(order)) or set(order) != set(a._deps):
            return False
        return all(order.index(dep) < order.index(t) for t, deps in a._deps.items() for dep in deps if dep in a._deps)

    ensures = [prop("dependencies-first-each-table-once", lambda a, old, r: WriteTableDependencyOrder._post(a))]


# -- TTCollection.save: same discipline as TTFont.save ---------------------------------------------

@contract
class TTCSaveNeverOpensDestinationBeforeSuccess(Contract):
    """TTCollection.save(path) for 2 member fonts, TTC v1 / v2 with DSIG: the destination is
    opened (mode 'wb') exactly once, after every member and the DSIG have been compiled; if a
    member's _save or the DSIG compile raises, open() was never called on the destination."""
    module = "fontTools.ttLib.ttCollection"
    qualname = "TTCollection.save"
    props = ("C20",)
    shadow_mode = "function"
    variants = tuple((where, v2) for where in ("ok", "first-fails", "second-fails", "dsig-fails") for v2 in (False, True)
                     if not (where == "dsig-fails" and not v2))
    level = "PF"
    expect_exceptional_only = tuple(v for v in variants if v[0] != "ok")

    def rebind(self):
        outer = self

        class _F:
            def __init__(self, path, mode):
                self.path, self.mode = path, mode
                outer._log.append(("open", path, mode))

            def __enter__(self):
                return self

            def __exit__(self, *a):
                return False

            def write(self, data):
                outer._log.append(("write", self.path, len(data)))

            def close(self):
                pass

            def seek(self, *a):
                outer._log.append(("seek-on-destination",))

            def tell(self):
                return 0

        return {"open": lambda path, mode="r", *a, **k: _F(path, mode)}

    def args(self, S, variant):
        from fontTools.ttLib import TTCollection
        self._where, v2 = variant
        self._log = []
        outer = self

        class Member:
            recalcTimestamp = False

            def __init__(self, i):
                self.i = i

            def __contains__(self, tag):
                return False

            def _save(self, file, tableCache=None):
                outer._log.append(("_save", self.i))
                if outer._where == ("first-fails", "second-fails")[self.i:self.i + 1][0] if self.i < 2 else False:
                    raise _Boom("member %d" % self.i)
                file.write(b"MEMBER%d" % self.i)

        class Dsig:
            def compile(self, ttFont):
                outer._log.append(("dsig",))
                if outer._where == "dsig-fails":
                    raise _Boom("dsig")
                return b"DSIGDATA"

        ttc = TTCollection()
        ttc.fonts = [Member(0), Member(1)]
        if v2:
            ttc.dsig = Dsig()
        return dict(self=ttc, file=DEST_TTC)

    def call(self, f, a):
        try:
            return f(a.self, a.file)
        finally:
            a._log = list(self._log)

    @property
    def raises(self):
        return {_Boom: lambda a, self=self: self._where != "ok" and not [e for e in a._log if e[0] == "open"]}

    ensures = [prop("destination-opened-once-after-all-members-compiled", lambda a, old, r: (
        [e[:3] for e in a._log if e[0] == "open"] == [("open", DEST_TTC, "wb")]
        and all(a._log.index(e) < a._log.index(("open", DEST_TTC, "wb")) for e in a._log if e[0] in ("_save", "dsig"))
        and [e[1] for e in a._log if e[0] == "_save"] == [0, 1]
        and len([e for e in a._log if e[0] == "write"]) == 1
        and ("seek-on-destination",) not in a._log))]


# -- declared dependencies cover the cross-table writes of compile() -------------------------------------

class _WriteRecorder:
    """stands for a sibling table: records which attributes a compile() assigns"""

    def __init__(self, tag, log, **attrs):
        object.__setattr__(self, "_tag", tag)
        object.__setattr__(self, "_log", log)
        for k, v in attrs.items():
            object.__setattr__(self, k, v)

    def __setattr__(self, name, value):
        self._log.append((self._tag, name))
        object.__setattr__(self, name, value)


@contract
class DependenciesCoverCrossTableWrites(Contract):
    """_writeTable compiles the tables a class lists in `dependencies` before the table itself.
    That order is what makes derived header fields right: hmtx.compile writes
    hhea.numberOfHMetrics, vmtx.compile writes vhea.numberOfVMetrics, glyf.compile writes
    loca and maxp.numGlyphs.  Obligation: every table that a metrics / outline compile() WRITES
    TO declares the writer as one of its dependencies (so it cannot be written out first)."""
    module = "fontTools.ttLib.tables._h_m_t_x"
    qualname = "table__h_m_t_x.compile"
    props = ("C04", "C01", "C16")
    shadow_mode = "real"
    variants = ("hmtx", "vmtx", "glyf")
    level = "PF"

    def args(self, S, variant):
        from fontTools.ttLib import newTable
        from contracts._support import FakeFont
        log = []
        order = [".notdef", "A", "B"]
        font = FakeFont(order)
        font.recalcBBoxes = True
        font.cfg = type("Cfg", (dict,), {"__missing__": lambda self, k: False})()
        if variant in ("hmtx", "vmtx"):
            t = newTable(variant)
            t.metrics = {g: (500, 10) for g in order}
            hdr = "hhea" if variant == "hmtx" else "vhea"
            font.tables[hdr] = _WriteRecorder(hdr, log, numberOfHMetrics=9, numberOfVMetrics=9)
        else:
            from fontTools.ttLib.tables._g_l_y_f import Glyph
            t = newTable("glyf")
            t.glyphs = {g: Glyph() for g in order}
            t.glyphOrder = order
            t.padding = 2
            font.tables["loca"] = _WriteRecorder("loca", log)
            object.__setattr__(font.tables["loca"], "set", lambda locations: log.append(("loca", "locations")))
            font.tables["maxp"] = _WriteRecorder("maxp", log, numGlyphs=0)
            font.tables["head"] = _WriteRecorder("head", log, indexToLocFormat=0)
        return dict(self=t, ttFont=font, _log=log, _variant=variant)

    def call(self, f, a):
        r = type(a.self).compile(a.self, a.ttFont)
        a._log = list(a._log)
        return r

    @staticmethod
    def _post(a):
        from fontTools.ttLib import getTableClass
        written = sorted({tag for tag, _ in a._log})
        if not written:
            return False          # the scenario is meant to write something (non-vacuity)
        return all(a._variant in getTableClass(tag).dependencies for tag in written)

    ensures = [prop("every-table-written-to-declares-the-writer-as-dependency", lambda a, old, r: DependenciesCoverCrossTableWrites._post(a))]


@contract
class ReadTableSharedCache(ReadTableFallback):
    """TTCollection members share a table cache keyed by (tag, data).  A table whose decompile
    fails under ignoreDecompileErrors must reach EVERY member as the raw DefaultTable: after the
    first member has read it, a second member sharing the cache gets a DefaultTable with the same
    bytes (never the half-decoded object), and the cache holds nothing else; when decompile
    succeeds both members get the one decoded object."""
    qualname = "TTFont._readTable"
    props = ("C20", "C01")
    variants = tuple((e.__name__, True) for e in EXC_TYPES) + (("none", True),)
    expect_exceptional_only = ()
    raises = {}

    def args(self, S, variant):
        d = ReadTableFallback.args(self, S, variant)
        from fontTools.ttLib import TTFont
        cache = {}
        d["self"]._tableCache = cache
        other = TTFont()
        other.reader = {"zzzz": d["_data"]}
        other.ignoreDecompileErrors = True
        other._tableCache = cache
        d["_other"], d["_cache"] = other, cache
        return d

    def call(self, f, a):
        first = f(a.self, a.tag)
        second = f(a._other, a.tag)
        return first, second

    @staticmethod
    def _shared(self, a, r):
        from fontTools.ttLib.tables.DefaultTable import DefaultTable
        first, second = r
        cached = list(a._cache.values())
        if self._exc is None:
            return first is second and cached == [first] and first.data_seen is a._data
        return (type(second) is DefaultTable and second.data is a._data and type(first) is DefaultTable
                and all(type(t) is DefaultTable for t in cached) and len(cached) == 1)

    @property
    def ensures(self):
        return [prop("every-member-gets-the-raw-fallback-table", lambda a, old, r, self=self: ReadTableSharedCache._shared(self, a, r))]
