"""Contracts on the charstring generaliser (C12) and the Type 2 outline extractor (C05, C12)
against the TN5177 spec function in contracts/t2spec.py - for every path operator and
every argument count (legal: equal to the spec; illegal: ValueError)."""
from pyvc.core import Contract, contract, prop, internal
from pyvc.spec import And, Or, Not, Implies, Ite, eq
from pyvc.models import std
from contracts import t2spec

QUICK_MAX, THOROUGH_MAX = 26, 50


def _same_commands(got, want):
    if len(got) != len(want):
        return False
    cs = []
    for (op1, a1), (op2, a2) in zip(got, want):
        if op1 != op2 or len(a1) != len(a2):
            return False
        cs += [eq(x, y) for x, y in zip(a1, a2)]
    return And(*cs)


@contract
class Generalizer(Contract):
    module = "fontTools.cffLib.specializer"
    qualname = "_GeneralizerDecombinerCommandsMap"
    props = ("C12",)
    level = "PF"
    variants = tuple((op, n) for op in t2spec.PATH_OPS for n in range(0, QUICK_MAX))
    assumptions = ("A-REAL: operands as reals",)

    def variants_for(self, tier):
        m = QUICK_MAX if tier == "quick" else THOROUGH_MAX
        return tuple((op, n) for op in t2spec.PATH_OPS for n in range(0, m))

    def args(self, S, variant):
        op, n = variant
        return dict(op=op, args=[S.real("a%d" % i) for i in range(n)])

    def call(self, f, a):
        return list(getattr(f, a.op)(list(a.args)))

    raises = {ValueError: lambda a: not t2spec.legal(a.op, len(a.args))}
    expect_exceptional_only = tuple((op, n) for op in t2spec.PATH_OPS for n in range(0, THOROUGH_MAX) if not t2spec.legal(op, n))
    ensures = [prop("equals-TN5177-semantics", lambda a, old, r: _same_commands(r, t2spec.t2_relative(a.op, a.args)))]


class _Pen:
    def __init__(self):
        self.value = []

    def moveTo(self, p):
        self.value.append(("moveTo", (p,)))

    def lineTo(self, p):
        self.value.append(("lineTo", (p,)))

    def curveTo(self, *pts):
        self.value.append(("curveTo", pts))

    def closePath(self):
        self.value.append(("closePath", ()))

    def endPath(self):
        self.value.append(("endPath", ()))


def _same_calls(got, want):
    if len(got) != len(want):
        return False
    cs = []
    for (n1, p1), (n2, p2) in zip(got, want):
        if n1 != n2 or len(p1) != len(p2):
            return False
        for a, b in zip(p1, p2):
            cs += [eq(a[0], b[0]), eq(a[1], b[1])]
    return And(*cs)


@contract
class T2Extractor(Contract):
    """op_<operator> on an operand stack of every legal size, from any current point, with or
    without a path already started: the pen receives exactly the absolute drawing calls
    TN5177 prescribes, and the current point ends where the spec says."""
    module = "fontTools.misc.psCharStrings"
    qualname = "T2OutlineExtractor"
    props = ("C05", "C12")
    level = "PF"
    shadow_mode = "module"
    assumptions = ("A-REAL: operands as reals",)
    OPS = t2spec.PATH_OPS + t2spec.FLEX_OPS
    variants = tuple((op, n, saw) for op in OPS for n in range(0, QUICK_MAX) if t2spec.legal(op, n) for saw in (0, 1))

    def variants_for(self, tier):
        m = QUICK_MAX if tier == "quick" else THOROUGH_MAX
        return tuple((op, n, saw) for op in self.OPS for n in range(0, m) if t2spec.legal(op, n) for saw in (0, 1))

    def args(self, S, variant):
        op, n, saw = variant
        pen = _Pen()
        ex = self.mod.T2OutlineExtractor(pen, [], [], 0, 0)
        ex.reset()
        ex.gotWidth = 1
        ex.currentPoint = (S.real("x0"), S.real("y0"))
        ex.sawMoveTo = saw
        ex.operandStack = [S.real("a%d" % i) for i in range(n)]
        return dict(ex=ex, op=op, pen=pen, stack=list(ex.operandStack), start=ex.currentPoint, saw=saw)

    def call(self, f, a):
        return getattr(a.ex, "op_" + a.op)(0)

    @staticmethod
    def _post(a):
        rel = t2spec.t2_relative(a.op, a.stack)
        want, end = t2spec.absolute_pen_calls(rel, a.start, a.saw)
        return And(_same_calls(a.pen.value, want), eq(a.ex.currentPoint[0], end[0]), eq(a.ex.currentPoint[1], end[1]),
                   len(a.ex.operandStack) == 0)

    ensures = [prop("pen-calls-equal-TN5177-semantics", lambda a, old, r: T2Extractor._post(a))]


# -- operand stack use across subroutine calls (C12: 'emitted programs respect the operand-stack limit') --

STACK_SHAPES = {
    # name: (top-level program builder over counts) - 'S<k>' = callsubr to local subr k, 'G<k>' = callgsubr
    "flat": ([5, "rlineto", 60, "rlineto"], {}, {}),
    "deep-in-local-subr": ([2, "rmoveto", "S0", "endchar"], {0: [60, "rlineto", "return"]}, {}),
    "deep-in-global-subr": ([2, "rmoveto", "G0"], {}, {0: [50, "rlineto", "return"]}),
    "args-on-stack-at-call": ([10, "S0", "rlineto"], {0: [45, "return"]}, {}),
    "nested": ([1, "S0"], {0: [3, "S1", "return"], 1: [52, "rrcurveto", "return"]}, {}),
    "subr-then-more-top-level": ([2, "rmoveto", "S0", 49, "rlineto"], {0: [7, "rlineto", "return"]}, {}),
}


def _stack_spec(top, subrs, gsubrs):
    """maximal operand-stack depth of the flattened execution (path operators clear the stack,
    a subroutine number is an operand until the call consumes it)"""
    depth, best = 0, 0

    def run(prog):
        nonlocal depth, best
        for t in prog:
            if isinstance(t, int):
                depth += t
                best = max(best, depth)
            elif t[0] in "SG" and t[1:].isdigit():
                depth += 1                      # the subroutine number
                best = max(best, depth)
                depth -= 1
                run((subrs if t[0] == "S" else gsubrs)[int(t[1:])])
            elif t == "return":
                pass
            else:
                depth = 0
    run(top)
    return best


@contract
class StackUseAcrossSubroutines(Contract):
    module = "fontTools.misc.psCharStrings"
    qualname = "T2StackUseExtractor.execute"
    props = ("C12",)
    shadow_mode = "real"
    variants = tuple(STACK_SHAPES)
    level = "PF"

    def args(self, S, variant):
        from fontTools.misc.psCharStrings import T2CharString, T2StackUseExtractor
        top, subrs, gsubrs = STACK_SHAPES[variant]
        k = 0

        def build(prog, table):
            nonlocal k
            out = []
            for t in prog:
                if isinstance(t, int):
                    for _ in range(t):
                        out.append(S.real("x%d" % k))
                        k += 1
                elif t[0] in "SG" and t[1:].isdigit():
                    n = len(subrs if t[0] == "S" else gsubrs)
                    bias = 107 if n < 1240 else 1131
                    out += [int(t[1:]) - bias, "callsubr" if t[0] == "S" else "callgsubr"]
                else:
                    out.append(t)
            cs = T2CharString()
            cs.program = out
            return cs
        ls = [build(subrs[i], subrs) for i in sorted(subrs)]
        gs = [build(gsubrs[i], gsubrs) for i in sorted(gsubrs)]
        ex = T2StackUseExtractor(ls, gs, private=None)
        return dict(self=ex, charString=build(top, None), _want=_stack_spec(top, subrs, gsubrs))

    ensures = [prop("maximum-depth-of-the-flattened-execution", lambda a, old, r: r == a._want)]


# -- renumbering subroutine calls after pruning the Subrs INDEXes (C12) -------------------------------

@contract
class SubsetSubroutineCalls(Contract):
    """_cs_subset_subroutines: after the unused subroutines are pruned, every callsubr /
    callgsubr operand refers - under the NEW bias of ITS OWN index - to the subroutine it
    referred to under the old bias of that index; the four biases are independent symbols
    (the local and global INDEXes are in different bias classes as soon as one has >= 1240
    entries and the other has not).  Everything else in the program is left alone."""
    module = "fontTools.cffLib.transforms"
    qualname = "_cs_subset_subroutines"
    props = ("C12", "C07")
    variants = ("local-global-local", "global-first", "no-calls", "call-name-as-first-item")
    level = "PF"
    rebind = staticmethod(lambda: std("int"))       # isinstance(x, int) accepts an integer proxy

    def args(self, S, variant):
        class _Idx:
            pass
        local, glob = _Idx(), _Idx()
        local._used, glob._used = [0, 3, 4, 9], [1, 2, 7]
        for tag, ix in (("l", local), ("g", glob)):
            ix._old_bias = S.int(tag + "_old_bias")
            ix._new_bias = S.int(tag + "_new_bias")
        ops = {"local-global-local": ["callsubr", "callgsubr", "callsubr"], "global-first": ["callgsubr", "callsubr"],
               "no-calls": [], "call-name-as-first-item": ["callsubr"]}[variant]
        prog, cells = [], []
        if variant == "call-name-as-first-item":
            prog.append("callsubr")          # no operand before it: must stay as it is (i starts at 1)
        for k, op in enumerate(ops):
            v = S.int("n%d" % k)
            prog += [S.int("arg%d" % k), "rmoveto" if k == 0 else "rlineto", v, op]
            cells.append((len(prog) - 2, v, local if op == "callsubr" else glob))
        prog += [S.int("tail"), "endchar"]

        class _CS:
            pass
        cs = _CS()
        cs.program = prog
        return dict(charstring=cs, subrs=local, gsubrs=glob, _cells=cells, _prog=list(prog))

    def requires(self, a):
        return And(*[Or(*[eq(v + ix._old_bias, u) for u in ix._used]) for _, v, ix in a._cells])

    @staticmethod
    def _post(a):
        p = a.charstring.program
        if len(p) != len(a._prog):
            return False
        cs, at = [], {pos: (v, ix) for pos, v, ix in a._cells}
        for i, (new, old) in enumerate(zip(p, a._prog)):
            if i in at:
                v, ix = at[i]
                where = new + ix._new_bias
                sel = -1
                for k, u in enumerate(ix._used):
                    sel = Ite(eq(where, k), u, sel)
                cs.append(eq(sel, v + ix._old_bias))
            elif isinstance(old, str):
                if new != old:
                    return False
            else:
                cs.append(eq(new, old))
        return And(*cs)

    ensures = [prop("calls-reach-the-same-subroutine-under-the-new-numbering", lambda a, old, r: SubsetSubroutineCalls._post(a))]
