"""_instantiateVHVAR (C08): in a CFF2 font the instance's advance of every glyph is its old advance
plus the rounded default delta of the glyph's OWN delta-set index (AdvWidthMap / AdvHeightMap entry,
or the glyph id when the table has no map), never below 0; side bearings stay; a glyf font's
metrics are not touched here (instantiateGvar set them from the phantom points); with every axis
pinned the table is dropped, otherwise the remapped maps keep pointing every glyph at the row it
had.  instantiateItemVariationStore and VarStore.optimize are used through stubs."""
from pyvc.core import Contract, contract, prop, internal
from pyvc.spec import And, Or, Not, Implies, Ite, eq


class _Ns:
    def __init__(self, **kw):
        self.__dict__.update(kw)


@contract
class InstantiateVHVAR(Contract):
    module = "fontTools.varLib.instancer"
    qualname = "_instantiateVHVAR"
    props = ("C08",)
    shadow_mode = "function"
    variants = tuple((table, flavour, mapped, full) for table in ("HVAR", "VVAR") for flavour in ("cff2", "glyf") for mapped in (False, True) for full in (False, True))
    level = "PF"
    assumptions = ("instantiateItemVariationStore is a stub returning free integer default deltas per delta-set index; VarStore.optimize is a stub "
                   "returning an arbitrary injective renumbering (its value preservation: bounded C09 harness)",)

    def rebind(self):
        return {"instantiateItemVariationStore": lambda store, axes, limits: self._deltas}

    def args(self, S, variant):
        import fontTools.varLib as varLib
        table, flavour, mapped, full = variant
        fields = varLib.HVAR_FIELDS if table == "HVAR" else varLib.VVAR_FIELDS
        names = ["a", "b", "c"]
        adv = {n: S.int("adv_" + n, 0, 5000) for n in names}
        sb = {n: S.int("sb_" + n, -500, 500) for n in names}
        # delta-set indices: the implicit mapping is the glyph id; the explicit one points elsewhere
        explicit = {"a": (1 << 16) + 2, "b": 5, "c": (1 << 16) + 2}
        self._deltas = {k: S.int("delta_%x" % k, -6000, 6000) for k in (0, 1, 2, 5, (1 << 16) + 2)}
        renumber = {(1 << 16) + 2: 7, 5: (2 << 16) + 1, 0: 0, 1: 1, 2: 2}
        store = _Ns(VarRegionList=_Ns(Region=[] if full else ["region"]))
        store.optimize = lambda use_NO_VARIATION_INDEX=True: dict(renumber)
        vh = _Ns(VarStore=store)
        for f in (fields.advMapping, fields.sb1, fields.sb2, fields.vOrigMapping):
            if f:
                setattr(vh, f, None)
        if mapped:
            setattr(vh, fields.advMapping, _Ns(mapping=dict(explicit)))
            setattr(vh, fields.sb1, _Ns(mapping={"a": 5, "b": 5, "c": 0}))

        class _Font(dict):
            def getGlyphID(self, name):
                return names.index(name)

            def getGlyphOrder(self):
                return list(names)
        font = _Font()
        font[table] = _Ns(table=vh)
        font["fvar"] = _Ns(axes=[_Ns(axisTag="wght"), _Ns(axisTag="wdth")])
        mtag = "hmtx" if table == "HVAR" else "vmtx"
        font[mtag] = _Ns(metrics={n: (adv[n], sb[n]) for n in names})
        if flavour == "glyf":
            font["glyf"] = object()
        limits = _Ns(pinnedLocation=lambda: ({"wght": 400, "wdth": 100} if full else {"wght": 400}))
        return dict(varfont=font, axisLimits=limits, tableFields=fields, _adv=adv, _sb=sb, _explicit=explicit, _renumber=renumber,
                    _names=names, _v=variant, _mtag=mtag, _vh=vh, _fields=fields, _deltas=self._deltas)

    def call(self, f, a):
        f(a.varfont, a.axisLimits, a.tableFields)
        return a.varfont

    @staticmethod
    def _post(a, r):
        table, flavour, mapped, full = a._v
        metrics = r[a._mtag].metrics
        cs = []
        for i, n in enumerate(a._names):
            want = a._adv[n]
            if flavour == "cff2":
                d = a._deltas[a._explicit[n] if mapped else i]
                want = Ite(a._adv[n] + d < 0, 0, a._adv[n] + d)
            cs += [eq(metrics[n][0], want), eq(metrics[n][1], a._sb[n])]
        cs.append((table in r) == (not full))
        if not full and mapped:
            m = getattr(a._vh, a._fields.advMapping).mapping
            cs.append(m == {n: a._renumber[a._explicit[n]] for n in a._names})
            cs.append(getattr(a._vh, a._fields.sb1).mapping == {"a": a._renumber[5], "b": a._renumber[5], "c": a._renumber[0]})
        return And(*cs)

    ensures = [prop("advance-plus-own-default-delta", lambda a, old, r: InstantiateVHVAR._post(a, r))]
