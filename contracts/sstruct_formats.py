"""sstruct.pack / sstruct.unpack for EVERY format constant that occurs in Lib/fontTools
(collected on every run by scanning module-level string constants that parse as sstruct
formats): for all byte strings d of the format's size, pack(fmt, unpack(fmt, d)) == d
(C15 'structured record packing'; the basis of the struct-only table codecs in C01/C02).
Formats with float fields ('f', 'd') are outside the verifier (IEEE encodings) and are left
to the native enumeration; pad bytes ('x') are compared as zero."""
import ast
import os

from pyvc.core import Contract, contract, prop, internal
from pyvc.models import std, SymBytes, fixed_tools
from pyvc import loader
from pyvc.spec import And, eq


def collect_formats():
    from fontTools.misc import sstruct

    root = os.path.join(loader.LIB, "fontTools")
    out = {}
    for dp, dn, fn in os.walk(root):
        for f in sorted(fn):
            if not f.endswith(".py"):
                continue
            path = os.path.join(dp, f)
            try:
                tree = ast.parse(open(path, encoding="utf-8").read())
            except SyntaxError:
                continue
            for node in tree.body:
                if (isinstance(node, ast.Assign) and isinstance(node.value, ast.Constant) and isinstance(node.value.value, str)
                        and ":" in node.value.value and "\n" in node.value.value and isinstance(node.targets[0], ast.Name)):
                    try:
                        fs, names, fixes = sstruct.getformat(node.value.value)
                    except Exception:
                        continue
                    rel = os.path.relpath(path, root)[:-3].replace(os.sep, ".")
                    out["%s.%s" % (rel, node.targets[0].id)] = node.value.value
    return out


_FORMATS = None


def formats():
    global _FORMATS
    if _FORMATS is None:
        loader.ensure_repo_on_path()
        _FORMATS = collect_formats()
    return _FORMATS


def _rebind():
    ft = fixed_tools()
    from pyvc.models import tobytes_, tostr_
    return std("struct", "bytes", "len", fl2fi=ft.floatToFixed, fi2fl=ft.fixedToFloat, tobytes=tobytes_, tostr=tostr_)


def _supported(fmt):
    from fontTools.misc import sstruct

    fs, names, fixes = sstruct.getformat(fmt)
    body = fs.lstrip("<>=!@")
    if not fs or fs[0] not in "<>!=":
        return False      # a fragment meant to be appended to a format that carries the byte-order prefix
    return not any(c in body for c in "fdp?")


@contract
class SstructRoundTrip(Contract):
    module = "fontTools.misc.sstruct"
    qualname = "unpack"
    props = ("C15", "C01", "C02")
    rebind = staticmethod(_rebind)
    level = "PF"
    assumptions = ("A-REAL for fixed-point fields: k / 2**n and x * 2**n are exact in binary64 for 32-bit k",)

    @property
    def variants(self):
        return tuple(sorted(k for k, v in formats().items() if _supported(v)))

    def variants_for(self, tier):
        return self.variants

    def args(self, S, variant):
        from fontTools.misc import sstruct

        fmt = formats()[variant]
        return dict(fmt=fmt, data=S.bytes("d", sstruct.calcsize(fmt)))

    def call(self, f, a):
        obj = f(a.fmt, a.data)
        return self.mod.pack(a.fmt, obj)

    @staticmethod
    def _post(a, r):
        from fontTools.misc import sstruct
        import struct as _s

        fs, names, fixes = sstruct.getformat(a.fmt)
        got = list(SymBytes.of(r).items)
        want = list(SymBytes.of(a.data).items)
        if len(got) != len(want):
            return False
        # positions of pad bytes: compared as written (zero), everything else byte for byte
        pads, pos = set(), 0
        import re
        for cnt, ch in re.findall(r"(\d*)([xcbBhHiIlLqQs])", fs.lstrip("<>=!@")):
            n = {"x": 1, "c": 1, "b": 1, "B": 1, "s": 1, "h": 2, "H": 2, "i": 4, "I": 4, "l": 4, "L": 4, "q": 8, "Q": 8}[ch]
            k = int(cnt) if cnt else 1
            if ch == "x":
                pads |= set(range(pos, pos + k))
            pos += n * k
        return And(*[eq(g, 0) if i in pads else eq(g, w) for i, (g, w) in enumerate(zip(got, want))])

    ensures = [prop("pack-of-unpack-is-identity", lambda a, old, r: SstructRoundTrip._post(a, r))]


NAMED_PAD_FORMATS = {
    "pad-in-the-middle": "\n > \n a: B\n ignored: x\n b: H\n",
    "two-pads-and-fixed": "\n > \n ver: 16.16F\n ignored: x\n ignored2: x\n n: H\n",
    "pad-last": "\n < \n a: h\n tail: x\n",
}


@contract
class SstructNamedPad(Contract):
    """Formats with NAMED pad bytes ('name: x', as in tfmLib), in both call orders on a fresh
    format cache: pack first then unpack, and unpack first then pack - the result must not
    depend on which was called first (the cache is shared), pads are written as zero and
    carry no field."""
    module = "fontTools.misc.sstruct"
    qualname = "pack"
    props = ("C15",)
    rebind = staticmethod(_rebind)
    variants = tuple((k, order) for k in NAMED_PAD_FORMATS for order in ("pack-first", "unpack-first"))
    level = "PF"

    def args(self, S, variant):
        from fontTools.misc import sstruct
        fmt = NAMED_PAD_FORMATS[variant[0]]
        return dict(fmt=fmt, data=S.bytes("d", {"pad-in-the-middle": 4, "two-pads-and-fixed": 8, "pad-last": 3}[variant[0]]), _order=variant[1])

    def call(self, f, a):
        self.mod._formatcache.clear()
        if a._order == "unpack-first":
            obj = self.mod.unpack(a.fmt, a.data)
            return f(a.fmt, obj), obj
        # pack something first (field values taken from the bytes by an independent reading)
        its = list(a.data.items) if hasattr(a.data, "items") else list(a.data)
        name = [k for k, v in NAMED_PAD_FORMATS.items() if v == a.fmt][0]
        first = {"pad-in-the-middle": lambda: {"a": its[0], "b": its[2] * 256 + its[3]},
                 "two-pads-and-fixed": lambda: {"ver": 1.5, "n": its[6] * 256 + its[7]},
                 "pad-last": lambda: {"a": 5}}[name]()
        f(a.fmt, first)
        obj = self.mod.unpack(a.fmt, a.data)
        return f(a.fmt, obj), obj

    ensures = [
        prop("pack-of-unpack-is-identity-with-zero-pads", lambda a, old, r: SstructRoundTrip._post(a, r[0])),
        prop("pads-are-not-fields", lambda a, old, r: not any(k.startswith(("ignored", "tail")) for k in r[1])),
    ]
