"""Glyph.remapComponentsFast (C07): in the raw data of a composite glyph every component's glyph
index g becomes map[g] - the map a recorder handing out free 16-bit values - and every other byte (flags, arguments of
either size, scale / x-y scale / 2x2 matrix, trailing instructions) stays; simple and empty glyphs
are not touched.  Two components: every argument size x transform kind (flags concrete per variant), glyph indices and all other bytes symbolic."""
from pyvc.core import Contract, contract, prop, internal
from pyvc.models import std, SymBytes
from pyvc.spec import And, Or, Not, Implies, Ite, eq


def _items(b):
    return list(b.items) if hasattr(b, "items") and not isinstance(b, dict) else list(b)


_ABSENT = object()


class _Map:
    """the glyph-id map as a recorder: each lookup returns a fresh 16-bit symbol (every component is looked up once)"""

    def __init__(self, S):
        self.S = S
        self.asked = []

    def __getitem__(self, g):
        v = self.S.int("mapped%d" % len(self.asked), 0, 0xFFFF)
        self.asked.append((g, v))
        return v


def _comp_size(bits):
    """bytes after the 4-byte (flags, glyphIndex) head, as a spec term; bits[k] = flag bit k"""
    args = Ite(bits[0], 4, 2)
    xf = Ite(bits[3], 2, Ite(bits[6], 4, Ite(bits[7], 8, 0)))
    return args + xf


KINDS = tuple(a | x for a in (0x0000, 0x0001) for x in (0x0000, 0x0008, 0x0040, 0x0080))     # argument size x transform kind
_VARIANTS = tuple(("composite", k0 | 0x0020 | 0x0204, KINDS[(i * 3 + 1) % 8]) for i, k0 in enumerate(KINDS)) + ("simple", "empty")


@contract
class RemapComponentsFast(Contract):
    module = "fontTools.ttLib.tables._g_l_y_f"
    qualname = "Glyph.remapComponentsFast"          # installed on Glyph by fontTools.subset's @_add_method
    imports = ("fontTools.subset",)
    props = ("C07", "C17")
    shadow_mode = "real"
    variants = _VARIANTS
    level = "PF"

    def setup(self):
        # the function's globals are fontTools.subset's: bind the byte-level models there for the run
        import fontTools.subset as sub
        models = std("struct", "int", "len", "bytearray", "bytes")
        self._saved = [(n, sub.__dict__.get(n, _ABSENT)) for n in models]
        for n, v in models.items():
            setattr(sub, n, v)

    def teardown(self):
        import fontTools.subset as sub
        for n, v in self._saved:
            if v is _ABSENT:
                sub.__dict__.pop(n, None)
            else:
                setattr(sub, n, v)

    def args(self, S, variant):
        from fontTools.ttLib.tables._g_l_y_f import Glyph
        g = Glyph.__new__(Glyph)
        m = _Map(S)
        if isinstance(variant, tuple):
            flags = variant[1:]
            variant = "composite-two-components"
        if variant == "empty":
            g.data = b""
            return dict(self=g, glyphidmap=m, _data=b"", _variant=variant, _parts=None)
        if variant == "simple":
            data = S.bytes("d", 14)
            return dict(self=g, glyphidmap=m, _data=data, _variant=variant, _parts=None)
        head = [0xFF, 0xFF] + [S.byte("h%d" % i) for i in range(8)]
        parts = []
        for c in range(2):
            w = flags[c]
            bits = [bool(w >> k & 1) for k in range(16)]
            gid = (S.byte("gid%d_hi" % c), S.byte("gid%d_lo" % c))
            tail = [S.byte("c%d_t%d" % (c, i)) for i in range(12)]        # 4 (args) + 8 (matrix) at most
            parts.append(((w >> 8, w & 0xFF), bits, gid, tail))
        return dict(self=g, glyphidmap=m, _head=head, _parts=parts, _variant=variant, _trail=[S.byte("instr%d" % i) for i in range(3)], _data=None)

    def requires(self, a):
        if a._parts is None:
            if a._variant == "simple":
                d = _items(a._data)
                return d[0] < 128                                    # numberOfContours >= 0
            return True
        return True

    def call(self, f, a):
        if a._parts is not None:
            data = list(a._head)
            layout = []
            for w, bits, gid, tail in a._parts:
                n_args = 4 if bool(bits[0]) else 2
                n_xf = 2 if bool(bits[3]) else 4 if bool(bits[6]) else 8 if bool(bits[7]) else 0
                start = len(data)
                data += [w[0], w[1], gid[0], gid[1]] + tail[:n_args + n_xf]
                layout.append((start, n_args + n_xf))
            data += a._trail
            a.self.data = SymBytes(data)
            a._layout, a._bytes = layout, data
        else:
            a.self.data = a._data
        f(a.self, a.glyphidmap)
        return a.self.data

    @staticmethod
    def _post(a, r):
        if a._parts is None:
            return r is a._data or (len(_items(r)) == len(_items(a._data)) and And(*[eq(x, y) for x, y in zip(_items(r), _items(a._data))]))
        got, old = _items(r), a._bytes
        if len(got) != len(old):
            return False
        gid_pos = {}
        for (start, _), (w, bits, gid, tail) in zip(a._layout, a._parts):
            gid_pos[start + 2] = gid
        cs = []
        for i, (x, y) in enumerate(zip(got, old)):
            if i in gid_pos:
                k = sorted(gid_pos).index(i)
                if k >= len(a.glyphidmap.asked):
                    return False
                asked, new = a.glyphidmap.asked[k]
                cs += [eq(asked, gid_pos[i][0] * 256 + gid_pos[i][1]), eq(x * 256 + got[i + 1], new)]
            elif (i - 1) in gid_pos:
                continue
            else:
                cs.append(eq(x, y))
        return And(*cs)

    ensures = [prop("component-glyph-indices-mapped-everything-else-untouched", lambda a, old, r: RemapComponentsFast._post(a, r))]
