"""gvar table arithmetic (C02, C01): the glyph-variation offset array and the per-glyph data header.
Short offsets are stored halved, so every glyph's data must have even length - compileGlyph_ pads
it - and compileOffsets_ / decompileOffsets_ are inverse on such offsets, choosing the short format
exactly when the last offset fits."""
from pyvc.blobs import Atom, Blob
from pyvc.core import Contract, contract, prop, internal
from pyvc.models import std, SymBytes
from pyvc.spec import And, Or, Not, Implies, Ite, eq


def _items(b):
    return list(b.items) if isinstance(b, SymBytes) else list(b)


@contract
class GvarOffsetsRoundTrip(Contract):
    """compileOffsets_ then decompileOffsets_ for 2..4 ascending EVEN offsets anywhere below 2**32:
    the same offsets come back; short format (flag 0, two bytes per entry, stored halved) exactly
    when the largest offset is at most 0x1FFFE, else four bytes per entry."""
    module = "fontTools.ttLib.tables._g_v_a_r"
    qualname = "table__g_v_a_r.decompileOffsets_"
    props = ("C02", "C01")
    rebind = staticmethod(lambda: std("struct", "len", "bytes", "array", "int"))
    variants = (2, 3, 4)
    level = "PF"

    def args(self, S, variant):
        half = [S.int("half%d" % i, 0, 2 ** 31 - 1) for i in range(variant)]
        return dict(_offsets=[h * 2 for h in half], _half=half, _n=variant)

    def requires(self, a):
        return And(*[x <= y for x, y in zip(a._half, a._half[1:])])

    def call(self, f, a):
        cls = self.mod.table__g_v_a_r
        data, fmt = cls.compileOffsets_(list(a._offsets))
        return data, fmt, f(data, fmt, a._n - 1)

    ensures = [prop("offsets-come-back-and-format-is-minimal", lambda a, old, r: And(
        eq(r[1], Ite(a._offsets[-1] <= 0xFFFF * 2, 0, 1)),
        eq(len(_items(r[0])), a._n * Ite(a._offsets[-1] <= 0xFFFF * 2, 2, 4)),
        len(r[2]) == a._n, *[eq(x, y) for x, y in zip(r[2], a._offsets)]))]


class _TV:
    """tv.compileTupleVariationStore through its result shape: (count, tuple headers, serialized data)"""

    def __init__(self, count, tuples, data):
        self.ret = (count, tuples, data)

    def compileTupleVariationStore(self, variations, pointCount, axisTags, sharedCoordIndices, optimizeSize=True):
        return self.ret


@contract
class GvarCompileGlyphLayout(Contract):
    """compileGlyph_: count (2 bytes), offset to the serialized data (2 or 3 bytes) = header size
    plus the length of the tuple headers, the tuple headers, the data, and one zero byte exactly
    when that makes the length even - for tuple headers and data of EVERY length; nothing at all
    when there is no tuple variation."""
    module = "fontTools.ttLib.tables._g_v_a_r"
    qualname = "compileGlyph_"
    props = ("C02", "C01")
    variants = tuple((size, count) for size in (2, 3) for count in (0, 1, 0x8003))
    level = "P"

    def rebind(self):
        self._tv = _TV(0, b"", b"")
        return dict(std("len", "bytes", __join__=True), tv=self._tv)

    def args(self, S, variant):
        size, count = variant
        t, d = Atom("tuples"), Atom("data")
        for at in (t, d):
            S.ctx.symbols[at.name + ".len"] = at.n.t
        self._tv.ret = (count, t.blob(), d.blob())
        return dict(dataOffsetSize=size, variations=["v"], pointCount=0, axisTags=["wght"], sharedCoordIndices={}, _t=t, _d=d, _v=variant)

    def requires(self, a):
        return And(a._t.n >= 0, a._d.n >= 0, 2 + a._v[0] + a._t.n < 256 ** a._v[0])

    @staticmethod
    def _post(a, r):
        size, count = a._v
        if count == 0:
            return len(r) == 0 if isinstance(r, bytes) else eq(Blob.of(r).__symlen__(), 0)
        b = Blob.of(r)
        head = b.materialize_prefix(2 + size)
        items = head.items if hasattr(head, "items") else list(head)
        off = 0
        for x in items[2:2 + size]:
            off = off * 256 + x
        total = 2 + size + a._t.n + a._d.n
        padded = Ite(eq(total % 2, 0), total, total + 1)
        return And(eq(items[0] * 256 + items[1], count), eq(off, 2 + size + a._t.n), eq(b.__symlen__(), padded))

    ensures = [prop("header-offset-and-even-length", lambda a, old, r: GvarCompileGlyphLayout._post(a, r))]
