"""Contracts on the CFF / Type 1 / Type 2 number operand codecs (C15, C12).
Spec: Adobe TN5176 (CFF DICT operands) / TN5177 (Type 2 charstring numbers) / Type 1 spec."""
from pyvc.core import Contract, contract, prop, internal
from pyvc.models import std, SymBytes, fixed_tools
from fractions import Fraction

from pyvc.spec import And, Or, Not, Implies, Ite, eq, div, floor


def _rebind():
    ft = fixed_tools()
    return std("struct", "len", "bytes", "int", "float", "bytechr", "byteord", "bytesjoin",
               floatToFixed=ft.floatToFixed, fixedToFloat=ft.fixedToFloat)


def _items(b):
    return list(b.items) if isinstance(b, SymBytes) else list(b)


def spec_decode_int(bs, fmt):
    """(value, length) of the integer operand that starts at bs[0], per the format's spec;
    length 0 when bs[0] is not an integer operand byte of that format."""
    b0 = bs[0]
    b = bs + [0, 0, 0, 0]
    s16 = b[1] * 256 + b[2]
    s16 = Ite(s16 >= 32768, s16 - 65536, s16)
    s32 = ((b[1] * 256 + b[2]) * 256 + b[3]) * 256 + b[4]
    s32 = Ite(s32 >= 2 ** 31, s32 - 2 ** 32, s32)
    value = Ite(And(b0 >= 32, b0 <= 246), b0 - 139,
                Ite(And(b0 >= 247, b0 <= 250), (b0 - 247) * 256 + b[1] + 108,
                    Ite(And(b0 >= 251, b0 <= 254), -(b0 - 251) * 256 - b[1] - 108,
                        Ite(eq(b0, 28), s16, s32))))
    four = {"cff": 29, "t1": 255, "t2": -1}[fmt]
    two_ok = fmt in ("cff", "t2")
    length = Ite(And(b0 >= 32, b0 <= 246), 1,
                 Ite(And(b0 >= 247, b0 <= 254), 2,
                     Ite(And(eq(b0, 28), two_ok), 3, Ite(eq(b0, four), 5, 0))))
    return value, length


def real_table_decode(mod, fmt, code):
    """Decode with the REAL dispatch table of the module (cffDictOperandEncoding, ...):
    the reader registered for the first byte is looked up and called."""
    table = {"cff": mod.cffDictOperandEncoding, "t1": mod.t1OperandEncoding, "t2": mod.t2OperandEncoding}[fmt]
    b0 = code[0]
    runs = []
    for i, reader in enumerate(table):
        if runs and runs[-1][2] is reader and runs[-1][1] == i - 1:
            runs[-1][1] = i
        else:
            runs.append([i, i, reader])
    for lo, hi, reader in runs:
        if And(b0 >= lo, b0 <= hi):        # forks per run of the table
            return reader(None, b0, code, 1)
    raise AssertionError("first byte outside 0..255")


class _EncodeInt(Contract):
    module = "fontTools.misc.psCharStrings"
    props = ("C15", "C12")
    rebind = staticmethod(_rebind)
    fmt = None
    source_qualname = "getIntEncoder"   # encodeIntCFF/T1/T2 are closures made by getIntEncoder
    lo, hi = -(2 ** 31), 2 ** 31 - 1

    def args(self, S, variant):
        return dict(value=S.int("value"))

    def requires(self, a):
        return And(self.lo <= a.value, a.value <= self.hi)

    def _ens(self):
        fmt = self.fmt
        return [
            prop("spec-decoder-returns-value", lambda a, old, r: And(
                eq(spec_decode_int(_items(r), fmt)[0], a.value),
                eq(spec_decode_int(_items(r), fmt)[1], len(_items(r))))),
            prop("real-reader-table-returns-value", lambda a, old, r, self=self: (
                lambda d: And(eq(d[0], a.value), eq(d[1], len(_items(r)))))(real_table_decode(self.mod, fmt, r))),
            prop("first-byte-is-an-operand-byte", lambda a, old, r: Or(
                _items(r)[0] >= 32, eq(_items(r)[0], 28), eq(_items(r)[0], 29) if fmt == "cff" else False)),
        ]

    @property
    def ensures(self):
        return self._ens()


@contract
class EncodeIntCFF(_EncodeInt):
    qualname = "encodeIntCFF"
    fmt = "cff"


@contract
class EncodeIntT1(_EncodeInt):
    qualname = "encodeIntT1"
    fmt = "t1"


@contract
class EncodeIntT2(_EncodeInt):
    """Type 2 has no 4-byte integer: the documented domain is int16 (beyond it the code
    deliberately emits a 16.16 operand and warns)."""
    qualname = "encodeIntT2"
    fmt = "t2"
    lo, hi = -32768, 32767


@contract
class EncodeFixed(Contract):
    """For EVERY real f in the 16.16 range: encodeFixed(f) decodes (real reader table) to the
    nearest 16.16 value, round-half-up as OpenType prescribes: floor(f * 65536 + 1/2) / 65536."""
    module = "fontTools.misc.psCharStrings"
    qualname = "encodeFixed"
    props = ("C15", "C12")
    rebind = staticmethod(_rebind)
    assumptions = ("A-REAL: the argument is a real number; x*65536 is exact in binary64 for |x| < 2**37",)

    def args(self, S, variant):
        return dict(f=S.real("f"))

    def requires(self, a):
        return And(-32768 <= a.f, a.f * 65536 + Fraction(1, 2) < 2 ** 31)

    ensures = [
        prop("real-reader-table-returns-nearest-16.16", lambda a, old, r: (
            lambda d: And(eq(d[0] * 65536, floor(a.f * 65536 + Fraction(1, 2))), eq(d[1], len(_items(r)))))(
                real_table_decode(EncodeFixed._m(), "t2", r))),
    ]

    @staticmethod
    def _m():
        from pyvc.core import REGISTRY

        return REGISTRY["EncodeFixed"].mod
