"""Contracts on designspaceLib.AxisDescriptor (C19, C10): an axis's user-to-design mapping
and its hand-written inverse undo each other on strictly monotone maps, inside and outside
the mapped range."""
from pyvc.core import Contract, contract, prop, internal
from pyvc.spec import And, Or, Not, Implies, Ite, eq


def _axis(S, n):
    from fontTools.designspaceLib import AxisDescriptor

    a = AxisDescriptor()
    a.name, a.tag = "weight", "wght"
    a.map = [(S.real("u%d" % i), S.real("d%d" % i)) for i in range(n)]
    return a


def strictly_monotone(m):
    return And(*[And(m[i][0] < m[i + 1][0], m[i][1] < m[i + 1][1]) for i in range(len(m) - 1)])


@contract
class AxisMapRoundTrip(Contract):
    """map_backward(map_forward(u)) == u and map_forward(map_backward(w)) == w for every real u, w
    (maps of 1..3 entries listed in ascending order; values symbolic)."""
    module = "fontTools.designspaceLib"
    qualname = "AxisDescriptor.map_backward"
    props = ("C19", "C10")
    variants = (1, 2, 3)
    level = "PF"
    assumptions = ("A-REAL", "dicts keyed by proxies: all keys of such a dict are proxies in this contract")

    def args(self, S, variant):
        return dict(self=_axis(S, variant), u=S.real("u"), w=S.real("w"))

    def requires(self, a):
        return strictly_monotone(a.self.map)

    def call(self, f, a):
        fw = type(a.self).map_forward
        return f(a.self, fw(a.self, a.u)), fw(a.self, f(a.self, a.w))

    ensures = [
        prop("backward-of-forward-is-identity", lambda a, old, r: eq(r[0], a.u)),
        prop("forward-of-backward-is-identity", lambda a, old, r: eq(r[1], a.w)),
    ]


@contract
class AxisMapUnordered(Contract):
    """The same for a 3-entry map given in ANY order (the inverse sorts by design value)."""
    module = "fontTools.designspaceLib"
    qualname = "AxisDescriptor.map_backward"
    props = ("C19",)
    level = "PF"
    tiers = ("thorough",)

    def args(self, S, variant):
        return dict(self=_axis(S, 3), u=S.real("u"))

    def requires(self, a):
        m = a.self.map
        # strictly monotone as a function: for every pair, same order of inputs and outputs
        return And(*[Or(And(m[i][0] < m[j][0], m[i][1] < m[j][1]), And(m[i][0] > m[j][0], m[i][1] > m[j][1]))
                     for i in range(3) for j in range(i + 1, 3)])

    def call(self, f, a):
        return f(a.self, type(a.self).map_forward(a.self, a.u))

    ensures = [prop("backward-of-forward-is-identity", lambda a, old, r: eq(r, a.u))]
