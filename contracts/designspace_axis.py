"""Contracts on designspaceLib.AxisDescriptor (C19, C10): an axis's user-to-design mapping
and its hand-written inverse undo each other on strictly monotone maps, inside and outside
the mapped range."""
from pyvc.core import Contract, contract, prop, internal
from pyvc.spec import And, Or, Not, Implies, Ite, eq, div


def _axis(S, n):
    from fontTools.designspaceLib import AxisDescriptor

    a = AxisDescriptor()
    a.name, a.tag = "weight", "wght"
    a.map = [(S.real("u%d" % i), S.real("d%d" % i)) for i in range(n)]
    return a


def strictly_monotone(m):
    return And(*[And(m[i][0] < m[i + 1][0], m[i][1] < m[i + 1][1]) for i in range(len(m) - 1)])


@contract
class AxisMapRoundTrip(Contract):
    """map_backward(map_forward(u)) == u and map_forward(map_backward(w)) == w for every real u, w
    (maps of 1..3 entries listed in ascending order; values symbolic)."""
    module = "fontTools.designspaceLib"
    qualname = "AxisDescriptor.map_backward"
    props = ("C19", "C10")
    variants = (1, 2, 3)
    level = "PF"
    assumptions = ("A-REAL", "dicts keyed by proxies: all keys of such a dict are proxies in this contract")

    def args(self, S, variant):
        return dict(self=_axis(S, variant), u=S.real("u"), w=S.real("w"))

    def requires(self, a):
        return strictly_monotone(a.self.map)

    def call(self, f, a):
        fw = type(a.self).map_forward
        return f(a.self, fw(a.self, a.u)), fw(a.self, f(a.self, a.w))

    ensures = [
        prop("backward-of-forward-is-identity", lambda a, old, r: eq(r[0], a.u)),
        prop("forward-of-backward-is-identity", lambda a, old, r: eq(r[1], a.w)),
    ]


@contract
class AxisMapUnordered(Contract):
    """The same for a 3-entry map given in ANY order (the inverse sorts by design value)."""
    module = "fontTools.designspaceLib"
    qualname = "AxisDescriptor.map_backward"
    props = ("C19",)
    level = "PF"
    tiers = ("thorough",)

    def args(self, S, variant):
        return dict(self=_axis(S, 3), u=S.real("u"))

    def requires(self, a):
        m = a.self.map
        # strictly monotone as a function: for every pair, same order of inputs and outputs
        return And(*[Or(And(m[i][0] < m[j][0], m[i][1] < m[j][1]), And(m[i][0] > m[j][0], m[i][1] > m[j][1]))
                     for i in range(3) for j in range(i + 1, 3)])

    def call(self, f, a):
        return f(a.self, type(a.self).map_forward(a.self, a.u))

    ensures = [prop("backward-of-forward-is-identity", lambda a, old, r: eq(r, a.u))]


# -- full design locations (C10): a dimension a source / instance leaves out is at the axis
# default MAPPED TO DESIGN SPACE, never at the raw user-space default -------------------------------

class _StubAxis:
    """Axis whose map_forward is an uninterpreted function MF_i (the callee's own contract,
    AxisMapRoundTrip / PiecewiseLinearMap, is verified separately)."""

    def __init__(self, S, i):
        self.name = "axis%d" % i
        self.default = S.real("default%d" % i)
        self._S, self._i = S, i

    def __deepcopy__(self, memo):
        return self          # immutable; and it holds the symbol factory, which must not be copied

    def map_forward(self, v):
        if self._S.concrete:
            return v * 3 + 7 + self._i          # native replay: a fixed injective function
        import z3
        from pyvc.sym import SymNum, _lift
        return SymNum(z3.Function("MF%d" % self._i, z3.RealSort(), z3.RealSort())(z3.ToReal(_lift(v).t) if _lift(v).is_int else _lift(v).t))


class _Doc:
    def __init__(self, axes):
        self.axes = axes


_PRESENT = ((), (0,), (1,), (0, 1))


def _loc_expect(a, r, design, user=None):
    out = [len(r) == len(a.doc.axes)]
    for ax in a.doc.axes:
        if ax.name in design:
            want = design[ax.name]
        elif user is not None and ax.name in user:
            want = ax.map_forward(user[ax.name])
        else:
            want = ax.map_forward(ax.default)
        out.append(eq(r[ax.name], want))
    return And(*out)


@contract
class SourceFullDesignLocation(Contract):
    """SourceDescriptor.getFullDesignLocation: every axis of the document gets a coordinate; an
    axis named in designLocation keeps that value, any other axis is at map_forward(default)."""
    module = "fontTools.designspaceLib"
    qualname = "SourceDescriptor.getFullDesignLocation"
    props = ("C10", "C19")
    variants = _PRESENT
    level = "PF"
    assumptions = ("A-REAL",)

    def args(self, S, variant):
        from fontTools.designspaceLib import SourceDescriptor
        src = SourceDescriptor()
        src.designLocation = {"axis%d" % i: S.real("loc%d" % i) for i in variant}
        return dict(self=src, doc=_Doc([_StubAxis(S, 0), _StubAxis(S, 1)]))

    ensures = [prop("omitted-axes-sit-at-the-mapped-default", lambda a, old, r: _loc_expect(a, r, a.self.designLocation))]


@contract
class InstanceFullDesignLocation(Contract):
    """InstanceDescriptor.getFullDesignLocation (no location label): designLocation wins, then
    map_forward(userLocation), then map_forward(default) - per axis."""
    module = "fontTools.designspaceLib"
    qualname = "InstanceDescriptor.getFullDesignLocation"
    props = ("C10", "C19")
    variants = tuple((d, u) for d in _PRESENT for u in _PRESENT)
    level = "PF"
    assumptions = ("A-REAL",)

    def args(self, S, variant):
        from fontTools.designspaceLib import InstanceDescriptor
        d, u = variant
        inst = InstanceDescriptor()
        inst.designLocation = {"axis%d" % i: S.real("loc%d" % i) for i in d}
        inst.userLocation = {"axis%d" % i: S.real("user%d" % i) for i in u}
        inst.locationLabel = None
        doc = _Doc([_StubAxis(S, 0), _StubAxis(S, 1)])
        doc.locationLabels = []
        return dict(self=inst, doc=doc)

    ensures = [prop("design-then-user-then-default", lambda a, old, r: _loc_expect(a, r, a.self.designLocation, a.self.userLocation))]


@contract
class DocMapForward(Contract):
    """DesignSpaceDocument.map_forward: every axis mapped; a missing coordinate is the mapped default."""
    module = "fontTools.designspaceLib"
    qualname = "DesignSpaceDocument.map_forward"
    props = ("C10", "C19")
    variants = _PRESENT
    level = "PF"
    assumptions = ("A-REAL",)

    def args(self, S, variant):
        return dict(self=_Doc([_StubAxis(S, 0), _StubAxis(S, 1)]), userLocation={"axis%d" % i: S.real("user%d" % i) for i in variant})

    def call(self, f, a):
        a.doc = a.self
        return f(a.self, a.userLocation)

    ensures = [prop("user-location-mapped-per-axis", lambda a, old, r: _loc_expect(a, r, {}, a.userLocation))]


@contract
class DocNormalizeLocation(Contract):
    """DesignSpaceDocument.normalizeLocation: a design location is normalised axis by axis
    against the DESIGN-space triple (map_forward of minimum, default, maximum): 0 at the mapped
    default, -1 / +1 at the mapped extremes, linear in between and clamped outside; an anisotropic
    pair contributes its first value; axes the location does not mention are left out."""
    module = "fontTools.designspaceLib"
    qualname = "DesignSpaceDocument.normalizeLocation"
    props = ("C10", "C19")
    variants = _PRESENT
    level = "PF"
    assumptions = ("A-REAL", "the axis maps are monotone (validated elsewhere): MF(minimum) <= MF(default) <= MF(maximum)")

    def args(self, S, variant):
        axes = [_StubAxis(S, 0), _StubAxis(S, 1)]
        for i, ax in enumerate(axes):
            ax.minimum, ax.maximum = S.real("minimum%d" % i), S.real("maximum%d" % i)
        loc = {}
        for i in variant:
            v = S.real("value%d" % i)
            loc["axis%d" % i] = (v, S.real("other%d" % i)) if i == 1 else v
        return dict(self=_Doc(axes), location=loc, _present=variant)

    def requires(self, a):
        return And(*[And(ax.map_forward(ax.minimum) <= ax.map_forward(ax.default), ax.map_forward(ax.default) <= ax.map_forward(ax.maximum))
                     for ax in a.self.axes])

    @staticmethod
    def _post(a, r):
        if sorted(r) != sorted("axis%d" % i for i in a._present):
            return False
        cs = []
        for i in a._present:
            ax = a.self.axes[i]
            v = a.location[ax.name]
            v = v[0] if isinstance(v, tuple) else v
            lo, de, hi = ax.map_forward(ax.minimum), ax.map_forward(ax.default), ax.map_forward(ax.maximum)
            c = Ite(v < lo, lo, Ite(v > hi, hi, v))
            # div() is the total, non-forking division of the spec language (the guards make the divisor non-zero)
            want = Ite(Or(eq(c, de), eq(lo, hi)), 0,
                       Ite(c < de, Ite(eq(lo, de), 0, div(c - de, de - lo)), Ite(eq(hi, de), 0, div(c - de, hi - de))))
            cs.append(eq(r[ax.name], want))
        return And(*cs)

    ensures = [prop("default-normalisation-in-design-space", lambda a, old, r: DocNormalizeLocation._post(a, r))]
