"""TTX dump kernels (C03) that have a function-level statement: the lookup-debugging decoration of
the GSUB / GPOS dump adds comments and nothing else."""
import io
import itertools
import re

from pyvc.core import Contract, contract, prop, internal


def _lookup_list(n):
    from fontTools.ttLib.tables import otTables as ot
    ll = ot.LookupList()
    ll.Lookup = []
    for i in range(n):
        st = ot.SingleSubst()
        st.mapping = {"a": "b%d" % i}
        lk = ot.Lookup()
        lk.LookupType, lk.LookupFlag, lk.SubTable, lk.SubTableCount = 1, 0, [st], 1
        ll.Lookup.append(lk)
    ll.LookupCount = n
    return ll


class _Font:
    def __init__(self, debg):
        self.debg = debg

    def __contains__(self, tag):
        return tag == "Debg" and self.debg is not None

    def __getitem__(self, tag):
        class _T:
            data = self.debg
        return _T()

    def getGlyphID(self, name):
        return 1


def _dump(ll, font):
    from fontTools.misc.xmlWriter import XMLWriter
    buf = io.BytesIO()
    w = XMLWriter(buf, newlinestr="\n")
    ll.toXML2(w, font)
    w.close()
    return buf.getvalue().decode("utf-8")


@contract
class LookupListDumpWithDebugInfo(Contract):
    """LookupList.toXML2 with a 'Debg' table: for EVERY subset of the lookups that has a
    debug entry (with or without a lookup name, with or without a feature triple), the dump
    with its comment lines removed is the plain dump - every Lookup element still there, in
    order, with its index."""
    module = "fontTools.ttLib.tables.otTables"
    qualname = "LookupList.toXML2"
    props = ("C03",)
    shadow_mode = "real"
    variants = (1, 3)
    level = "PF"
    assumptions = ("XMLWriter and the per-subtable toXML are the real ones, run concretely",)

    def args(self, S, variant):
        return dict(_n=variant)

    def call(self, f, a):
        from fontTools.feaLib.lookupDebugInfo import LOOKUP_DEBUG_INFO_KEY
        n = a._n
        plain = _dump(_lookup_list(n), _Font(None))
        bad, count = [], 0
        infos = (["x.fea:3:5", "mylookup", ["latn", "dflt", "liga"]], ["x.fea:9:1", None, None], ["y.fea:1:1", "n", None])
        for mask in itertools.product((None, 0, 1, 2), repeat=n):
            data = {str(i): infos[k] for i, k in enumerate(mask) if k is not None}
            font = _Font({LOOKUP_DEBUG_INFO_KEY: {"GSUB": data, "GPOS": {}}})
            ll = _lookup_list(n)
            text = _dump(ll, font)
            def strip(t):
                return re.sub(r"\n\s*\n", "\n", "\n".join(l for l in t.split("\n") if not l.strip().startswith("<!--")))
            count += 1
            if strip(text) != strip(plain) or text.count("<!--") - plain.count("<!--") != len(data):
                bad.append((mask, text))
        return count, bad, plain

    ensures = [prop("debug-comments-are-the-only-difference", lambda a, old, r: r[0] == 4 ** a._n and not r[1] and r[2].count("<Lookup index=") == a._n)]
