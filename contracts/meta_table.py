"""meta (C02, C01): header (version 1, flags 0, offset of the first data block, map count), one
data map per tag in ascending tag order with the offset and length of ITS block, the blocks back
to back in that order; decompile returns the same bytes per tag.  Blocks have symbolic bytes and
the lengths 0..3 each (every combination for two tags, empty blocks included)."""
from pyvc.core import Contract, contract, prop, internal
from pyvc.models import std, SymBytes
from pyvc.spec import And, Or, Not, Implies, Ite, eq


def _items(b):
    return list(b.items) if isinstance(b, SymBytes) else list(b)


def _be(items):
    v = 0
    for x in items:
        v = v * 256 + x
    return v


@contract
class MetaRoundTrip(Contract):
    module = "fontTools.ttLib.tables._m_e_t_a"
    qualname = "table__m_e_t_a.decompile"
    props = ("C02", "C01")
    variants = tuple((a, b) for a in (0, 1, 3) for b in (0, 2))
    level = "PF"

    def rebind(self):
        from pyvc.models import sstruct_shadow
        return dict(std("struct", "len", "bytes", "int", "bytesjoin"), sstruct=sstruct_shadow())

    def args(self, S, variant):
        la, lb = variant
        t = self.mod.table__m_e_t_a()
        blocks = {"zzzz": S.bytes("z", la), "appl": S.bytes("a", lb)}          # inserted in descending tag order
        t.data = dict(blocks)
        return dict(self=t, _blocks=blocks, _v=variant)

    def call(self, f, a):
        cls = type(a.self)
        data = cls.compile(a.self, None)
        back = cls()
        f(back, data, None)
        return data, back.data

    @staticmethod
    def _post(a, r):
        data, back = r
        b = _items(data)
        la, lb = a._v
        first = 16 + 2 * 12
        if len(b) != first + la + lb or sorted(back) != ["appl", "zzzz"]:
            return False
        cs = [eq(_be(b[0:4]), 1), eq(_be(b[4:8]), 0), eq(_be(b[8:12]), first), eq(_be(b[12:16]), 2)]
        at, off = 16, first
        for tag, ln in (("appl", lb), ("zzzz", la)):
            cs += [bytes(x if isinstance(x, int) else -1 for x in b[at:at + 4]) == tag.encode(), eq(_be(b[at + 4:at + 8]), off), eq(_be(b[at + 8:at + 12]), ln)]
            want = _items(a._blocks[tag])
            cs += [eq(x, y) for x, y in zip(b[off:off + ln], want)]
            got = _items(back[tag])
            cs.append(len(got) == ln)
            cs += [eq(x, y) for x, y in zip(got, want)]
            at, off = at + 12, off + ln
        return And(*cs)

    ensures = [prop("maps-point-at-their-blocks-and-blocks-come-back", lambda a, old, r: MetaRoundTrip._post(a, r))]
