"""TTGlyphPen.glyph (C14, C05): the simple glyph built from pen calls has the pen's points in order -
on-curve for moveTo / lineTo / the end of a curve, quadratic off-curve for qCurveTo's control
points, cubic off-curve (flag 0x80) for curveTo's - rounded to integers, one contour per path
with its last point removed exactly when it repeats the first one and both are on-curve (TrueType
contours close implicitly), single-point paths (anchors) dropped, end points and contour count
consistent.  Coordinates symbolic."""
from pyvc.core import Contract, contract, prop, internal
from pyvc.models import std
from pyvc.spec import And, Or, Not, Implies, Ite, eq, floor
from contracts.varlib_mutator_merger import _IntModel

SHAPES = {
    "triangle": ["m", "l", "l", "c"],
    "quadratic": ["m", "q2", "l", "c"],
    "cubic": ["m", "c3", "l", "c"],
    "two-contours": ["m", "l", "l", "c", "m", "q2", "c"],
    "anchor-then-contour": ["m", "c", "m", "l", "l", "c"],
    "open-path-is-closed": ["m", "l", "l", "e"],
}


class _Coords:
    def __init__(self, pts):
        self.pts = [tuple(p) for p in pts]

    def toInt(self, *, round=None):
        self.pts = [(round(x), round(y)) for x, y in self.pts]

    def __len__(self):
        return len(self.pts)

    def __iter__(self):
        return iter(self.pts)

    def __getitem__(self, i):
        return self.pts[i]


@contract
class TTGlyphPenSimpleGlyph(_IntModel, Contract):
    module = "fontTools.pens.ttGlyphPen"
    qualname = "_TTGlyphBasePen.glyph"
    props = ("C14", "C05")
    shadow_mode = "real"
    variants = tuple((s, num) for s in SHAPES for num in ("integers", "reals"))
    level = "PF"
    assumptions = ("A-REAL", "GlyphCoordinates is replaced by a list with the same toInt semantics; array('B') by the byte-array model")

    def setup(self):
        _IntModel.setup(self)
        import fontTools.pens.ttGlyphPen as mod
        self._saved_mod = (mod.GlyphCoordinates, mod.array)
        mod.GlyphCoordinates = _Coords
        mod.array = lambda code, items: list(items)

    def teardown(self):
        import fontTools.pens.ttGlyphPen as mod
        mod.GlyphCoordinates, mod.array = self._saved_mod
        _IntModel.teardown(self)

    def args(self, S, variant):
        import fontTools.pens.ttGlyphPen as mod
        shape, num = variant
        mk = (lambda n: S.int(n, -3000, 3000)) if num == "integers" else (lambda n: S.real(n))
        k = [0]

        def pt():
            k[0] += 1
            return (mk("x%d" % k[0]), mk("y%d" % k[0]))
        pen = mod.TTGlyphPen(None)
        contours, cur = [], None
        for tok in SHAPES[shape]:
            if tok == "m":
                p = pt()
                pen.moveTo(p)
                cur = [(p, 1)]
            elif tok == "l":
                p = pt()
                pen.lineTo(p)
                cur.append((p, 1))
            elif tok == "q2":
                a_, b_, c_ = pt(), pt(), pt()
                pen.qCurveTo(a_, b_, c_)
                cur += [(a_, 0), (b_, 0), (c_, 1)]
            elif tok == "c3":
                a_, b_, c_ = pt(), pt(), pt()
                pen.curveTo(a_, b_, c_)
                cur += [(a_, 0x80), (b_, 0x80), (c_, 1)]
            else:
                (pen.closePath if tok == "c" else pen.endPath)()
                contours.append(cur)
                cur = None
        return dict(self=pen, _contours=contours, _num=num)

    def call(self, f, a):
        g = f(a.self)
        return g, list(g.coordinates.pts), list(g.flags), list(g.endPtsOfContours)

    @staticmethod
    def _post(a, r):
        g, pts, flags, ends = r
        rd = (lambda v: v) if a._num == "integers" else (lambda v: floor(v + 0.5))
        want_pts, want_flags, want_ends, cs = [], [], [], []
        for c in a._contours:
            if len(c) == 1:
                continue                                   # an anchor: no contour
            (fx, fy), ff = c[0]
            (lx, ly), lf = c[-1]
            if lf == 1 and ff == 1 and bool(And(eq(fx, lx), eq(fy, ly))):      # decided on this path
                c = c[:-1]
            want_pts += [p for p, _ in c]
            want_flags += [f_ for _, f_ in c]
            want_ends.append(len(want_pts) - 1)
        if len(pts) != len(want_pts) or flags != want_flags or ends != want_ends or g.numberOfContours != len(want_ends):
            return False
        for (x, y), (wx, wy) in zip(pts, want_pts):
            cs += [eq(x, rd(wx)), eq(y, rd(wy))]
        return And(not hasattr(g, "components"), *cs)

    ensures = [prop("glyph-has-the-pen-points-with-implicit-closing", lambda a, old, r: TTGlyphPenSimpleGlyph._post(a, r))]


@contract
class TTGlyphPenBuildComponents(_IntModel, Contract):
    """TTGlyphPen._buildComponents for one component with EVERY real x-scale and offset (the other
    transform terms 0, 0 and a symbolic y-scale): with handleOverflowingTransforms, a scale
    beyond +-2 decomposes the component instead of writing it; otherwise the component is
    written with the base glyph's name, the flags asked for, the offset rounded to integers
    and transform terms that are multiples of 1/16384 inside F2Dot14's range [-2, 2 - 1/16384]
    (so compiling cannot wrap them), within 1/32768 of what was asked - or 1/16384 for the
    values just below 2 that are clamped - and no transform at all exactly when it quantises to
    the identity; a missing base glyph is skipped; a pen that also holds points decomposes."""
    module = "fontTools.pens.ttGlyphPen"
    qualname = "_TTGlyphBasePen._buildComponents"
    props = ("C14",)
    shadow_mode = "real"
    variants = ("plain", "missing-base", "with-points", "no-overflow-handling")
    level = "P"
    assumptions = ("A-REAL", "_decompose is a recorder here (own bounded check: nested component decomposition)")

    def args(self, S, variant):
        import fontTools.pens.ttGlyphPen as mod
        sx, sy, dx, dy = S.real("sx"), S.real("sy"), S.real("dx"), S.real("dy")
        calls = []

        class _Pen(mod.TTGlyphPen):
            def _decompose(self, glyphName, transformation):
                calls.append((glyphName, transformation))
        pen = _Pen({} if variant == "missing-base" else {"base": object()}, handleOverflowingTransforms=variant != "no-overflow-handling")
        pen.addComponent("base", (sx, 0, 0, sy, dx, dy))
        if variant == "with-points":
            pen.points = [(0, 0)]
        return dict(self=pen, componentFlags=0x1204, _sx=sx, _sy=sy, _dx=dx, _dy=dy, _calls=calls, _v=variant)

    def requires(self, a):
        return And(a._sx >= -4, a._sx <= 4, a._sy >= -4, a._sy <= 4)

    @staticmethod
    def _post(a, r):
        v = a._v
        if v == "missing-base":
            return r == [] and not a._calls
        over = Or(a._sx > 2, a._sx < -2, a._sy > 2, a._sy < -2)
        decomposed = len(a._calls) == 1 and r == [] and a._calls[0][0] == "base"
        if v == "with-points":
            return decomposed
        if not r:
            return And(over, decomposed, v == "plain")
        if len(r) != 1 or a._calls:
            return False
        c = r[0]
        cs = [Not(over) if v == "plain" else True, c.glyphName == "base", c.flags == 0x1204,
              eq(c.x, floor(a._dx + 0.5)), eq(c.y, floor(a._dy + 0.5))]
        if v != "plain":
            return And(*cs)
        from fractions import Fraction
        MAXF = Fraction(32767, 16384)
        qx_id = And(a._sx * 16384 + Fraction(1, 2) >= 16384, a._sx * 16384 + Fraction(1, 2) < 16385)
        qy_id = And(a._sy * 16384 + Fraction(1, 2) >= 16384, a._sy * 16384 + Fraction(1, 2) < 16385)
        if not hasattr(c, "transform"):
            return And(qx_id, qy_id, *cs)
        (xx, xy), (yx, yy) = c.transform
        cs.append(Not(And(qx_id, qy_id)))
        for got, want in ((xx, a._sx), (yy, a._sy)):
            k = got * 16384
            cs += [eq(k, floor(k)), got >= -2, got <= MAXF,
                   Ite(want * 16384 + Fraction(1, 2) >= 32768, And(eq(got, MAXF)), And(got - want <= Fraction(1, 32768), want - got <= Fraction(1, 32768)))]
        cs += [eq(xy, 0), eq(yx, 0)]
        return And(*cs)

    ensures = [prop("component-representable-or-decomposed", lambda a, old, r: TTGlyphPenBuildComponents._post(a, r))]


@contract
class TTGlyphPointPenSegmentTypes(Contract):
    """TTGlyphPointPen.beginPath / addPoint / endPath, for EVERY sequence of up to five point
    types over {off-curve, line, qcurve, curve} closed as the first, second or third contour
    (after a triangle; after a quadratic contour that ends in off-curve points): an on-curve
    point gets flag 1; an off-curve point gets the cubic flag exactly when the next on-curve
    point of ITS OWN contour, going round cyclically, is a 'curve' point, and 0 otherwise (a
    contour without on-curve points is quadratic); the flags of the contours closed before
    are not touched; one end point per contour."""
    module = "fontTools.pens.ttGlyphPen"
    qualname = "TTGlyphPointPen.endPath"
    props = ("C14",)
    shadow_mode = "real"
    level = "PF"
    assumptions = ("token-valued: the family is every type sequence of length 1..5 x three preceding-contour shapes",)

    def args(self, S, variant):
        return {}

    def call(self, f, a):
        import itertools
        import fontTools.pens.ttGlyphPen as mod
        prefixes = {"first": [], "after-triangle": [["line", "line", "line"]],
                    "after-quadratic": [["line", "line", "line"], ["qcurve", None, None]]}
        bad, count = [], 0
        for n in range(1, 6):
            for types in itertools.product((None, "line", "qcurve", "curve"), repeat=n):
                for pname, prefix in prefixes.items():
                    pen = mod.TTGlyphPointPen(None)
                    k = 0
                    for contour in prefix:
                        pen.beginPath()
                        for t in contour:
                            pen.addPoint((k, k), t)
                            k += 1
                        pen.endPath()
                    before = list(pen.types)
                    pen.beginPath()
                    for t in types:
                        pen.addPoint((k, k), t)
                        k += 1
                    f(pen)
                    count += 1
                    want = []
                    for i, t in enumerate(types):
                        if t is not None:
                            want.append(mod.flagOnCurve)
                            continue
                        nxt = next((types[(i + d) % n] for d in range(1, n) if types[(i + d) % n] is not None), None)
                        want.append(mod.flagCubic if nxt == "curve" else 0)
                    ends = [len(c) for c in prefix] + [n]
                    want_ends = [sum(ends[:i + 1]) - 1 for i in range(len(ends))]
                    if pen.types[:len(before)] != before or pen.types[len(before):] != want or pen.endPts != want_ends:
                        bad.append((pname, types, pen.types, before + want, pen.endPts))
        return count, bad[:5]

    ensures = [prop("off-curve-kind-from-the-next-on-curve-of-its-own-contour", lambda a, old, r: r[0] > 4000 and not r[1])]


@contract
class TTGlyphPointPenRedraw(Contract):
    """TTGlyphPointPen -> Glyph -> Glyph.drawPoints, for EVERY legal point-type sequence of up to
    five points ('line' never right after an off-curve point) drawn as the first, second or third
    contour: the glyph draws back the same contours - same points in the same order, off-curve
    where they were off-curve, and each on-curve point with its segment type ('line' after an
    on-curve point, else the 'qcurve' / 'curve' it was given) - so quadratic and cubic segments
    stay what they were, also next to each other in one glyph."""
    module = "fontTools.ttLib.tables._g_l_y_f"
    qualname = "Glyph.drawPoints"
    props = ("C14",)
    shadow_mode = "real"
    level = "PF"
    assumptions = ("token-valued: 2964 glyphs (every type sequence of length 1..5 x three preceding-contour shapes), fixed integer coordinates",)

    def args(self, S, variant):
        return {}

    def call(self, f, a):
        import itertools
        from fontTools.pens.ttGlyphPen import TTGlyphPointPen
        from fontTools.pens.recordingPen import RecordingPointPen

        def nz(cs):
            out = []
            for c in cs:
                m, o = len(c), []
                for i, (p, t) in enumerate(c):
                    if t is None:
                        o.append((p, None))
                    else:
                        o.append((p, "line" if (c[(i - 1) % m][1] is not None or m == 1) else t))
                out.append(o)
            return out
        bad, n = [], 0
        for L in range(1, 6):
            for types in itertools.product((None, "line", "qcurve", "curve"), repeat=L):
                if any(t == "line" and types[(i - 1) % L] is None and L > 1 for i, t in enumerate(types)):
                    continue
                for prefix in ([], [["line", "line", "line"]], [["qcurve", None, None]]):
                    pen, k, want = TTGlyphPointPen(None), 0, []
                    for c in prefix + [list(types)]:
                        pen.beginPath()
                        w = []
                        for t in c:
                            pt = (k * 10, (k * 7) % 13)
                            pen.addPoint(pt, t)
                            w.append((pt, t))
                            k += 1
                        pen.endPath()
                        want.append(w)
                    g = pen.glyph()
                    rec = RecordingPointPen()
                    f(g, rec, None)
                    got, cur = [], None
                    for name, args, kw in rec.value:
                        if name == "beginPath":
                            cur = []
                        elif name == "addPoint":
                            cur.append((args[0], args[1]))
                        else:
                            got.append(cur)
                    n += 1
                    if nz(got) != nz(want):
                        bad.append((types, prefix, got))
        return n, bad[:5]

    ensures = [prop("same-contours-same-segment-kinds", lambda a, old, r: r[0] == 2964 and not r[1])]
