"""TTGlyphPen.glyph (C14, C05): the simple glyph built from pen calls has the pen's points in order -
on-curve for moveTo / lineTo / the end of a curve, quadratic off-curve for qCurveTo's control
points, cubic off-curve (flag 0x80) for curveTo's - rounded to integers, one contour per path
with its last point removed exactly when it repeats the first one and both are on-curve (TrueType
contours close implicitly), single-point paths (anchors) dropped, end points and contour count
consistent.  Coordinates symbolic."""
from pyvc.core import Contract, contract, prop, internal
from pyvc.models import std
from pyvc.spec import And, Or, Not, Implies, Ite, eq, floor
from contracts.varlib_mutator_merger import _IntModel

SHAPES = {
    "triangle": ["m", "l", "l", "c"],
    "quadratic": ["m", "q2", "l", "c"],
    "cubic": ["m", "c3", "l", "c"],
    "two-contours": ["m", "l", "l", "c", "m", "q2", "c"],
    "anchor-then-contour": ["m", "c", "m", "l", "l", "c"],
    "open-path-is-closed": ["m", "l", "l", "e"],
}


class _Coords:
    def __init__(self, pts):
        self.pts = [tuple(p) for p in pts]

    def toInt(self, *, round=None):
        self.pts = [(round(x), round(y)) for x, y in self.pts]

    def __len__(self):
        return len(self.pts)

    def __iter__(self):
        return iter(self.pts)

    def __getitem__(self, i):
        return self.pts[i]


@contract
class TTGlyphPenSimpleGlyph(_IntModel, Contract):
    module = "fontTools.pens.ttGlyphPen"
    qualname = "_TTGlyphBasePen.glyph"
    props = ("C14", "C05")
    shadow_mode = "real"
    variants = tuple((s, num) for s in SHAPES for num in ("integers", "reals"))
    level = "PF"
    assumptions = ("A-REAL", "GlyphCoordinates is replaced by a list with the same toInt semantics; array('B') by the byte-array model")

    def setup(self):
        _IntModel.setup(self)
        import fontTools.pens.ttGlyphPen as mod
        self._saved_mod = (mod.GlyphCoordinates, mod.array)
        mod.GlyphCoordinates = _Coords
        mod.array = lambda code, items: list(items)

    def teardown(self):
        import fontTools.pens.ttGlyphPen as mod
        mod.GlyphCoordinates, mod.array = self._saved_mod
        _IntModel.teardown(self)

    def args(self, S, variant):
        import fontTools.pens.ttGlyphPen as mod
        shape, num = variant
        mk = (lambda n: S.int(n, -3000, 3000)) if num == "integers" else (lambda n: S.real(n))
        k = [0]

        def pt():
            k[0] += 1
            return (mk("x%d" % k[0]), mk("y%d" % k[0]))
        pen = mod.TTGlyphPen(None)
        contours, cur = [], None
        for tok in SHAPES[shape]:
            if tok == "m":
                p = pt()
                pen.moveTo(p)
                cur = [(p, 1)]
            elif tok == "l":
                p = pt()
                pen.lineTo(p)
                cur.append((p, 1))
            elif tok == "q2":
                a_, b_, c_ = pt(), pt(), pt()
                pen.qCurveTo(a_, b_, c_)
                cur += [(a_, 0), (b_, 0), (c_, 1)]
            elif tok == "c3":
                a_, b_, c_ = pt(), pt(), pt()
                pen.curveTo(a_, b_, c_)
                cur += [(a_, 0x80), (b_, 0x80), (c_, 1)]
            else:
                (pen.closePath if tok == "c" else pen.endPath)()
                contours.append(cur)
                cur = None
        return dict(self=pen, _contours=contours, _num=num)

    def call(self, f, a):
        g = f(a.self)
        return g, list(g.coordinates.pts), list(g.flags), list(g.endPtsOfContours)

    @staticmethod
    def _post(a, r):
        g, pts, flags, ends = r
        rd = (lambda v: v) if a._num == "integers" else (lambda v: floor(v + 0.5))
        want_pts, want_flags, want_ends, cs = [], [], [], []
        for c in a._contours:
            if len(c) == 1:
                continue                                   # an anchor: no contour
            (fx, fy), ff = c[0]
            (lx, ly), lf = c[-1]
            if lf == 1 and ff == 1 and bool(And(eq(fx, lx), eq(fy, ly))):      # decided on this path
                c = c[:-1]
            want_pts += [p for p, _ in c]
            want_flags += [f_ for _, f_ in c]
            want_ends.append(len(want_pts) - 1)
        if len(pts) != len(want_pts) or flags != want_flags or ends != want_ends or g.numberOfContours != len(want_ends):
            return False
        for (x, y), (wx, wy) in zip(pts, want_pts):
            cs += [eq(x, rd(wx)), eq(y, rd(wy))]
        return And(not hasattr(g, "components"), *cs)

    ensures = [prop("glyph-has-the-pen-points-with-implicit-closing", lambda a, old, r: TTGlyphPenSimpleGlyph._post(a, r))]
