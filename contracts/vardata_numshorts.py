"""VarData.calculateNumShorts (C09, C02): the word-size layout it chooses (NumShorts, long-word flag)
can hold every delta of every row - column j < wordCount is 16 bit (32 with the long flag), the
others 8 bit (16 with the flag) - and with optimize=True the columns are only PERMUTED wide-first
(all-zero columns may go): every row still has the same delta under every region.  One row with a
symbolic delta per column (each in a size class), one concrete row."""
import itertools

from pyvc.core import Contract, contract, prop, internal
from pyvc.spec import And, Or, Not, Implies, Ite, eq

CLASSES = {"zero": (0, 0), "byte": (-128, 127), "short": (-32768, 32767), "long": (-2 ** 31, 2 ** 31 - 1)}
EDGE = {"zero": 0, "byte": -128, "short": 32767, "long": -32769}


@contract
class CalculateNumShorts(Contract):
    module = "fontTools.varLib.builder"
    qualname = "VarData_calculateNumShorts"
    props = ("C09", "C02")
    shadow_mode = "real"
    variants = tuple((cols, opt) for cols in (("byte", "short"), ("short", "byte"), ("long", "byte", "short"), ("zero", "short"), ("byte", "zero", "byte"),
                                               ("short", "long"), ("zero",), ("byte",)) for opt in (False, True))
    level = "PF"
    assumptions = ("each symbolic delta is confined to the size class named by the variant (bit_length of a proxy forks over its possible answers)",)

    def args(self, S, variant):
        from fontTools.ttLib.tables import otTables as ot
        cols, opt = variant
        vd = ot.VarData()
        vd.VarRegionIndex = [10 + j for j in range(len(cols))]
        vd.VarRegionCount = len(cols)
        sym = [S.int("d%d" % j, *CLASSES[c]) for j, c in enumerate(cols)]
        vd.Item = [list(sym), [EDGE[c] for c in cols]]
        vd.ItemCount = 2
        return dict(self=vd, optimize=opt, _sym=sym, _cols=cols, _rows=[list(sym), [EDGE[c] for c in cols]])

    @staticmethod
    def _post(a, r):
        vd = a.self
        long_words = bool(vd.NumShorts & 0x8000)
        wide = vd.NumShorts & 0x7FFF
        if vd.VarRegionCount != len(vd.VarRegionIndex) or wide > len(vd.VarRegionIndex) or any(len(row) != len(vd.VarRegionIndex) for row in vd.Item):
            return False
        cs = []
        for row in vd.Item:
            for j, v in enumerate(row):
                bits = (32 if j < wide else 16) if long_words else (16 if j < wide else 8)
                cs.append(And(v >= -(1 << (bits - 1)), v < (1 << (bits - 1))))
        # same delta under every region; a region that went had only zeros
        for k, old_row in enumerate(a._rows):
            for j, region in enumerate(10 + i for i in range(len(a._cols))):
                if region in vd.VarRegionIndex:
                    if vd.VarRegionIndex.count(region) != 1:
                        return False
                    cs.append(eq(vd.Item[k][vd.VarRegionIndex.index(region)], old_row[j]))
                else:
                    cs.append(eq(old_row[j], 0))
        if not a.optimize:
            cs.append(vd.VarRegionIndex == [10 + j for j in range(len(a._cols))])
        return And(*cs)

    ensures = [prop("layout-holds-every-delta-and-columns-are-only-permuted", lambda a, old, r: CalculateNumShorts._post(a, r))]
