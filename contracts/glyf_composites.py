"""Composite-glyph assembly (C05, C04): Glyph.getCoordinates against the OpenType 'glyf'
composite rules - every component's points are mapped by its 2x2 matrix, placed by its
x/y offset (scaled with the matrix only when SCALED_COMPONENT_OFFSET is set) or by anchor-
point matching, appended in component order, with end points renumbered and flags copied;
nested composites are flattened.  All coordinates, offsets and matrix terms symbolic."""
from pyvc.core import Contract, contract, prop, internal
from pyvc.models import std
from pyvc.spec import And, Or, Not, Implies, Ite, eq

F_SCALED, F_UNSCALED = 0x0800, 0x1000


def _rebind():
    return std("struct", "len", "bytes", "bytearray", "array", "int")


# (placement, transform?) per component
SHAPES = {
    "one-offset": [("xy", False)],
    "one-offset-matrix": [("xy", True)],
    "two-offsets-matrix": [("xy", True), ("xy", False)],
    "matched-points": [("xy", False), ("pt", False)],
    "matched-points-matrix": [("xy", True), ("pt", True)],
    "nested": [("xy", True), ("nested", True)],
}


def _simple(mod, S, tag, n):
    g = mod.Glyph.__new__(mod.Glyph)
    g.numberOfContours = 1
    pts = [(S.real("%s.x%d" % (tag, i)), S.real("%s.y%d" % (tag, i))) for i in range(n)]
    g.coordinates = mod.GlyphCoordinates(pts)
    g.endPtsOfContours = [n - 1]
    g.flags = mod.bytearray([1] * n) if hasattr(mod, "bytearray") else bytearray([1] * n)
    g._pts = pts
    return g


def _compo(mod, S, tag, base, placement, matrix, pts=None):
    c = mod.GlyphComponent()
    c.glyphName = base
    c.flags, bits = S.bitword(tag + ".flags", 16)
    c._bits = bits
    if placement == "pt":
        c.firstPt, c.secondPt = pts
    else:
        c.x, c.y = S.real(tag + ".dx"), S.real(tag + ".dy")
    if matrix:
        c.transform = [[S.real(tag + ".xx"), S.real(tag + ".xy")], [S.real(tag + ".yx"), S.real(tag + ".yy")]]
    return c


def spec_place(pts, comp, so_far):
    """OpenType composite placement of one (already flattened) component -> list of points"""
    def T(p):
        if not hasattr(comp, "transform"):
            return p
        (xx, xy), (yx, yy) = comp.transform
        return (p[0] * xx + p[1] * yx, p[0] * xy + p[1] * yy)
    if hasattr(comp, "firstPt"):
        tp = [T(p) for p in pts]
        ax, ay = so_far[comp.firstPt]
        bx, by = tp[comp.secondPt]
        return [(x + ax - bx, y + ay - by) for x, y in tp]
    scaled = comp._bits[11]          # SCALED_COMPONENT_OFFSET; the default (neither flag) is unscaled
    out = []
    for p in pts:
        a = T((p[0] + comp.x, p[1] + comp.y))
        b = T(p)
        b = (b[0] + comp.x, b[1] + comp.y)
        out.append((Ite(scaled, a[0], b[0]), Ite(scaled, a[1], b[1])) if hasattr(comp, "transform") else b)
    return out


@contract
class CompositeCoordinates(Contract):
    module = "fontTools.ttLib.tables._g_l_y_f"
    qualname = "Glyph.getCoordinates"
    props = ("C05", "C04")
    rebind = staticmethod(_rebind)
    variants = tuple(SHAPES)
    level = "PF"
    assumptions = ("A-REAL",)

    def args(self, S, variant):
        mod = self.mod
        table = {"base0": _simple(mod, S, "b0", 2), "base1": _simple(mod, S, "b1", 1)}
        comps, nested_inner = [], None
        for i, (placement, matrix) in enumerate(SHAPES[variant]):
            if placement == "nested":
                inner = mod.Glyph.__new__(mod.Glyph)
                inner.numberOfContours = -1
                nested_inner = _compo(mod, S, "in", "base1", "xy", True)
                inner.components = [nested_inner]
                table["inner"] = inner
                comps.append(_compo(mod, S, "c%d" % i, "inner", "xy", matrix))
            else:
                comps.append(_compo(mod, S, "c%d" % i, "base%d" % i, placement, matrix, pts=(1, 0)))
        g = mod.Glyph.__new__(mod.Glyph)
        g.numberOfContours = -1
        g.components = comps
        return dict(self=g, glyfTable=table, _comps=comps, _inner=nested_inner)

    def requires(self, a):
        # the format forbids both offset flags at once (the code asserts it)
        cs = [Not(And(c._bits[11], c._bits[12])) for c in a._comps if hasattr(c, "x")]
        if a._inner is not None:
            cs.append(Not(And(a._inner._bits[11], a._inner._bits[12])))
        return And(*cs)

    @staticmethod
    def _expected(a):
        pts, ends = [], []
        for c in a._comps:
            base = a.glyfTable[c.glyphName]
            if base.numberOfContours == -1:
                inner = base.components[0]
                sub = spec_place(a.glyfTable[inner.glyphName]._pts, inner, [])
                sub_ends = [len(sub) - 1]
            else:
                sub, sub_ends = list(base._pts), [len(base._pts) - 1]
            placed = spec_place(sub, c, pts)
            ends += [e + len(pts) for e in sub_ends]
            pts += placed
        return pts, ends

    @staticmethod
    def _post(a, r):
        coords, ends, flags = r
        want, want_ends = CompositeCoordinates._expected(a)
        if len(coords) != len(want) or list(ends) != want_ends or len(flags) != len(want):
            return False
        return And(*[And(eq(coords[i][0], want[i][0]), eq(coords[i][1], want[i][1])) for i in range(len(want))],
                   *[eq(f, 1) for f in flags])

    ensures = [prop("components-placed-per-OpenType-composite-rules", lambda a, old, r: CompositeCoordinates._post(a, r))]


# -- Glyph.draw / drawPoints: observers must not change the glyph -------------------------------------

@contract
class GlyphDrawIsAnObserver(Contract):
    """Glyph.draw and Glyph.drawPoints with a horizontal offset (the glyph set passes lsb - xMin) on
    a simple glyph with symbolic coordinates: the pen receives every point shifted by the offset,
    the glyph's own coordinates, flags and end points are unchanged afterwards, and a second draw
    delivers exactly what the first did (polygon of on-curve points; offset symbolic)."""
    module = "fontTools.ttLib.tables._g_l_y_f"
    qualname = "Glyph.draw"
    props = ("C14", "C05", "C16")
    rebind = staticmethod(_rebind)
    variants = ("triangle", "two-contours")
    level = "PF"
    assumptions = ("A-REAL",)

    def args(self, S, variant):
        mod = self.mod
        n = 3 if variant == "triangle" else 5
        g = mod.Glyph.__new__(mod.Glyph)
        pts = [(S.real("x%d" % i), S.real("y%d" % i)) for i in range(n)]
        g.numberOfContours = 1 if variant == "triangle" else 2
        g.coordinates = mod.GlyphCoordinates(pts)
        g.endPtsOfContours = [2] if variant == "triangle" else [2, 4]
        g.flags = mod.bytearray([1] * n)
        return dict(self=g, offset=S.real("offset"), _pts=pts, _n=n)

    def call(self, f, a):
        from fontTools.pens.recordingPen import RecordingPen, RecordingPointPen
        cls = type(a.self)
        r1, r2, rp = RecordingPen(), RecordingPen(), RecordingPointPen()
        f(a.self, r1, {}, a.offset)
        cls.drawPoints(a.self, rp, {}, a.offset)
        f(a.self, r2, {}, a.offset)
        return r1.value, r2.value, rp.value

    @staticmethod
    def _pen_points(value):
        return [p for op, pts in value for p in pts if p is not None]

    @staticmethod
    def _shifted(a, r):
        got = sorted(range(a._n))        # every input point appears exactly once, shifted
        pts = GlyphDrawIsAnObserver._pen_points(r[0])
        if len(pts) != a._n:
            return False
        # contour starts may be rotated: compare as multisets through a matching
        cs = []
        for x, y in a._pts:
            cs.append(Or(*[And(eq(p[0], x + a.offset), eq(p[1], y)) for p in pts]))
        return And(*cs)

    @staticmethod
    def _same_again(r):
        p1, p2 = GlyphDrawIsAnObserver._pen_points(r[0]), GlyphDrawIsAnObserver._pen_points(r[1])
        if [op for op, _ in r[0]] != [op for op, _ in r[1]] or len(p1) != len(p2):
            return False
        return And(*[And(eq(u[0], v[0]), eq(u[1], v[1])) for u, v in zip(p1, p2)])

    ensures = [
        prop("pen-receives-every-point-shifted-by-the-offset", lambda a, old, r: GlyphDrawIsAnObserver._shifted(a, r)),
        prop("glyph-unchanged-by-drawing", lambda a, old, r: And(
            len(a.self.coordinates) == a._n, list(a.self.endPtsOfContours) == list(old.self.endPtsOfContours),
            *[And(eq(a.self.coordinates[i][0], a._pts[i][0]), eq(a.self.coordinates[i][1], a._pts[i][1])) for i in range(a._n)])),
        prop("second-draw-equals-the-first", lambda a, old, r: GlyphDrawIsAnObserver._same_again(r)),
    ]


@contract
class ComponentInfoOffset(Contract):
    """GlyphComponent.getComponentInfo for EVERY integer offset and real 2x2 matrix, with
    SCALED_COMPONENT_OFFSET, with UNSCALED_COMPONENT_OFFSET, with neither, and without a matrix:
    the six-term transformation handed to pens places a point p of the base glyph exactly where
    Glyph.getCoordinates places it - at (p + offset) * M when the offset is scaled, at
    p * M + offset otherwise - so what is drawn is what is measured."""
    module = "fontTools.ttLib.tables._g_l_y_f"
    qualname = "GlyphComponent.getComponentInfo"
    props = ("C05", "C14")
    variants = ("scaled", "unscaled", "neither", "no-matrix", "no-flags-attribute")
    level = "P"
    assumptions = ("A-REAL",)

    def rebind(self):
        return _rebind()

    def args(self, S, variant):
        c = self.mod.GlyphComponent()
        c.glyphName = "base"
        c.x, c.y = S.int("x", -32768, 32767), S.int("y", -32768, 32767)
        m = None
        if variant != "no-matrix":
            m = [[S.real("xx"), S.real("xy")], [S.real("yx"), S.real("yy")]]
            c.transform = m
        if variant != "no-flags-attribute":
            c.flags = 0x4 | {"scaled": F_SCALED, "unscaled": F_UNSCALED}.get(variant, 0)
        return dict(self=c, _m=m, _p=(S.real("px"), S.real("py")), _v=variant)

    @staticmethod
    def _post(a, r):
        name, t = r
        if name != "base" or len(t) != 6:
            return False
        px, py = a._p
        x, y = a.self.x, a.self.y
        drawn = (px * t[0] + py * t[2] + t[4], px * t[1] + py * t[3] + t[5])
        if a._m is None:
            want = (px + x, py + y)
        else:
            (xx, xy), (yx, yy) = a._m
            scaled = a._v == "scaled" or (a._v in ("neither", "no-flags-attribute") and bool(a.self_mod_default))
            if scaled:
                want = ((px + x) * xx + (py + y) * yx, (px + x) * xy + (py + y) * yy)
            else:
                want = (px * xx + py * yx + x, px * xy + py * yy + y)
        return And(eq(drawn[0], want[0]), eq(drawn[1], want[1]))

    def call(self, f, a):
        a.self_mod_default = self.mod.SCALE_COMPONENT_OFFSET_DEFAULT
        return f(a.self)

    ensures = [prop("drawn-where-getCoordinates-puts-it", lambda a, old, r: ComponentInfoOffset._post(a, r))]
