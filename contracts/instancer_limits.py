"""Contracts on the instancer's tuple-variation limiting (C08), modular over rebaseTent's
contract (contracts/instancer_solver.py): what one TupleVariation contributed at a location
of the new range is what the returned variations contribute there."""
from fractions import Fraction
from types import SimpleNamespace

from pyvc.core import Contract, contract, prop, internal
from pyvc.spec import And, Or, Not, Implies, Ite, eq, floor
from pyvc import sym as _sym
from contracts.varlib_models import spec_region_axis_scalar
from contracts.instancer_solver import _mk_limit, limit_ok, tent_value


class RebaseStub:
    """rebaseTent used modularly: returns k solutions (k fixed per variant) with arbitrary
    non-zero scalars and arbitrary tents (first may be the tent-less 'gain'), ASSUMING its
    contract at the ghost point: sum_i scalar_i * T(w; tent_i) == T(v; tent)."""

    def __init__(self):
        self.k = 0
        self.gain = False
        self.point = None
        self.calls = []

    def rebaseTent(self, tent, axisLimit):
        cx = _sym.ctx()
        sols = []
        for i in range(self.k):
            s = cx.fresh_real("scalar")
            cx.assume_term(s.t != 0)
            if i == 0 and self.gain:
                t = None
            else:
                t = (cx.fresh_real("l"), cx.fresh_real("p"), cx.fresh_real("u"))
                cx.assume_term(t[1].t != 0)
            sols.append((s, t))
        v, w = self.point
        total = 0
        for s, t in sols:
            total = total + s * tent_value(w, t)
        cx.assume(eq(total, tent_value(v, tent)))
        self.calls.append((tent, axisLimit, sols))
        return sols


@contract
class ChangeTupleVariationAxisLimit(Contract):
    module = "fontTools.varLib.instancer"
    qualname = "changeTupleVariationAxisLimit"
    props = ("C08",)
    shadow_mode = "function"
    variants = tuple((k, g) for k in (0, 1, 2, 3) for g in (False, True) if not (k == 0 and g)) + (("absent", False), ("peak0", False), ("illformed", False))
    level = "PF"
    assumptions = ("A-REAL", "rebaseTent is used through its contract (proved separately: SolveExact, RebaseTentStructure, TentTransportLemma)")

    def rebind(self):
        self.stub = RebaseStub()
        return {"solver": self.stub}

    def args(self, S, variant):
        from fontTools.ttLib.tables.TupleVariation import TupleVariation

        kind, gain = variant
        v, w = S.real("v"), S.real("w")       # location on this axis: old coordinate v, new coordinate w
        o = S.real("other")                   # location on the other axis
        self.stub.k = kind if isinstance(kind, int) else 0
        self.stub.gain = gain
        self.stub.point = (v, w)
        self.stub.calls = []
        tent = (S.real("lower"), S.real("peak"), S.real("upper"))
        other = (S.real("ol"), S.real("op"), S.real("ou"))
        axes = {"oth": other}
        if kind != "absent":
            axes["wght"] = tent
        coords = [(S.real("dx0"), S.real("dy0")), (S.real("dx1"), S.real("dy1"))]
        var = TupleVariation(axes, coords)
        return dict(var=var, axisTag="wght", axisLimit=_mk_limit(S), _v=v, _w=w, _o=o, _tent=tent, _other=other,
                    _coords=list(coords), _kind=kind)

    def requires(self, a):
        l, p, u = a._tent
        base = limit_ok(a.axisLimit)
        if a._kind == "peak0":
            return And(base, eq(p, 0))
        if a._kind == "illformed":
            return And(base, Not(eq(p, 0)), Or(Not(And(l <= p, p <= u)), And(l < 0, u > 0)))
        return And(base, Not(eq(p, 0)), l <= p, p <= u, Not(And(l < 0, u > 0)))

    def call(self, f, a):
        return f(a.var, a.axisTag, a.axisLimit)

    @staticmethod
    def _contribution(var, w, o, c, xy):
        """delta_c * product of the OT scalars of its tents at (w on wght, o on the other axis)"""
        s = 1
        for tag, t in var.axes.items():
            s = s * spec_region_axis_scalar(w if tag == "wght" else o, *t)
        return var.coordinates[c][xy] * s

    @staticmethod
    def _post(a, r):
        cs = []
        for c in range(2):
            for xy in range(2):
                got = 0
                for nv in r:
                    got = got + ChangeTupleVariationAxisLimit._contribution(nv, a._w, a._o, c, xy)
                if a._kind in ("absent", "peak0"):
                    want = a._coords[c][xy] * spec_region_axis_scalar(a._o, *a._other)
                elif a._kind == "illformed":
                    want = 0
                else:
                    want = a._coords[c][xy] * spec_region_axis_scalar(a._v, *a._tent) * spec_region_axis_scalar(a._o, *a._other)
                cs.append(eq(got, want))
        # the other axis is never touched
        cs += [eq(nv.axes["oth"], a._other) for nv in r]
        return And(*cs)

    ensures = [prop("contribution-at-every-location-of-the-new-range-preserved", lambda a, old, r: ChangeTupleVariationAxisLimit._post(a, r))]


# -- axis limit helpers ----------------------------------------------------------------------------

@contract
class LimitRangeAndPopulateDefaults(Contract):
    """AxisTriple.limitRangeAndPopulateDefaults: the result lies inside the fvar range, is
    ordered, keeps the requested values where they are inside the range, and takes the fvar
    default clamped into the new range when no default was requested."""
    module = "fontTools.varLib.instancer"
    qualname = "AxisTriple.limitRangeAndPopulateDefaults"
    props = ("C08",)
    shadow_mode = "real"
    variants = ("full", "no-default", "only-min", "only-max", "none")
    level = "PF"
    assumptions = ("A-REAL",)

    def args(self, S, variant):
        from fontTools.varLib.instancer import AxisTriple

        mn = S.real("min") if variant in ("full", "no-default", "only-min") else None
        df = S.real("default") if variant == "full" else None
        mx = S.real("max") if variant in ("full", "no-default", "only-max") else None
        t = AxisTriple.__new__(AxisTriple)
        for k, v in (("minimum", mn), ("default", df), ("maximum", mx)):
            object.__setattr__(t, k, v)
        return dict(self=t, fvarTriple=(S.real("fmin"), S.real("fdef"), S.real("fmax")))

    def requires(self, a):
        f = a.fvarTriple
        cs = [f[0] <= f[1], f[1] <= f[2]]
        t = a.self
        if t.minimum is not None and t.maximum is not None:
            cs.append(t.minimum <= t.maximum)
        if t.default is not None:
            cs += [t.minimum <= t.default, t.default <= t.maximum]
        return And(*cs)

    ensures = [prop("inside-fvar-range-ordered-and-faithful", lambda a, old, r: And(
        a.fvarTriple[0] <= r.minimum, r.minimum <= r.default, r.default <= r.maximum, r.maximum <= a.fvarTriple[2],
        True if a.self.minimum is None else Implies(And(a.fvarTriple[0] <= a.self.minimum, a.self.minimum <= a.fvarTriple[2]), eq(r.minimum, a.self.minimum)),
        True if a.self.maximum is None else Implies(And(a.fvarTriple[0] <= a.self.maximum, a.self.maximum <= a.fvarTriple[2]), eq(r.maximum, a.self.maximum)),
        True if a.self.minimum is not None else eq(r.minimum, a.fvarTriple[0]),
        True if a.self.maximum is not None else eq(r.maximum, a.fvarTriple[2]),
        True if a.self.default is not None else Implies(And(r.minimum <= a.fvarTriple[1], a.fvarTriple[1] <= r.maximum), eq(r.default, a.fvarTriple[1]))))]


# -- instantiateTupleVariationStore: merging, rounding, default deltas ---------------------------------

_TENTS = {
    "w": {"wght": (0, 1.0, 1.0)},
    "w2": {"wght": (0, 0.5, 1.0)},
    "d": {"wdth": (0, 1.0, 1.0)},
    "wd": {"wght": (0, 1.0, 1.0), "wdth": (0, 1.0, 1.0)},
    "pinned": {},
}
# what changeTupleVariationsAxisLimits hands over (its own contract: ChangeTupleVariationAxisLimit):
# lists of tuples named by their remaining tents; equal names must be merged
MERGE_CASES = {
    "distinct": ["w", "d", "wd"],
    "two-equal": ["w", "d", "w"],
    "three-equal": ["w2", "w2", "w2"],
    "with-default": ["pinned", "w", "pinned"],
    "only-default": ["pinned", "pinned"],
    "interleaved": ["w", "pinned", "d", "w", "d"],
    "empty": [],
}


@contract
class InstantiateTupleVariationStoreMerge(Contract):
    """instantiateTupleVariationStore after the axis limits were applied (callee stubbed by its
    result): tuples with identical remaining tents are merged by adding their deltas point by
    point, kept in first-occurrence order; tuples with no axes left are removed and their summed
    deltas returned unrounded; every kept delta is rounded once, after summing (so the stored
    value is within 1/2 of the exact sum); the list is updated in place.  cvar-style scalar
    deltas (None = no adjustment) and gvar-style (x, y) deltas."""
    module = "fontTools.varLib.instancer"
    qualname = "instantiateTupleVariationStore"
    props = ("C08",)
    shadow_mode = "function"
    variants = tuple((k, w) for k in MERGE_CASES for w in (1, 2))
    level = "PF"
    assumptions = ("A-REAL", "changeTupleVariationsAxisLimits is used through its result (contract ChangeTupleVariationAxisLimit)")

    def rebind(self):
        outer = self
        return {"changeTupleVariationsAxisLimits": lambda variations, axisLimits: list(outer._after)}

    # TupleVariation.roundDeltas lives in another module: its otRound is pointed at the rounding
    # model (identical on concrete numbers) for the duration of the run
    def setup(self):
        import fontTools.ttLib.tables.TupleVariation as tv
        from pyvc.models import round_tools
        self._saved = tv.otRound
        tv.otRound = round_tools().otRound

    def teardown(self):
        import fontTools.ttLib.tables.TupleVariation as tv
        tv.otRound = self._saved

    def args(self, S, variant):
        from fontTools.ttLib.tables.TupleVariation import TupleVariation
        case, width = variant
        names = MERGE_CASES[case]
        npts = 3 if width == 1 else 2
        vs, raw = [], []
        for i, nm in enumerate(names):
            if width == 1:
                # the first delta is a concrete float: TupleVariation.getCoordWidth() decides the
                # flavour by type(firstDelta) in (int, float), which a proxy cannot satisfy
                coords = [i + 0.25] + [S.real("v%d_%d" % (i, j)) for j in range(1, npts)]
                if i == 1:
                    coords[-1] = None          # cvar: None means "no adjustment"
            else:
                coords = [(S.real("x%d_%d" % (i, j)), S.real("y%d_%d" % (i, j))) for j in range(npts)]
            raw.append(list(coords))
            vs.append(TupleVariation(dict(_TENTS[nm]), list(coords)))
        self._after = vs
        original = [TupleVariation({"wght": (0, 1.0, 1.0)}, [0] * npts if width == 1 else [(0, 0)] * npts)]
        return dict(variations=original, axisLimits={}, _names=names, _raw=raw, _width=width, _npts=npts)

    @staticmethod
    def _sum(a, group, j, k=None):
        vals = []
        for i in group:
            d = a._raw[i][j]
            if d is None:
                continue
            vals.append(d if k is None else d[k])
        if not vals:
            return None
        t = 0
        for v in vals:
            t = t + v
        return t

    @staticmethod
    def _post(a, r):
        groups = {}
        for i, nm in enumerate(a._names):
            groups.setdefault(nm, []).append(i)
        kept = [nm for nm in groups if nm != "pinned"]
        out = a.variations
        if [dict(v.axes) for v in out] != [_TENTS[nm] for nm in kept]:
            return False
        cs = []
        half = Fraction(1, 2)
        for v, nm in zip(out, kept):
            for j in range(a._npts):
                if a._width == 1:
                    want = InstantiateTupleVariationStoreMerge._sum(a, groups[nm], j)
                    got = v.coordinates[j]
                    if want is None:
                        if got is not None:
                            return False
                        continue
                    cs.append(And(got - want <= half, want - got < half + Fraction(1, 10 ** 9), eq(got, floor(got))))
                else:
                    for k in (0, 1):
                        want = InstantiateTupleVariationStoreMerge._sum(a, groups[nm], j, k)
                        got = v.coordinates[j][k]
                        cs.append(And(got - want <= half, want - got <= half, eq(got, floor(got))))
        if "pinned" in groups:
            if len(r) != a._npts:
                return False
            for j in range(a._npts):
                if a._width == 1:
                    want = InstantiateTupleVariationStoreMerge._sum(a, groups["pinned"], j)
                    cs.append(r[j] is None if want is None else eq(r[j], want))
                else:
                    cs += [eq(r[j][k], InstantiateTupleVariationStoreMerge._sum(a, groups["pinned"], j, k)) for k in (0, 1)]
        else:
            cs.append(len(r) == 0)
        return And(*cs)

    ensures = [prop("merged-by-tents-rounded-once-default-returned", lambda a, old, r: InstantiateTupleVariationStoreMerge._post(a, r))]
