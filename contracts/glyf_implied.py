"""dropImpliedOnCurvePoints (C10, C05): with several interpolatable masters an on-curve point is
dropped only when it is impliable in EVERY simple master - flags symbolic, the geometric test
(_is_mid_point) an uninterpreted predicate per (master, point), any number of masters up to 3,
skipped (empty / composite) glyphs anywhere - and the dropping renumbers contours consistently
in every master."""
from pyvc.core import Contract, contract, prop, internal
from pyvc.models import std
from pyvc.spec import And, Or, Not, Implies, Ite, eq

LAYOUTS = {"4": [4], "5": [5], "3+3": [3, 3], "2+4": [2, 4], "1+3": [1, 3]}


def _val(x):
    c = getattr(x, "concrete", None)
    return x if c is None else c()


@contract
class DropImpliedOnCurvePoints(Contract):
    """The result is exactly {i : flags[i] on-curve, both neighbours (cyclically, within the
    contour) off-curve with equal flags, and mid(m, i) for EVERY simple master m}; each simple
    master keeps exactly its other points in order, all get the same new flags and end points,
    skipped glyphs are not touched, and nothing is modified when the set is empty."""
    module = "fontTools.ttLib.tables._g_l_y_f"
    qualname = "dropImpliedOnCurvePoints"
    props = ("C10", "C05")
    rebind = staticmethod(lambda: std("array", "len"))
    variants = tuple((lay, m, skip) for lay in LAYOUTS for m, skip in ((1, None), (2, None), (3, None), (2, "first"), (2, "middle"), (1, "only")))
    level = "PF"

    def variants_for(self, tier):
        # 5- and 6-point layouts take ~90 s together (3 flag values per point); quick keeps the 4-point ones
        return tuple(v for v in self.variants if v[0] in ("4", "1+3")) if tier == "quick" else self.variants

    assumptions = ("_is_mid_point is used as an uninterpreted deterministic predicate of (master, point): its geometry (exact or after rounding) is not under contract",)

    def args(self, S, variant):
        lay, m, skip = variant
        mod = self.mod
        sizes = LAYOUTS[lay]
        n = sum(sizes)
        ends, acc = [], -1
        for k in sizes:
            acc += k
            ends.append(acc)
        flags = [S.int("flag%d" % i, 0, 0x80) for i in range(n)]
        mids = {}

        def is_mid(p0, p1, p2):
            key = (int(_val(p1[1])), int(_val(p1[0])))
            if key not in mids:
                mids[key] = S.bool("mid_m%d_p%d" % key)
            return mids[key]
        mod._is_mid_point = is_mid
        glyphs, simple = [], []
        order = list(range(m))
        for k in order:
            g = mod.Glyph.__new__(mod.Glyph)
            g.numberOfContours = len(sizes)
            g.coordinates = mod.GlyphCoordinates([(i, k) for i in range(n)])
            g.flags = mod.array.array("B", list(flags))
            g.endPtsOfContours = list(ends)
            glyphs.append(g)
            simple.append(g)
        if skip:
            e = mod.Glyph.__new__(mod.Glyph)
            e.numberOfContours = -1 if skip == "middle" else 0
            e.components = ["sentinel"]
            pos = {"first": 0, "middle": 1, "only": 0}[skip]
            if skip == "only":
                glyphs = [e]
                simple = []
            else:
                glyphs.insert(pos, e)
        return dict(glyphs=glyphs, _simple=simple, _flags=flags, _sizes=sizes, _n=n, _mids=mids, _S=S,
                    _skipped=[g for g in glyphs if g.numberOfContours < 1])

    def requires(self, a):
        return And(*[Or(eq(f, 0), eq(f, 1), eq(f, 0x80)) for f in a._flags])

    def call(self, f, a):
        return f(*a.glyphs)

    @staticmethod
    def _want(a):
        """point -> symbolic 'is dropped'"""
        want, start = {}, 0
        fl = a._flags
        masters = [int(_val(g_k)) for g_k in range(len(a._simple))]
        for k in a._sizes:
            last = start + k - 1
            for i in range(start, last + 1):
                prv = i - 1 if i > start else last
                nxt = i + 1 if i < last else start
                cand = And(eq(fl[i], 1), Not(eq(fl[prv], 1)), eq(fl[prv], fl[nxt]))
                ms = []
                for m in masters:
                    key = (m, i)
                    if key not in a._mids:
                        a._mids[key] = a._S.bool("mid_m%d_p%d" % key)
                    ms.append(a._mids[key])
                want[i] = And(cand, *ms) if a._simple else False
            start = last + 1
        return want

    @staticmethod
    def _result(a, r):
        want = DropImpliedOnCurvePoints._want(a)
        return And(isinstance(r, set), all(isinstance(i, int) for i in r), *[eq(i in r, want[i]) for i in range(a._n)])

    @staticmethod
    def _after(a, old, r):
        keep = [i for i in range(a._n) if i not in r]
        new_ends, start, kept = [], 0, 0
        for k in a._sizes:
            kept += sum(1 for i in range(start, start + k) if i not in r)
            new_ends.append(kept - 1)
            start += k
        cs = []
        for m, g in enumerate(a._simple):
            cs.append([tuple(float(_val(c)) for c in p) for p in g.coordinates] == [(float(i), float(m)) for i in keep])
            cs.append(len(g.flags) == len(keep))
            cs.append(And(*[eq(x, a._flags[i]) for x, i in zip(g.flags, keep)]) if len(g.flags) == len(keep) else False)
            cs.append(list(g.endPtsOfContours) == new_ends)
            cs.append(g.numberOfContours == len(a._sizes))
        for g, o in zip(a._skipped, old._skipped):
            cs.append(vars(g).keys() == vars(o).keys() and g.numberOfContours == o.numberOfContours and g.components == ["sentinel"])
        return And(*cs)

    ensures = [
        prop("dropped-exactly-the-points-impliable-in-every-master", lambda a, old, r: DropImpliedOnCurvePoints._result(a, r)),
        prop("every-master-keeps-the-other-points-and-consistent-contours", lambda a, old, r: DropImpliedOnCurvePoints._after(a, old, r)),
    ]
