"""The otData-driven table machinery end to end (C02, C01, C06): BaseTable.compile through the
real converters and OTTableWriter.getAllData to bytes, and OTTableReader / BaseTable.decompile
back, for small layout structures whose FIELD VALUES are symbolic: Anchor formats 1-2,
CaretValue formats 1-2, AttachPoint, a SinglePos with a ValueRecord, a PairPos format 1 with two
pair sets.  Clauses: an independent reading of the bytes at the offsets the OpenType layout
prescribes gives the field values, and decompile gives the same object back.

The real modules are used as imported; for the duration of a run their module-level `struct`,
`array` and `bytesjoin` names are pointed at the byte-string models (which delegate to the real
functions on concrete arguments)."""
from pyvc.core import Contract, contract, prop, internal
from pyvc.models import std, SymBytes
from pyvc.spec import And, Or, Not, Implies, Ite, eq
from pyvc.sym import SymNum


def _items(b):
    return list(b.items) if isinstance(b, SymBytes) else list(b)


def u16(b, o):
    return b[o] * 256 + b[o + 1]


def s16(b, o):
    v = u16(b, o)
    return Ite(v >= 32768, v - 65536, v)


class _Cfg(dict):
    def __missing__(self, k):
        # every option at "off / default"; in particular the HarfBuzz repacker is not used (python3-vt has no uharfbuzz)
        return False


class _Font:
    lazy = False
    cfg = _Cfg()

    def __init__(self, order):
        self.order = list(order)

    def __contains__(self, tag):
        return False

    def get(self, tag, default=None):
        return default

    def getGlyphID(self, name):
        return self.order.index(name)

    def getGlyphName(self, gid):
        return self.order[gid]

    def getGlyphIDMany(self, names):
        return [self.order.index(n) for n in names]

    def getGlyphNameMany(self, gids):
        return [self.order[g] for g in gids]

    def getGlyphOrder(self):
        return self.order


_ABSENT = object()


class _Patched:
    PATCH = (("fontTools.ttLib.tables.otBase", ("struct", "array", "bytesjoin", "Tag")),
             ("fontTools.ttLib.tables.otConverters", ("struct", "bytesjoin")))

    def setup(self):
        import importlib
        from fontTools.misc.textTools import Tag as _RealTag

        def Tag(x):
            # tags are always concrete bytes, even when they are sliced out of a byte string that
            # has symbolic bytes elsewhere
            if isinstance(x, SymBytes):
                c = x.concrete()
                if c is not None:
                    x = c
            return _RealTag(x)
        models = dict(std("struct", "array", "bytesjoin", "int", "len"), Tag=Tag)
        self._saved = []
        for modname, names in self.PATCH:
            m = importlib.import_module(modname)
            for n in names:
                self._saved.append((m, n, m.__dict__.get(n, _ABSENT)))      # builtins such as int are shadowed by a module global
                setattr(m, n, models[n])
        # fixed-point conversions used by the Fixed / F2Dot14 converters
        from pyvc.models import fixed_tools
        ft = fixed_tools()
        m = importlib.import_module("fontTools.ttLib.tables.otConverters")
        for n, v in (("fl2fi", ft.floatToFixed), ("fi2fl", ft.fixedToFloat)):
            self._saved.append((m, n, m.__dict__.get(n, _ABSENT)))
            setattr(m, n, v)

    def teardown(self):
        for m, n, v in self._saved:
            if v is _ABSENT:
                m.__dict__.pop(n, None)
            else:
                setattr(m, n, v)


def _compile(table, font, tag="GPOS"):
    from fontTools.ttLib.tables.otBase import OTTableWriter
    w = OTTableWriter(tableTag=tag)
    table.compile(w, font)
    return w.getAllData()


def _decompile(cls, data, font, tag="GPOS"):
    from fontTools.ttLib.tables.otBase import OTTableReader
    t = cls()
    t.decompile(OTTableReader(data, tableTag=tag), font)
    t.ensureDecompiled(recurse=True)
    return t


SHAPES = ("anchor1", "anchor2", "caret1", "caret2", "attachpoint", "singlepos1", "pairpos1", "classdef", "device", "markarray")


@contract
class GenericTableRoundTrip(_Patched, Contract):
    module = "fontTools.ttLib.tables.otBase"
    qualname = "BaseTable.compile"
    props = ("C02", "C01", "C06")
    shadow_mode = "real"
    variants = SHAPES
    level = "PF"
    max_paths = 20000

    def args(self, S, variant):
        from fontTools.ttLib.tables import otTables as ot
        font = _Font([".notdef", "A", "B", "C", "D"])
        i16 = lambda n: S.int(n, -32768, 32767)
        u16_ = lambda n: S.int(n, 0, 65535)
        v = variant
        if v.startswith("anchor"):
            t = ot.Anchor()
            t.Format = int(v[-1])
            t.XCoordinate, t.YCoordinate = i16("x"), i16("y")
            if t.Format == 2:
                t.AnchorPoint = u16_("pt")
        elif v.startswith("caret"):
            t = ot.CaretValue()
            t.Format = int(v[-1])
            if t.Format == 1:
                t.Coordinate = i16("c")
            else:
                t.CaretValuePoint = u16_("pt")
        elif v == "attachpoint":
            t = ot.AttachPoint()
            t.PointIndex = [u16_("p0"), u16_("p1"), u16_("p2")]
        elif v == "classdef":
            t = ot.ClassDef()
            t.classDefs = {g: S.int("class_" + g, 1, 3) for g in ("A", "B", "D")}
        elif v == "device":
            t = ot.Device()
            t.StartSize, t.EndSize, t.DeltaFormat = 12, 16, 2
            t.DeltaValue = [S.int("delta%d" % i, -8, 7) for i in range(5)]
        elif v == "markarray":
            t = ot.MarkArray()
            t.MarkRecord = []
            for i in range(2):
                mr = ot.MarkRecord()
                mr.Class = u16_("markclass%d" % i)
                mr.MarkAnchor = ot.Anchor()
                mr.MarkAnchor.Format = 1
                mr.MarkAnchor.XCoordinate, mr.MarkAnchor.YCoordinate = i16("mx%d" % i), i16("my%d" % i)
                t.MarkRecord.append(mr)
        elif v == "singlepos1":
            t = ot.SinglePos()
            t.Format = 1
            t.Coverage = ot.Coverage()
            t.Coverage.glyphs = ["A", "C"]
            t.ValueFormat = 5          # XPlacement | XAdvance
            t.Value = ot.ValueRecord()
            t.Value.XPlacement, t.Value.XAdvance = i16("xpla"), i16("xadv")
        else:
            t = ot.PairPos()
            t.Format = 1
            t.Coverage = ot.Coverage()
            t.Coverage.glyphs = ["A", "B"]
            t.ValueFormat1, t.ValueFormat2 = 4, 0
            t.PairSet = []
            for first, seconds in (("A", ["B", "C"]), ("B", ["D"])):
                ps = ot.PairSet()
                ps.PairValueRecord = []
                for sec in seconds:
                    r = ot.PairValueRecord()
                    r.SecondGlyph = sec
                    r.Value1 = ot.ValueRecord()
                    r.Value1.XAdvance = i16("kern_%s%s" % (first, sec))
                    r.Value2 = None
                    ps.PairValueRecord.append(r)
                ps.PairValueCount = len(seconds)
                t.PairSet.append(ps)
            t.PairSetCount = 2
        return dict(self=t, font=font, _shape=v)

    def call(self, f, a):
        from fontTools.ttLib.tables import otTables as ot
        if a._shape in ("singlepos1", "pairpos1"):
            # GPOS subtables are written inside their Lookup (which carries the LookupType)
            lk = ot.Lookup()
            lk.LookupType = 1 if a._shape == "singlepos1" else 2
            lk.LookupFlag = 0
            lk.SubTable = [a.self]
            data = _compile(lk, a.font)
            back = _decompile(ot.Lookup, data, a.font)
            b = _items(data)
            ok = And(eq(u16(b, 0), lk.LookupType), eq(u16(b, 2), 0), eq(u16(b, 4), 1), eq(u16(b, 6), 8))
            return SymBytes(b[8:]), back.SubTable[0], ok
        data = _compile(a.self, a.font)
        back = _decompile(type(a.self), data, a.font)
        return data, back, True

    @staticmethod
    def _layout(a, r):
        b = _items(r[0])
        t, v = a.self, a._shape
        if v == "anchor1":
            return And(len(b) == 6, eq(u16(b, 0), 1), eq(s16(b, 2), t.XCoordinate), eq(s16(b, 4), t.YCoordinate))
        if v == "anchor2":
            return And(len(b) == 8, eq(u16(b, 0), 2), eq(s16(b, 2), t.XCoordinate), eq(s16(b, 4), t.YCoordinate), eq(u16(b, 6), t.AnchorPoint))
        if v == "caret1":
            return And(len(b) == 4, eq(u16(b, 0), 1), eq(s16(b, 2), t.Coordinate))
        if v == "caret2":
            return And(len(b) == 4, eq(u16(b, 0), 2), eq(u16(b, 2), t.CaretValuePoint))
        if v == "attachpoint":
            return And(len(b) == 8, eq(u16(b, 0), 3), *[eq(u16(b, 2 + 2 * i), p) for i, p in enumerate(t.PointIndex)])
        if v == "classdef":
            return GenericTableRoundTrip._classdef(a, b)
        if v == "device":
            # StartSize, EndSize, DeltaFormat 2 (4-bit signed fields, big-endian in 16-bit words)
            words = [u16(b, 6), u16(b, 8)]
            cs = [len(b) == 10, eq(u16(b, 0), 12), eq(u16(b, 2), 16), eq(u16(b, 4), 2)]
            for i, d in enumerate(t.DeltaValue):
                w, sh = words[i // 4], 12 - 4 * (i % 4)
                nib = (w // (1 << sh)) % 16
                cs.append(eq(Ite(nib >= 8, nib - 16, nib), d))
            return And(*cs)
        if v == "markarray":
            cs = [eq(u16(b, 0), 2)]
            for i, mr in enumerate(t.MarkRecord):
                off = u16(b, 2 + 4 * i + 2)
                offc = off if isinstance(off, int) else off.concrete()
                if offc is None or offc + 6 > len(b):
                    return False
                cs += [eq(u16(b, 2 + 4 * i), mr.Class), eq(u16(b, offc), 1), eq(s16(b, offc + 2), mr.MarkAnchor.XCoordinate),
                       eq(s16(b, offc + 4), mr.MarkAnchor.YCoordinate)]
            return And(*cs)
        if v == "singlepos1":
            # posFormat 1, coverage offset, valueFormat, XPlacement, XAdvance; then a Coverage table listing glyphs 1 and 3
            cov = u16(b, 2)
            covc = cov if isinstance(cov, int) else cov.concrete()
            if covc is None or covc + 8 > len(b):
                return False
            return And(eq(u16(b, 0), 1), eq(u16(b, 4), 5), eq(s16(b, 6), t.Value.XPlacement), eq(s16(b, 8), t.Value.XAdvance),
                       covc == 10, eq(u16(b, covc), 1), eq(u16(b, covc + 2), 2), eq(u16(b, covc + 4), 1), eq(u16(b, covc + 6), 3))
        # pairpos1: format, coverage offset, valueFormat1, valueFormat2, pairSetCount, pairSet offsets
        def conc(x):
            return x if isinstance(x, int) else x.concrete()
        cov, ps0, ps1 = conc(u16(b, 2)), conc(u16(b, 10)), conc(u16(b, 12))
        if None in (cov, ps0, ps1):
            return False
        kern = {(f, s): rec.Value1.XAdvance for f, ps in zip("AB", t.PairSet) for rec, s in zip(ps.PairValueRecord, ("BC" if f == "A" else "D"))}
        return And(eq(u16(b, 0), 1), eq(u16(b, 4), 4), eq(u16(b, 6), 0), eq(u16(b, 8), 2),
                   # Coverage: format 1, two glyphs 1 (A) and 2 (B)
                   eq(u16(b, cov), 1), eq(u16(b, cov + 2), 2), eq(u16(b, cov + 4), 1), eq(u16(b, cov + 6), 2),
                   # PairSet of A: two records (B=2, C=3) each glyph id + XAdvance
                   eq(u16(b, ps0), 2), eq(u16(b, ps0 + 2), 2), eq(s16(b, ps0 + 4), kern[("A", "B")]), eq(u16(b, ps0 + 6), 3), eq(s16(b, ps0 + 8), kern[("A", "C")]),
                   # PairSet of B: one record (D=4)
                   eq(u16(b, ps1), 1), eq(u16(b, ps1 + 2), 4), eq(s16(b, ps1 + 4), kern[("B", "D")]))

    @staticmethod
    def _classdef(a, b):
        """OpenType ClassDef lookup (format 1: class array from a start glyph; format 2: ranges) of
        every glyph id 0..4 in the compiled bytes"""
        order = a.font.order
        want = {order.index(g): c for g, c in a.self.classDefs.items()}
        fmt = u16(b, 0)
        fmtc = fmt if isinstance(fmt, int) else fmt.concrete()
        cs = []
        for gid in range(len(order)):
            if fmtc == 1:
                start, n = u16(b, 2), (len(b) - 6) // 2
                cls = 0
                for i in range(n):
                    cls = Ite(eq(start + i, gid), u16(b, 6 + 2 * i), cls)
                cs.append(eq(u16(b, 4), n))
            elif fmtc == 2:
                n = (len(b) - 4) // 6
                cls = 0
                for i in range(n):
                    o = 4 + 6 * i
                    cls = Ite(And(u16(b, o) <= gid, gid <= u16(b, o + 2)), u16(b, o + 4), cls)
                cs.append(eq(u16(b, 2), n))
            else:
                return False
            cs.append(eq(cls, want.get(gid, 0)))
        return And(*cs)

    @staticmethod
    def _same(a, r):
        t, u, v = a.self, r[1], a._shape
        if v == "classdef":
            return And(sorted(u.classDefs) == sorted(t.classDefs), *[eq(u.classDefs[g], c) for g, c in t.classDefs.items()])
        if v == "device":
            return And(u.StartSize == 12, u.EndSize == 16, u.DeltaFormat == 2, len(u.DeltaValue) == 5, *[eq(x, y) for x, y in zip(u.DeltaValue, t.DeltaValue)])
        if v == "markarray":
            return And(len(u.MarkRecord) == 2, *[And(eq(x.Class, y.Class), eq(x.MarkAnchor.XCoordinate, y.MarkAnchor.XCoordinate),
                                                     eq(x.MarkAnchor.YCoordinate, y.MarkAnchor.YCoordinate)) for x, y in zip(u.MarkRecord, t.MarkRecord)])
        if v.startswith("anchor"):
            cs = [eq(u.XCoordinate, t.XCoordinate), eq(u.YCoordinate, t.YCoordinate), u.Format == t.Format]
            if t.Format == 2:
                cs.append(eq(u.AnchorPoint, t.AnchorPoint))
            return And(*cs)
        if v == "caret1":
            return And(u.Format == 1, eq(u.Coordinate, t.Coordinate))
        if v == "caret2":
            return And(u.Format == 2, eq(u.CaretValuePoint, t.CaretValuePoint))
        if v == "attachpoint":
            return And(len(u.PointIndex) == 3, *[eq(x, y) for x, y in zip(u.PointIndex, t.PointIndex)])
        if v == "singlepos1":
            return And(u.Format == 1, u.Coverage.glyphs == ["A", "C"], u.ValueFormat == 5,
                       eq(u.Value.XPlacement, t.Value.XPlacement), eq(u.Value.XAdvance, t.Value.XAdvance))
        pairs = lambda x: [(f, rec.SecondGlyph, rec.Value1.XAdvance) for f, ps in zip(x.Coverage.glyphs, x.PairSet) for rec in ps.PairValueRecord]
        pu, pt = pairs(u), pairs(t)
        return And(len(pu) == len(pt), *[And(x[0] == y[0], x[1] == y[1], eq(x[2], y[2])) for x, y in zip(pu, pt)])

    ensures = [
        prop("bytes-read-at-the-prescribed-offsets-give-the-fields", lambda a, old, r: And(r[2], GenericTableRoundTrip._layout(a, r))),
        prop("decompile-gives-the-same-table-back", lambda a, old, r: GenericTableRoundTrip._same(a, r)),
    ]


# -- whole tables: object model -> bytes -> object model --------------------------------------------------

def _deep_eq(x, y, path="", depth=0):
    """list of spec clauses stating that two object models are equal (numbers by value)"""
    from fontTools.ttLib.tables.otBase import BaseTable, ValueRecord
    if depth > 30:
        return [False]
    if isinstance(x, (BaseTable, ValueRecord)) or isinstance(y, (BaseTable, ValueRecord)):
        if type(x) is not type(y):
            return [False]
        skip = ("reader", "font", "tableTag")
        # absent, None and an empty list are the same content (e.g. AxisRecord.MoreBytes == [] after decompile)
        def empty(v):
            return v is None or (isinstance(v, list) and not v)
        dx = {k: v for k, v in vars(x).items() if k not in skip and not k.endswith("Count") and not empty(v)}
        dy = {k: v for k, v in vars(y).items() if k not in skip and not k.endswith("Count") and not empty(v)}
        if sorted(dx) != sorted(dy):
            return [False]
        out = []
        for k in dx:
            out += _deep_eq(dx[k], dy[k], path + "." + k, depth + 1)
        return out
    if isinstance(x, (list, tuple)) and isinstance(y, (list, tuple)):
        if len(x) != len(y):
            return [False]
        out = []
        for i, (p, q) in enumerate(zip(x, y)):
            out += _deep_eq(p, q, "%s[%d]" % (path, i), depth + 1)
        return out
    if isinstance(x, dict) and isinstance(y, dict):
        if sorted(x, key=repr) != sorted(y, key=repr):
            return [False]
        out = []
        for k in x:
            out += _deep_eq(x[k], y[k], "%s[%r]" % (path, k), depth + 1)
        return out
    if isinstance(x, str) or isinstance(y, str) or x is None or y is None:
        return [x == y]
    return [eq(x, y)]


WHOLE = ("gpos-kern-classes", "gpos-mark-base", "gdef", "gsub-mixed", "stat", "hvar")


@contract
class WholeTableRoundTrip(_Patched, Contract):
    """Complete GPOS / GDEF / GSUB tables built in memory (script and feature lists, lookups with
    class-based kerning, mark-to-base attachment, ligature carets, single / multiple / ligature
    substitution) with every numeric value symbolic: the table compiled by the real machinery and
    decompiled again is the same object model - field by field, recursively - and compiling the
    decompiled table gives the same bytes (second-generation fixed point)."""
    module = "fontTools.ttLib.tables.otBase"
    qualname = "BaseTTXConverter.compile"
    props = ("C01", "C02", "C06")
    shadow_mode = "real"
    variants = WHOLE
    level = "PF"
    max_paths = 20000
    deadline_s = 300

    def args(self, S, variant):
        from fontTools.ttLib.tables import otTables as ot
        from fontTools.ttLib import newTable
        font = _Font([".notdef", "A", "B", "C", "D", "E"])
        i16 = lambda n: S.int(n, -32768, 32767)

        def scripts_features(table, tags, nlookups):
            table.ScriptList = ot.ScriptList()
            sr = ot.ScriptRecord()
            sr.ScriptTag = "DFLT"
            sr.Script = ot.Script()
            sr.Script.DefaultLangSys = ot.DefaultLangSys()
            sr.Script.DefaultLangSys.ReqFeatureIndex = 0xFFFF
            sr.Script.DefaultLangSys.FeatureIndex = list(range(len(tags)))
            sr.Script.DefaultLangSys.LookupOrder = None
            sr.Script.LangSysRecord = []
            table.ScriptList.ScriptRecord = [sr]
            table.FeatureList = ot.FeatureList()
            table.FeatureList.FeatureRecord = []
            for i, tag in enumerate(tags):
                fr = ot.FeatureRecord()
                fr.FeatureTag = tag
                fr.Feature = ot.Feature()
                fr.Feature.FeatureParams = None
                fr.Feature.LookupListIndex = [i % nlookups]
                table.FeatureList.FeatureRecord.append(fr)

        def anchor(tag):
            a = ot.Anchor()
            a.Format = 1
            a.XCoordinate, a.YCoordinate = i16(tag + "x"), i16(tag + "y")
            return a

        fixed = lambda n: (lambda k: k / 65536 if S.concrete else SymNum(k.real() / 65536))(S.int(n, -2 ** 31, 2 ** 31 - 1))
        f2dot14 = lambda n: (lambda k: k / 16384 if S.concrete else SymNum(k.real() / 16384))(S.int(n, -16384, 16384))
        if variant == "stat":
            t = ot.STAT()
            t.Version = 0x00010001
            t.DesignAxisRecordSize = 8
            t.DesignAxisRecord = ot.AxisRecordArray()
            t.DesignAxisRecord.Axis = []
            for i, tg in enumerate(("wght", "wdth")):
                ar = ot.AxisRecord()
                ar.AxisTag, ar.AxisNameID, ar.AxisOrdering = tg, S.int("axname%d" % i, 0, 65535), i
                t.DesignAxisRecord.Axis.append(ar)
            t.DesignAxisCount = 2
            t.AxisValueArray = ot.AxisValueArray()
            vals = []
            av = ot.AxisValue(); av.Format, av.AxisIndex, av.Flags, av.ValueNameID, av.Value = 1, 0, S.int("fl1", 0, 3), 256, fixed("v1")
            vals.append(av)
            av = ot.AxisValue(); av.Format, av.AxisIndex, av.Flags, av.ValueNameID = 2, 1, 0, 257
            av.NominalValue, av.RangeMinValue, av.RangeMaxValue = fixed("nom"), fixed("rmin"), fixed("rmax")
            vals.append(av)
            av = ot.AxisValue(); av.Format, av.AxisIndex, av.Flags, av.ValueNameID, av.Value, av.LinkedValue = 3, 0, 0, 258, fixed("v3"), fixed("link")
            vals.append(av)
            t.AxisValueArray.AxisValue = vals
            t.AxisValueCount = 3
            t.ElidedFallbackNameID = S.int("elided", 0, 65535)
            tag = "STAT"
        elif variant == "hvar":
            t = ot.HVAR()
            t.Version = 0x00010000
            vs = ot.VarStore()
            vs.Format = 1
            vs.VarRegionList = ot.VarRegionList()
            vs.VarRegionList.RegionAxisCount = 1
            vs.VarRegionList.Region = []
            for i in range(2):
                reg = ot.VarRegion()
                axr = ot.VarRegionAxis()
                axr.StartCoord, axr.PeakCoord, axr.EndCoord = f2dot14("start%d" % i), f2dot14("peak%d" % i), f2dot14("end%d" % i)
                reg.VarRegionAxis = [axr]
                vs.VarRegionList.Region.append(reg)
            vs.VarRegionList.RegionCount = 2
            vd = ot.VarData()
            vd.VarRegionIndex = [0, 1]
            vd.VarRegionCount = 2
            vd.NumShorts = 1
            vd.Item = [[S.int("d%d_0" % i, -32768, 32767), S.int("d%d_1" % i, -128, 127)] for i in range(3)]
            vd.ItemCount = 3
            vs.VarData = [vd]
            vs.VarDataCount = 1
            t.VarStore = vs
            t.AdvWidthMap = t.LsbMap = t.RsbMap = None
            tag = "HVAR"
        elif variant == "gdef":
            t = ot.GDEF()
            t.Version = 0x00010000
            t.GlyphClassDef = ot.GlyphClassDef()
            t.GlyphClassDef.classDefs = {g: S.int("gclass_" + g, 1, 4) for g in ("A", "C", "D")}
            t.AttachList = None
            t.MarkAttachClassDef = None
            t.LigCaretList = ot.LigCaretList()
            t.LigCaretList.Coverage = ot.Coverage()
            t.LigCaretList.Coverage.glyphs = ["B", "E"]
            t.LigCaretList.LigGlyph = []
            for g, n in (("B", 2), ("E", 1)):
                lg = ot.LigGlyph()
                lg.CaretValue = []
                for k in range(n):
                    cv = ot.CaretValue()
                    cv.Format = 1
                    cv.Coordinate = i16("caret_%s%d" % (g, k))
                    lg.CaretValue.append(cv)
                t.LigCaretList.LigGlyph.append(lg)
            tag = "GDEF"
        elif variant.startswith("gpos"):
            t = ot.GPOS()
            t.Version = 0x00010000
            scripts_features(t, ["kern"] if "kern" in variant else ["mark"], 1)
            lk = ot.Lookup()
            lk.LookupFlag = 0
            if "kern" in variant:
                lk.LookupType = 2
                st = ot.PairPos()
                st.Format = 2
                st.Coverage = ot.Coverage()
                st.Coverage.glyphs = ["A", "B", "C"]
                st.ValueFormat1, st.ValueFormat2 = 4, 0
                st.ClassDef1 = ot.ClassDef()
                st.ClassDef1.classDefs = {"B": 1}
                st.ClassDef2 = ot.ClassDef()
                st.ClassDef2.classDefs = {"D": 1, "E": S.int("class2_E", 1, 2)}
                st.Class1Record = []
                for c1 in range(2):
                    r1 = ot.Class1Record()
                    r1.Class2Record = []
                    for c2 in range(3):
                        r2 = ot.Class2Record()
                        r2.Value1 = ot.ValueRecord()
                        r2.Value1.XAdvance = i16("k%d%d" % (c1, c2))
                        r2.Value2 = None
                        r1.Class2Record.append(r2)
                    st.Class1Record.append(r1)
            else:
                lk.LookupType = 4
                st = ot.MarkBasePos()
                st.Format = 1
                st.MarkCoverage = ot.Coverage()
                # three anchors with symbolic coordinates: subtable sharing decides, per pair, whether
                # they are equal (5 partitions); more anchors make the number of sharing patterns explode
                st.MarkCoverage.glyphs = ["D"]
                st.BaseCoverage = ot.Coverage()
                st.BaseCoverage.glyphs = ["A", "B"]
                st.ClassCount = 1
                st.MarkArray = ot.MarkArray()
                st.MarkArray.MarkRecord = []
                for i, g in enumerate(("D",)):
                    mr = ot.MarkRecord()
                    mr.Class = i
                    mr.MarkAnchor = anchor("mark" + g)
                    st.MarkArray.MarkRecord.append(mr)
                st.BaseArray = ot.BaseArray()
                st.BaseArray.BaseRecord = []
                for g in ("A", "B"):
                    br = ot.BaseRecord()
                    br.BaseAnchor = [anchor("base%s%d" % (g, k)) for k in range(1)]
                    st.BaseArray.BaseRecord.append(br)
            lk.SubTable = [st]
            t.LookupList = ot.LookupList()
            t.LookupList.Lookup = [lk]
            tag = "GPOS"
        elif variant == "gsub-mixed":
            t = ot.GSUB()
            t.Version = 0x00010000
            scripts_features(t, ["liga", "ccmp", "salt"], 3)
            lookups = []
            lk = ot.Lookup(); lk.LookupType, lk.LookupFlag = 4, 0
            st = ot.LigatureSubst()
            # the order inside a LigatureSet is the matching priority: a shorter sequence listed before a
            # longer one with the same prefix must stay first
            ligs = []
            for comps, out in ((["B"], "E"), (["B", "C"], "D"), ([], "C")):
                lig = ot.Ligature(); lig.Component, lig.LigGlyph = list(comps), out
                ligs.append(lig)
            lig2 = ot.Ligature(); lig2.Component, lig2.LigGlyph = ["A"], "E"
            st.ligatures = {"A": ligs, "C": [lig2]}
            lk.SubTable = [st]; lookups.append(lk)
            lk = ot.Lookup(); lk.LookupType, lk.LookupFlag = 2, S.int("flag", 0, 15)
            st = ot.MultipleSubst(); st.mapping = {"E": ["A", "B"], "C": ["D"]}
            lk.SubTable = [st]; lookups.append(lk)
            lk = ot.Lookup(); lk.LookupType, lk.LookupFlag = 1, 0
            st = ot.SingleSubst(); st.mapping = {"A": "B", "C": "E"}
            lk.SubTable = [st]; lookups.append(lk)
            t.LookupList = ot.LookupList()
            t.LookupList.Lookup = lookups
            tag = "GSUB"
        holder = newTable(tag)
        holder.table = t
        return dict(self=holder, font=font, _tag=tag)

    def call(self, f, a):
        from fontTools.ttLib import newTable
        data = f(a.self, a.font)
        back = newTable(a._tag)
        back.decompile(data, a.font)
        back.table.ensureDecompiled(recurse=True)
        again = type(back).compile(back, a.font)
        return data, back, again

    ensures = [
        prop("decompile-of-compile-is-the-same-object-model", lambda a, old, r: And(*_deep_eq(r[1].table, a.self.table))),
        prop("second-generation-bytes-identical", lambda a, old, r: SymBytes.of(r[0]) == SymBytes.of(r[2])),
    ]


# -- struct-coded tables with symbolic numbers ---------------------------------------------------------

class _TFont(_Font):
    def __init__(self, order, **tables):
        _Font.__init__(self, order)
        self.tables = tables

    def __getitem__(self, tag):
        return self.tables[tag]

    def __contains__(self, tag):
        return tag in self.tables

    def getReverseGlyphMap(self, rebuild=False):
        return {g: i for i, g in enumerate(self.order)}


@contract
class StructTableRoundTrip(_Patched, Contract):
    """Small struct-coded tables with symbolic numeric content, through the real compile and
    decompile: 'kern' format 0 (pair values), 'gasp' (behaviours; the version follows from the
    flags used), 'VORG' (vertical origins), 'LTSH', 'avar' version 1 (segment maps in F2Dot14).
    An independent reading of the bytes gives the values; decompile gives the table back."""
    module = "fontTools.ttLib.tables._k_e_r_n"
    qualname = "KernTable_format_0.compile"
    props = ("C02", "C01")
    shadow_mode = "real"
    variants = ("kern0", "gasp", "VORG", "LTSH", "avar", "fvar")
    level = "PF"
    max_paths = 20000
    PATCH = _Patched.PATCH + (
        ("fontTools.ttLib.tables._f_v_a_r", ("struct", "bytesjoin", "len")),
        ("fontTools.ttLib.tables._k_e_r_n", ("struct", "array")),
        ("fontTools.ttLib.tables._g_a_s_p", ("struct", "int")),
        ("fontTools.ttLib.tables.V_O_R_G_", ("struct", "bytesjoin")),
        ("fontTools.ttLib.tables.L_T_S_H_", ("struct", "array")),
    )

    def setup(self):
        _Patched.setup(self)
        import importlib
        from pyvc.models import fixed_tools
        ft = fixed_tools()
        from pyvc.models import sstruct_shadow
        for modname, pairs in (("fontTools.ttLib.tables.otConverters", (("fl2fi", ft.floatToFixed), ("fi2fl", ft.fixedToFloat))),
                               ("fontTools.ttLib.tables._f_v_a_r", (("fl2fi", ft.floatToFixed), ("fi2fl", ft.fixedToFloat), ("sstruct", sstruct_shadow())))):
            m = importlib.import_module(modname)
            for n, v in pairs:
                self._saved.append((m, n, m.__dict__.get(n, _ABSENT)))
                setattr(m, n, v)

    def args(self, S, variant):
        from fontTools.ttLib import newTable
        order = [".notdef", "A", "B", "C"]
        font = _TFont(order)
        i16 = lambda n: S.int(n, -32768, 32767)
        if variant == "kern0":
            from fontTools.ttLib.tables._k_e_r_n import KernTable_format_0
            t = newTable("kern")
            t.version = 0
            st = KernTable_format_0()
            st.coverage, st.tupleIndex = 1, None
            st.kernTable = {("A", "B"): i16("kAB"), ("B", "A"): i16("kBA"), ("C", "C"): i16("kCC")}
            t.kernTables = [st]
        elif variant == "gasp":
            t = newTable("gasp")
            t.version = 0
            t.gaspRange = {8: S.int("b8", 0, 15), 16: S.int("b16", 0, 15), 0xFFFF: S.int("bmax", 0, 15)}
        elif variant == "VORG":
            t = newTable("VORG")
            t.majorVersion, t.minorVersion = 1, 0
            t.defaultVertOriginY = i16("default")
            t.VOriginRecords = {"B": i16("vB"), "A": i16("vA")}
            t.numVertOriginYMetrics = 2
        elif variant == "LTSH":
            t = newTable("LTSH")
            t.yPels = {g: S.int("pel_" + g, 0, 255) for g in order}
        elif variant == "fvar":
            from fontTools.ttLib.tables._f_v_a_r import Axis, NamedInstance
            t = newTable("fvar")
            fx = lambda n: (lambda k: (k / 65536 if S.concrete else SymNum(k.real() / 65536), k))(S.int(n, -2 ** 31, 2 ** 31 - 1))
            ax = Axis()
            ax.axisTag = "wght"
            (ax.minValue, kmin), (ax.defaultValue, kdef), (ax.maxValue, kmax) = fx("min"), fx("default"), fx("max")
            ax.flags, ax.axisNameID = S.int("flags", 0, 65535), S.int("nameid", 0, 65535)
            inst = NamedInstance()
            inst.subfamilyNameID, inst.flags = S.int("subfam", 0, 65535), 0
            inst.postscriptNameID = S.int("psname", 0, 65535)
            coord, kc = fx("coord")
            inst.coordinates = {"wght": coord}
            t.axes, t.instances = [ax], [inst]
            self._fv = dict(kmin=kmin, kdef=kdef, kmax=kmax, kc=kc)
        else:
            t = newTable("avar")
            t.majorVersion, t.minorVersion = 1, 0
            # keys and values on the 2.14 grid: k / 16384 with symbolic integers k (kept ordered)
            self._ks = ks = [S.int("from%d" % i, -16383, 16383) for i in range(2)]
            self._vs = vs = [S.int("to%d" % i, -16384, 16384) for i in range(2)]
            f = (lambda k: k / 16384) if S.concrete else (lambda k: SymNum(k.real() / 16384))
            t.segments = {"wght": {-1.0: -1.0, f(ks[0]): f(vs[0]), f(ks[1]): f(vs[1]), 1.0: 1.0}}
            fvar = newTable("fvar")
            ax = type("Axis", (), {})()
            ax.axisTag = "wght"
            fvar.axes = [ax]
            font = _TFont(order, fvar=fvar)
        return dict(self=t, font=font, _v=variant)

    def requires(self, a):
        if a._v == "avar":
            return self._ks[0] < self._ks[1]
        return True

    def call(self, f, a):
        from fontTools.ttLib import newTable
        t = a.self
        data = t.compile(a.font)
        back = newTable(t.tableTag)
        back.decompile(data, a.font)
        return data, back

    def _layout(self, a, r):
        b = _items(r[0])
        t, v = a.self, a._v
        if v == "kern0":
            pairs = sorted((a.font.order.index(l), a.font.order.index(rr), val) for (l, rr), val in t.kernTables[0].kernTable.items())
            cs = [len(b) == 4 + 6 + 8 + 6 * 3, eq(u16(b, 0), 0), eq(u16(b, 2), 1), eq(u16(b, 4), 0), eq(u16(b, 6), len(b) - 4),
                  eq(b[8], 0), eq(b[9], 1), eq(u16(b, 10), 3)]
            for i, (l, rr, val) in enumerate(pairs):
                o = 18 + 6 * i
                cs += [eq(u16(b, o), l), eq(u16(b, o + 2), rr), eq(s16(b, o + 4), val)]
            return And(*cs)
        if v == "gasp":
            items = sorted(t.gaspRange.items())
            newer = Or(*[val >= 4 for _, val in items])
            return And(len(b) == 4 + 4 * 3, eq(u16(b, 0), Ite(newer, 1, 0)), eq(u16(b, 2), 3),
                       *[And(eq(u16(b, 4 + 4 * i), k), eq(u16(b, 6 + 4 * i), val)) for i, (k, val) in enumerate(items)])
        if v == "VORG":
            recs = sorted((a.font.order.index(g), y) for g, y in t.VOriginRecords.items())
            return And(len(b) == 8 + 4 * 2, eq(u16(b, 0), 1), eq(u16(b, 2), 0), eq(s16(b, 4), t.defaultVertOriginY), eq(u16(b, 6), 2),
                       *[And(eq(u16(b, 8 + 4 * i), g), eq(s16(b, 10 + 4 * i), y)) for i, (g, y) in enumerate(recs)])
        if v == "LTSH":
            return And(len(b) == 4 + 4, eq(u16(b, 0), 0), eq(u16(b, 2), 4), *[eq(b[4 + i], t.yPels[g]) for i, g in enumerate(a.font.order)])
        if v == "fvar":
            def s32(o):
                x = ((b[o] * 256 + b[o + 1]) * 256 + b[o + 2]) * 256 + b[o + 3]
                return Ite(x >= 2 ** 31, x - 2 ** 32, x)
            ax, inst, k = t.axes[0], t.instances[0], self._fv
            has_ps = Not(eq(inst.postscriptNameID, 0xFFFF))
            isz = 4 + 4 + (2 if len(b) == 16 + 20 + 10 else 0)
            return And(Ite(has_ps, len(b) == 16 + 20 + 10, len(b) == 16 + 20 + 8),
                       eq(u16(b, 0), 1), eq(u16(b, 2), 0), eq(u16(b, 4), 16), eq(u16(b, 6), 2), eq(u16(b, 8), 1), eq(u16(b, 10), 20),
                       eq(u16(b, 12), 1), eq(u16(b, 14), isz),
                       *[eq(b[16 + i], ord(c)) for i, c in enumerate("wght")],
                       eq(s32(20), k["kmin"]), eq(s32(24), k["kdef"]), eq(s32(28), k["kmax"]), eq(u16(b, 32), ax.flags), eq(u16(b, 34), ax.axisNameID),
                       eq(u16(b, 36), inst.subfamilyNameID), eq(u16(b, 38), 0), eq(s32(40), k["kc"]),
                       Implies(has_ps, eq(u16(b, 44) if len(b) >= 46 else 0, inst.postscriptNameID)))
        # avar: version 1.0, reserved, axisCount 1, positionMapCount 4, then (from, to) F2Dot14 pairs ascending by from
        ks, vs = self._ks, self._vs
        return And(len(b) == 8 + 2 + 16, eq(u16(b, 0), 1), eq(u16(b, 2), 0), eq(u16(b, 6), 1), eq(u16(b, 8), 4),
                   eq(s16(b, 10), -16384), eq(s16(b, 12), -16384),
                   eq(s16(b, 14), ks[0]), eq(s16(b, 16), vs[0]), eq(s16(b, 18), ks[1]), eq(s16(b, 20), vs[1]),
                   eq(s16(b, 22), 16384), eq(s16(b, 24), 16384))

    def _same(self, a, r):
        t, u, v = a.self, r[1], a._v
        if v == "kern0":
            x, y = t.kernTables[0].kernTable, u.kernTables[0].kernTable
            return And(sorted(x) == sorted(y), u.version == 0, *[eq(y[k], x[k]) for k in x])
        if v == "gasp":
            return And(sorted(u.gaspRange) == sorted(t.gaspRange), *[eq(u.gaspRange[k], t.gaspRange[k]) for k in t.gaspRange])
        if v == "VORG":
            return And(eq(u.defaultVertOriginY, t.defaultVertOriginY), sorted(u.VOriginRecords) == sorted(t.VOriginRecords),
                       *[eq(u.VOriginRecords[g], t.VOriginRecords[g]) for g in t.VOriginRecords])
        if v == "LTSH":
            return And(sorted(u.yPels) == sorted(t.yPels), *[eq(u.yPels[g], t.yPels[g]) for g in t.yPels])
        if v == "fvar":
            ax, bx, inst, binst = t.axes[0], u.axes[0], t.instances[0], u.instances[0]
            return And(str(bx.axisTag) == "wght", eq(bx.minValue, ax.minValue), eq(bx.defaultValue, ax.defaultValue), eq(bx.maxValue, ax.maxValue),
                       eq(bx.flags, ax.flags), eq(bx.axisNameID, ax.axisNameID), eq(binst.subfamilyNameID, inst.subfamilyNameID),
                       eq(binst.coordinates["wght"], inst.coordinates["wght"]), eq(binst.postscriptNameID, inst.postscriptNameID))
        want = sorted(((k, val) for k, val in t.segments["wght"].items()), key=lambda kv: 0)  # compared as multisets below
        got = list(u.segments["wght"].items())
        if len(got) != 4:
            return False
        # every stored pair of the original appears in the decoded map
        return And(*[Or(*[And(eq(gk, k), eq(gv, val)) for gk, gv in got]) for k, val in t.segments["wght"].items()])

    @property
    def ensures(self):
        return [prop("bytes-read-per-format-give-the-values", lambda a, old, r, self=self: self._layout(a, r)),
                prop("decompile-gives-the-table-back", lambda a, old, r, self=self: self._same(a, r))]
