"""cmap.subset_glyphs (C07): a mapping code point -> glyph survives exactly when the code point or
the glyph was requested; variation sequences survive when their selector was requested and their
base character or glyph was; a subtable disappears only when it has nothing left or when it is a
full-repertoire (format 12) subtable that says exactly what its BMP-only sibling of the same
platform and language says - then the sibling stays.  Requested sets are symbolic."""
from types import SimpleNamespace

from pyvc.core import Contract, contract, prop, internal
from pyvc.ghost import SymSet
from contracts.subset_kernels import _K

CODES = (0x41, 0x42, 0x1F600, 0xFE00)
GLYPHS = ("a", "b", "c", "d")


class _Sub:
    def __init__(self, fmt, plat, enc, lang, cmap=None, uvs=None):
        self.format, self.platformID, self.platEncID, self.language = fmt, plat, enc, lang
        self.cmap = dict(cmap or {})
        if uvs is not None:
            self.uvsDict = {k: list(v) for k, v in uvs.items()}

    def isUnicode(self):
        return self.platformID == 0 or (self.platformID == 3 and self.platEncID in (0, 1, 10))

    def isSymbol(self):
        return self.platformID == 3 and self.platEncID == 0


LAYOUTS = {
    "bmp-plus-full": lambda: [_Sub(4, 3, 1, 0, {0x41: "a", 0x42: "b"}), _Sub(12, 3, 10, 0, {0x41: "a", 0x42: "b", 0x1F600: "c"})],
    "full-equals-bmp": lambda: [_Sub(4, 0, 3, 0, {0x41: "a", 0x42: "b"}), _Sub(12, 0, 4, 0, {0x41: "a", 0x42: "b"}),
                                _Sub(4, 3, 1, 0, {0x41: "a", 0x42: "b"}), _Sub(12, 3, 10, 0, {0x41: "a", 0x42: "b"})],
    "full-differs-in-one-glyph": lambda: [_Sub(4, 3, 1, 0, {0x41: "a", 0x42: "b"}), _Sub(12, 3, 10, 0, {0x41: "a", 0x42: "d"})],
    "other-language-sibling": lambda: [_Sub(4, 0, 3, 1, {0x41: "a"}), _Sub(12, 0, 4, 0, {0x41: "a"})],
    "variation-sequences": lambda: [_Sub(4, 3, 1, 0, {0x41: "a", 0x42: "b"}), _Sub(14, 0, 5, 0, {}, {0xFE00: [(0x41, None), (0x42, "d")], 0x1F600: [(0x41, "c")]})],
    "mac-roman": lambda: [_Sub(4, 3, 1, 0, {0x41: "a"}), _Sub(6, 1, 0, 0, {0x41: "a", 0x42: "b"})],
}


@contract
class CmapSubset(_K):
    module = "fontTools.ttLib.tables._c_m_a_p"
    qualname = "table__c_m_a_p.subset_glyphs"
    variants = tuple(LAYOUTS)

    def args(self, S, variant):
        from fontTools.ttLib import newTable
        t = newTable("cmap")
        t.tableVersion = 0
        t.tables = LAYOUTS[variant]()
        s = SimpleNamespace(glyphs=set(), glyphs_requested=SymSet("glyph", GLYPHS, S), unicodes_requested=SymSet("code", CODES, S))
        snap = [(x, dict(x.cmap), {k: list(v) for k, v in getattr(x, "uvsDict", {}).items()}) for x in t.tables]
        return dict(self=t, s=s, _snap=snap)

    @staticmethod
    def _post(a, r):
        s, tables = a.s, a.self.tables
        ok = a.self.numSubTables == len(tables) and all(any(x is y for y, _, _ in a._snap) for x in tables)
        order = [x for x, _, _ in a._snap if any(x is y for y in tables)]
        ok = ok and len(order) == len(tables) and all(x is y for x, y in zip(order, tables))
        for sub, cmap, uvs in a._snap:
            alive = any(sub is x for x in tables)
            if sub.format == 14:
                want = {v: [(u, g) for u, g in l if g in s.glyphs_requested or u in s.unicodes_requested] for v, l in uvs.items() if v in s.unicodes_requested}
                want = {v: l for v, l in want.items() if l}
                ok = ok and (alive == bool(want)) and (not alive or sub.uvsDict == want)
                continue
            if sub.isUnicode():
                want = {u: g for u, g in cmap.items() if g in s.glyphs_requested or u in s.unicodes_requested}
            else:
                want = {u: g for u, g in cmap.items() if g in s.glyphs_requested}
            if alive:
                ok = ok and sub.cmap == want and bool(want)
            elif want:
                # only a format 12 subtable may go while it still has something to say: its BMP-only sibling says the same
                sibling_enc = {(0, 4): 3, (3, 10): 1}.get((sub.platformID, sub.platEncID))
                sib = [x for x in tables if x.platformID == sub.platformID and x.platEncID == sibling_enc and x.language == sub.language and x.format != 14]
                ok = ok and sub.format == 12 and sibling_enc is not None and max(want) < 0x10000 and any(x.cmap == want for x in sib)
        return ok and r is True

    ensures = [prop("requested-mappings-survive-and-nothing-else", lambda a, old, r: CmapSubset._post(a, r))]
