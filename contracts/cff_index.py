"""CFF INDEX writer (C01, C02): calcOffSize for every offset, and IndexCompiler.toFile against
the CFF / CFF2 INDEX layout for items of EVERY length (items are blobs of symbolic length;
the output is a ghost file)."""
from pyvc.blobs import Atom, Blob, SymFile
from pyvc.core import Contract, contract, prop, internal
from pyvc.models import std, SymBytes, tobytes_
from pyvc.spec import And, Or, Not, Implies, Ite, eq


@contract
class CalcOffSize(Contract):
    """calcOffSize(n): the smallest number of bytes (1..4) in which n can be written, for every
    0 <= n < 2**32 - in particular an offset is never given fewer bytes than it needs."""
    module = "fontTools.cffLib"
    qualname = "calcOffSize"
    props = ("C01", "C02")
    level = "P"

    def args(self, S, variant):
        return dict(largestOffset=S.int("largestOffset"))

    def requires(self, a):
        return And(a.largestOffset >= 0, a.largestOffset < 2 ** 32)

    ensures = [
        prop("offset-fits-in-offSize-bytes", lambda a, old, r: And(r >= 1, r <= 4, *[Implies(eq(r, k), a.largestOffset < 256 ** k) for k in (1, 2, 3)])),
        internal("offSize-is-minimal", lambda a, old, r: And(*[Implies(eq(r, k), a.largestOffset >= 256 ** (k - 1)) for k in (2, 3, 4)])),
    ]


def _be(items):
    v = 0
    for b in items:
        v = v * 256 + b
    return v


@contract
class IndexCompilerToFile(Contract):
    """IndexCompiler.toFile writes, for 0..3 items of ANY lengths: the count (Card16, or Card32
    for CFF2); nothing more for an empty INDEX; otherwise offSize, count+1 offsets of offSize
    bytes each whose big-endian values are 1 + (total length of the preceding items), and the
    items' bytes verbatim in order.  offSize is wide enough for the last offset.  The total
    number of bytes written equals getDataLength()."""
    module = "fontTools.cffLib"
    qualname = "IndexCompiler.toFile"
    props = ("C01", "C02")
    variants = tuple((n, cff2) for n in (0, 1, 2, 3) for cff2 in (False, True))
    level = "PF"
    rebind = staticmethod(lambda: std("struct", "len", "bytes", "bytechr", tobytes=tobytes_))
    also = ("IndexCompiler.getOffsets", "IndexCompiler.getDataLength", "calcOffSize", "writeCard8", "writeCard16", "writeCard32")

    def args(self, S, variant):
        n, cff2 = variant
        if S.concrete:       # native replay: real bytes of the model's lengths into a real file
            import io
            from fontTools.cffLib import IndexCompiler
            lens = [S.int("item%d.len" % i) for i in range(n)]
            ic = IndexCompiler.__new__(IndexCompiler)
            ic.isCFF2, ic.parent = cff2, None
            ic.items = [bytes((i * 37 + j) % 251 for j in range(ln)) for i, ln in enumerate(lens)]
            return dict(self=ic, file=io.BytesIO(), _atoms=None, _n=n, _cff2=cff2)
        atoms = [Atom("item%d" % i) for i in range(n)]
        for at in atoms:
            S.ctx.symbols[at.name + ".len"] = at.n.t
        cls = self.mod.IndexCompiler
        ic = cls.__new__(cls)
        ic.isCFF2 = cff2
        ic.items = [at.blob() for at in atoms]
        ic.parent = None
        return dict(self=ic, file=SymFile(), _atoms=atoms, _n=n, _cff2=cff2)

    def requires(self, a):
        if a._atoms is None:
            return sum(len(i) for i in a.self.items) + 1 < 2 ** 31
        total = sum((at.n for at in a._atoms), 0)
        return And(*[at.n >= 0 for at in a._atoms], total + 1 < 2 ** 31)

    def call(self, f, a):
        f(a.self, a.file)
        return type(a.self).getDataLength(a.self)

    @staticmethod
    def _layout_native(a, r):
        data = a.file.getvalue()
        n, cs = a._n, (4 if a._cff2 else 2)
        if len(data) != r or int.from_bytes(data[:cs], "big") != n:
            return False
        if n == 0:
            return len(data) == cs
        osz = data[cs]
        offs = [int.from_bytes(data[cs + 1 + i * osz: cs + 1 + (i + 1) * osz], "big") for i in range(n + 1)]
        base = cs + 1 + (n + 1) * osz - 1
        want, run = [], 1
        for it in a.self.items:
            want.append(run)
            run += len(it)
        want.append(run)
        return 1 <= osz <= 4 and offs == want and all(data[base + offs[i]: base + offs[i + 1]] == a.self.items[i] for i in range(n)) \
            and len(data) == base + offs[-1]

    @staticmethod
    def _layout(a, r):
        if a._atoms is None:
            return IndexCompilerToFile._layout_native(a, r)
        ws = [b for p, b in a.file.writes]
        n, cs = a._n, (4 if a._cff2 else 2)
        out = []
        # writes are sequential from position 0
        pos = 0
        seq = []
        for p, b in a.file.writes:
            seq.append(eq(p, pos))
            pos = pos + b.__symlen__()
        out.append(And(*seq))
        out.append(eq(pos, r))                                   # getDataLength agrees with what was written
        cnt = ws[0].materialize(cs)
        out.append(eq(_be(cnt.items), n))
        nonempty = [at for at in a._atoms]
        if n == 0:
            out.append(len(ws) == 1)
            return And(*out)
        # Python's `if self.items` is about the LIST (non-empty here), so the header is always written
        osz = ws[1].materialize(1).items[0]
        last = 1 + sum((at.n for at in a._atoms), 0)
        out.append(And(osz >= 1, osz <= 4, *[Implies(eq(osz, k), last < 256 ** k) for k in (1, 2, 3)]))
        offs = ws[2:2 + n + 1]
        run = 1
        for i, ob in enumerate(offs):
            k = ob.__symlen__()
            out.append(eq(k, osz))
            kc = k if isinstance(k, int) else k.concrete()
            if kc is None:
                return False
            out.append(eq(_be(ob.materialize(kc).items), run))
            if i < n:
                run = run + a._atoms[i].n
        data = ws[2 + n + 1:]
        # zero-length items are not written (an empty write is a no-op); compare the concatenation
        want = Blob([])
        for at in a._atoms:
            want = want + at.blob()
        got = Blob([])
        for b in data:
            got = got + b
        out.append(eq(got.__symlen__(), want.__symlen__()))
        out.append(_same_concat(got, want))
        return And(*out)

    ensures = [prop("index-layout-per-CFF-spec", lambda a, old, r: IndexCompilerToFile._layout(a, r))]


def _same_concat(got, want):
    """Both are concatenations of atom slices; after dropping empty pieces (decided on this
    path) they must be the same pieces."""
    def norm(b):
        segs = []
        for s in b.segs:
            ln = s[3]
            if not isinstance(ln, int) and bool(ln == 0):
                continue
            segs.append(s)
        return Blob(segs)
    return norm(got).same(norm(want))
