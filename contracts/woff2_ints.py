"""Contracts on the WOFF2 variable-length integer codecs (C15, C04).
Spec functions transcribed from W3C WOFF2 section 4.1 (UIntBase128, 255UInt16)."""
from pyvc.core import Contract, contract, prop, internal
from pyvc.models import std, SymBytes, Tail
from pyvc.spec import And, Or, Not, Implies, Ite, eq
from fontTools.ttLib import TTLibError

REBIND = std("struct", "len", "bytes", "byteord", "bytechr")


def _items(b):
    return list(b.items) if isinstance(b, SymBytes) else list(b)


# -- UIntBase128 -----------------------------------------------------------------

def spec_base128_wellformed(bs):
    """WOFF2 4.1: 1..5 bytes, continuation bit on all but the last, no leading 0x80
    (no leading zeros), value < 2**32."""
    n = len(bs)
    if not 1 <= n <= 5:
        return False
    cs = [Not(eq(bs[0], 0x80))]
    for i, b in enumerate(bs):
        cs.append(b >= 0x80 if i < n - 1 else b < 0x80)
    cs.append(spec_base128_value(bs) < 2 ** 32)
    return And(*cs)


def spec_base128_value(bs):
    v = 0
    for b in bs:
        v = v * 128 + Ite(b >= 128, b - 128, b)
    return v


@contract
class PackBase128(Contract):
    module = "fontTools.ttLib.woff2"
    qualname = "packBase128"
    props = ("C15", "C04")
    rebind = REBIND

    def args(self, S, variant):
        return dict(n=S.int("n"))

    raises = {TTLibError: lambda a: Or(a.n < 0, a.n >= 2 ** 32)}
    ensures = [
        prop("decodes-to-n-per-WOFF2-spec", lambda a, old, r: And(
            spec_base128_wellformed(_items(r)), eq(spec_base128_value(_items(r)), a.n))),
        prop("length-is-base128Size", lambda a, old, r: eq(len(_items(r)), PackBase128.size(a.n))),
    ]

    @staticmethod
    def size(n):
        return Ite(n < 128, 1, Ite(n < 128 ** 2, 2, Ite(n < 128 ** 3, 3, Ite(n < 128 ** 4, 4, 5))))


@contract
class Base128Size(Contract):
    module = "fontTools.ttLib.woff2"
    qualname = "base128Size"
    props = ("C15",)
    rebind = REBIND

    def args(self, S, variant):
        return dict(n=S.int("n"))

    def requires(self, a):
        return a.n < 2 ** 64   # any bound keeps the loop finite; 2**64 covers every caller

    raises = {AssertionError: lambda a: a.n < 0}
    ensures = [prop("minimal-7bit-group-count", lambda a, old, r: And(
        r >= 1, a.n < 128 ** r, Or(eq(r, 1), a.n >= 128 ** (r - 1))))]


@contract
class Base128RoundTrip(Contract):
    """unpackBase128(packBase128(n) + rest) == (n, rest) for every n < 2**32 and every rest."""
    module = "fontTools.ttLib.woff2"
    qualname = "unpackBase128"
    props = ("C15",)
    rebind = REBIND

    def args(self, S, variant):
        if S.concrete:
            return dict(n=S.int("n"), rest=bytes(S.byte("rest[%d]" % i) for i in range(S.int("rest.len", 0) % 4)))
        S.ctx.symbols["rest.len"] = None
        t = Tail("rest")
        S.ctx.symbols["rest.len"] = t.n.t
        S.ctx.assume_term(t.n.t >= 0)
        return dict(n=S.int("n"), rest=SymBytes([], t))

    def requires(self, a):
        return And(0 <= a.n, a.n < 2 ** 32)

    def call(self, f, a):
        return f(self.mod.packBase128(a.n) + a.rest)

    ensures = [prop("decode-of-encode", lambda a, old, r: And(eq(r[0], a.n), r[1] == a.rest))]


@contract
class UnpackBase128(Contract):
    """Decoder against the spec on arbitrary input: accepts exactly the well-formed
    prefixes, returns their value and the untouched rest; everything else is TTLibError."""
    module = "fontTools.ttLib.woff2"
    qualname = "unpackBase128"
    props = ("C15", "C20")
    rebind = REBIND
    variants = tuple(range(0, 8))   # input length 0..7: the decoder never looks beyond 5 bytes

    def args(self, S, variant):
        return dict(data=S.bytes("data", variant))

    @staticmethod
    def _accept_len(bs):
        """length of the well-formed prefix, or None-like 0"""
        k = 0
        for n in range(min(5, len(bs)), 0, -1):
            k = Ite(spec_base128_wellformed(bs[:n]), n, k)
        return k

    raises = {TTLibError: lambda a: eq(UnpackBase128._accept_len(_items(a.data)), 0)}

    @staticmethod
    def _post(a, r):
        bs = _items(a.data)
        for n in range(1, min(5, len(bs)) + 1):
            if spec_base128_wellformed(bs[:n]):      # forks: one small query per accepted length
                return And(eq(r[0], spec_base128_value(bs[:n])), r[1] == a.data[n:])
        return False                                 # returned normally without a well-formed prefix

    ensures = [prop("value-and-rest-per-spec", lambda a, old, r: UnpackBase128._post(a, r))]
    expect_exceptional_only = (0,)


# -- 255UInt16 --------------------------------------------------------------------

def spec_255_decode(bs):
    """WOFF2 4.1 Read255UShort -> (value, consumed) ; consumed == 0 when ill-formed/short"""
    n = len(bs)
    if n == 0:
        return (0, 0)
    code = bs[0]
    v3 = (bs[1] * 256 + bs[2]) if n >= 3 else 0
    v2 = bs[1] if n >= 2 else 0
    value = Ite(eq(code, 253), v3, Ite(eq(code, 254), v2 + 506, Ite(eq(code, 255), v2 + 253, code)))
    used = Ite(eq(code, 253), 3 if n >= 3 else 0, Ite(Or(eq(code, 254), eq(code, 255)), 2 if n >= 2 else 0, 1))
    return (value, used)


@contract
class Pack255UShort(Contract):
    module = "fontTools.ttLib.woff2"
    qualname = "pack255UShort"
    props = ("C15", "C04")
    rebind = REBIND

    def args(self, S, variant):
        return dict(value=S.int("value"))

    raises = {TTLibError: lambda a: Or(a.value < 0, a.value > 0xFFFF)}
    ensures = [prop("decodes-to-value-per-WOFF2-spec", lambda a, old, r: And(
        eq(spec_255_decode(_items(r))[0], a.value), eq(spec_255_decode(_items(r))[1], len(_items(r)))))]


@contract
class U255RoundTrip(Contract):
    module = "fontTools.ttLib.woff2"
    qualname = "unpack255UShort"
    props = ("C15",)
    rebind = REBIND

    def args(self, S, variant):
        if S.concrete:
            return dict(value=S.int("value"), rest=bytes(S.byte("rest[%d]" % i) for i in range(S.int("rest.len", 0) % 4)))
        t = Tail("rest")
        S.ctx.symbols["rest.len"] = t.n.t
        S.ctx.assume_term(t.n.t >= 0)
        return dict(value=S.int("value"), rest=SymBytes([], t))

    def requires(self, a):
        return And(0 <= a.value, a.value <= 0xFFFF)

    def call(self, f, a):
        return f(self.mod.pack255UShort(a.value) + a.rest)

    ensures = [prop("decode-of-encode", lambda a, old, r: And(eq(r[0], a.value), r[1] == a.rest))]


@contract
class Unpack255UShort(Contract):
    module = "fontTools.ttLib.woff2"
    qualname = "unpack255UShort"
    props = ("C15",)
    rebind = REBIND
    variants = (1, 2, 3, 4)

    def args(self, S, variant):
        return dict(data=S.bytes("data", variant))

    raises = {TTLibError: lambda a: eq(spec_255_decode(_items(a.data))[1], 0)}
    ensures = [prop("value-and-rest-per-spec", lambda a, old, r: And(
        eq(r[0], spec_255_decode(_items(a.data))[0]),
        *[Implies(eq(spec_255_decode(_items(a.data))[1], k), r[1] == a.data[k:]) for k in (1, 2, 3)]))]


# -- WOFF2 table directory entry (C04) ------------------------------------------------------------

class _Base128Stub:
    """packBase128 / unpackBase128 through their contracts (PackBase128, UnpackBase128, proved
    above for every value): pack(n) is some byte string of base128Size(n) bytes that unpack maps
    back to n, consuming exactly those bytes.  The bytes themselves are opaque here."""

    def __init__(self, S):
        self.S, self.packed = S, []

    def pack(self, n):
        from pyvc.sym import SymNum
        if not isinstance(n, SymNum):
            n = self.S.pin(n)
        size = 1 if bool(n < 2 ** 7) else 2 if bool(n < 2 ** 14) else 3 if bool(n < 2 ** 21) else 4 if bool(n < 2 ** 28) else 5
        k = len(self.packed)
        its = [self.S.int("b128_%d_%d" % (k, i), 0, 255) for i in range(size)]
        self.packed.append((n, its))
        return SymBytes(its)

    def unpack(self, data):
        its = _items(data)
        for n, p in self.packed:
            if len(its) >= len(p) and all(x is y for x, y in zip(its, p)):
                return n, data[len(p):]
        from pyvc.sym import Unsupported
        raise Unsupported("unpackBase128 stub: the data does not start with a packed value of this run")


def _dir_rebind():
    from pyvc.models import sstruct_shadow
    return dict(REBIND, sstruct=sstruct_shadow(), int=std("int")["int"])


# W3C WOFF2 section 4: known-table index of some tags (63 = arbitrary tag follows)
KNOWN_INDEX = {"cmap": 0, "head": 1, "hhea": 2, "hmtx": 3, "maxp": 4, "name": 5, "OS/2": 6, "post": 7, "cvt ": 8,
               "fpgm": 9, "glyf": 10, "loca": 11, "prep": 12, "CFF ": 13, "GSUB": 28, "Zapf": 57, "Sill": 62}


@contract
class WOFF2DirectoryEntryRoundTrip(Contract):
    """WOFF2DirectoryEntry.toString against the WOFF2 table-directory layout, and
    fromString(toString(e)) == e: flags byte (known-tag index or 63 + 4-byte tag; transform
    version in bits 6-7), origLength as UIntBase128, transformLength present exactly when the
    table is transformed (glyf/loca: version != 3; others: version != 0) - for every transform
    version and all lengths below 2**32."""
    module = "fontTools.ttLib.woff2"
    qualname = "WOFF2DirectoryEntry.fromString"
    props = ("C04", "C15")
    rebind = staticmethod(_dir_rebind)
    variants = ("head", "glyf", "loca", "hmtx", "GSUB", "Zapf", "Sill", "ZZZZ", "a b ")
    level = "PF"
    assumptions = ("packBase128 / unpackBase128 are used through their contracts (PackBase128, UnpackBase128)",)

    def args(self, S, variant):
        self._stub = _Base128Stub(S)
        self.mod.packBase128, self.mod.unpackBase128 = self._stub.pack, self._stub.unpack
        e = self.mod.WOFF2DirectoryEntry()
        e.tag = self.mod.Tag(variant)
        ver, bits = S.bitword("version", 2)
        idx = KNOWN_INDEX.get(variant, 63)
        e.flags = idx + ver * 64
        e.origLength = S.int("origLength", 0, 2 ** 32 - 1)
        e.length = S.int("length", 0, 2 ** 32 - 1)
        return dict(self=e, _ver=ver, _idx=idx, _tag=variant)

    def requires(self, a):
        transformed = Not(eq(a._ver, 3)) if a._tag in ("glyf", "loca") else Not(eq(a._ver, 0))
        # a transformed loca must have transformLength 0 (the reader refuses anything else)
        return Implies(And(transformed, a._tag == "loca"), eq(a.self.length, 0))

    def call(self, f, a):
        cls = type(a.self)
        data = cls.toString(a.self)
        back = cls()
        rest = f(back, data)
        # where the first UIntBase128 ends on this path (UIntBase128 is prefix-free: a split under
        # which both fields are well formed and carry the right values is THE decoding)
        return data, back, rest, list(self._stub.packed)

    @staticmethod
    def _layout(a, r):
        bs = _items(r[0])
        transformed = Not(eq(a._ver, 3)) if a._tag in ("glyf", "loca") else Not(eq(a._ver, 0))
        cs = [eq(bs[0], a._idx + a._ver * 64)]
        pos = 1
        if a._idx == 63:
            cs += [eq(bs[1 + i], ord(ch)) for i, ch in enumerate(a._tag)]
            pos = 5
        rest = bs[pos:]
        packed = r[3]
        # origLength first, then - exactly when transformed - transformLength; nothing else
        if not packed or packed[0][0] is not a.self.origLength or any(x is not y for x, y in zip(rest, packed[0][1])):
            return False
        tail = rest[len(packed[0][1]):]
        if len(packed) == 1:
            cs.append(And(Not(transformed), len(tail) == 0))
        elif len(packed) == 2:
            cs.append(And(transformed, packed[1][0] is a.self.length, len(tail) == len(packed[1][1]),
                          all(x is y for x, y in zip(tail, packed[1][1]))))
        else:
            return False
        return And(*cs)

    ensures = [
        prop("entry-layout-per-WOFF2", lambda a, old, r: WOFF2DirectoryEntryRoundTrip._layout(a, r)),
        prop("fromString-of-toString-is-the-entry", lambda a, old, r: And(
            str(r[1].tag) == a._tag, eq(r[1].flags, a.self.flags), eq(r[1].origLength, a.self.origLength),
            eq(r[1].length, Ite(Not(eq(a._ver, 3)) if a._tag in ("glyf", "loca") else Not(eq(a._ver, 0)), a.self.length, a.self.origLength)),
            len(r[2]) == 0)),
    ]


# -- the glyf-transform point 'triplet' codec (C15, C04) -----------------------------------------

class _Coords:
    """the few GlyphCoordinates operations the triplet codec uses, over a plain list (the
    real class stores C doubles); absoluteToRelative is the running difference"""

    def __init__(self, pts):
        self.pts = list(pts)

    @classmethod
    def zeros(cls, n):
        return cls([(0, 0)] * n)

    def copy(self):
        return _Coords(self.pts)

    def absoluteToRelative(self):
        out, px, py = [], 0, 0
        for x, y in self.pts:
            out.append((x - px, y - py))
            px, py = x, y
        self.pts = out

    def __len__(self):
        return len(self.pts)

    def __iter__(self):
        return iter(self.pts)

    def __setitem__(self, i, v):
        self.pts[i] = v

    def __getitem__(self, i):
        return self.pts[i]


def spec_triplet(flag, bs):
    """W3C WOFF2 5.2 'triplet encoding' table, transcribed: (number of bytes, dx, dy) of a
    point whose 7 low flag bits are `flag` and whose following bytes are bs[0..3]"""
    def sgn(bit_set, v):
        return Ite(bit_set, v, -v)
    xpos = eq(flag % 2, 1)
    ypos = eq((flag // 2) % 2, 1)
    b0, b1, b2, b3 = bs
    # flag < 10: dx = 0, dy from byte 0 + 256 * (flag // 2); sign is bit 0
    r = (4, sgn(xpos, b0 * 256 + b1), sgn(ypos, b2 * 256 + b3))
    r = tuple(Ite(flag < 124, v, w) for v, w in zip((3, sgn(xpos, b0 * 16 + b1 // 16), sgn(ypos, (b1 % 16) * 256 + b2)), r))
    f2 = flag - 84
    r = tuple(Ite(flag < 120, v, w) for v, w in zip((2, sgn(xpos, 1 + (f2 // 12) * 256 + b0), sgn(ypos, 1 + ((f2 % 12) // 4) * 256 + b1)), r))
    f1 = flag - 20
    r = tuple(Ite(flag < 84, v, w) for v, w in zip((1, sgn(xpos, 1 + (f1 // 16) * 16 + b0 // 16), sgn(ypos, 1 + ((f1 % 16) // 4) * 16 + b0 % 16)), r))
    r = tuple(Ite(flag < 20, v, w) for v, w in zip((1, sgn(xpos, ((flag - 10) // 2) * 256 + b0), 0), r))
    r = tuple(Ite(flag < 10, v, w) for v, w in zip((1, 0, sgn(xpos, (flag // 2) * 256 + b0)), r))
    return r


@contract
class TripletEncode(Contract):
    """WOFF2GlyfTable._encodeTriplets for a point with EVERY delta (dx, dy) in -65535..65535 and
    either on/off-curve flag: one flag byte (bit 7 = off-curve), and the flag with its
    following bytes decodes - by the W3C triplet table - to exactly the delta, consuming
    exactly the bytes written.  (Deltas between successive points are GlyphCoordinates'
    absoluteToRelative, stubbed here by the running difference.)"""
    module = "fontTools.ttLib.woff2"
    qualname = "WOFF2GlyfTable._encodeTriplets"
    props = ("C15", "C04")
    rebind = staticmethod(lambda: std("struct", "len", "bytes", "array"))
    level = "P"
    variants = ("one-point",)
    deadline_s = 600

    def args(self, S, variant):
        n = 1
        d = [(S.int("dx%d" % i, -65535, 65535), S.int("dy%d" % i, -65535, 65535)) for i in range(n)]
        pts, x, y = [], 0, 0
        for dx, dy in d:
            x, y = x + dx, y + dy
            pts.append((x, y))

        class _G:
            pass
        g = _G()
        g.coordinates = _Coords(pts)
        g.flags = [S.int("on%d" % i, 0, 1) for i in range(n)]
        t = self.mod.WOFF2GlyfTable.__new__(self.mod.WOFF2GlyfTable)
        t.flagStream, t.glyphStream = b"", b""
        return dict(self=t, glyph=g, _d=d, _n=n)

    def call(self, f, a):
        f(a.self, a.glyph)
        return a.self.flagStream, a.self.glyphStream

    @staticmethod
    def _post(a, r):
        fl, tr = _items(r[0]), _items(r[1])
        if len(fl) != 1 or not 1 <= len(tr) <= 4:
            return False
        bs = (tr + [0, 0, 0])[:4]
        nb, dx, dy = spec_triplet(fl[0] % 128, bs)
        return And(eq(fl[0] // 128, 1 - a.glyph.flags[0]), eq(nb, len(tr)), eq(dx, a._d[0][0]), eq(dy, a._d[0][1]))

    ensures = [prop("flag-and-bytes-decode-to-the-delta-per-W3C-table", lambda a, old, r: TripletEncode._post(a, r))]


@contract
class TripletDecode(Contract):
    """WOFF2GlyfTable._decodeTriplets for one point, EVERY flag byte and every following
    bytes: the point is the W3C table's (dx, dy), on-curve iff bit 7 is clear, and exactly the
    table's number of bytes (and one flag) are consumed from the streams."""
    module = "fontTools.ttLib.woff2"
    qualname = "WOFF2GlyfTable._decodeTriplets"
    props = ("C15", "C04")
    rebind = staticmethod(lambda: dict(std("struct", "len", "bytes", "array", "int"), getTableModule=lambda tag: _GlyfModule))
    level = "P"
    variants = (4, 5)          # bytes available in the glyph stream (one point never needs more than 4)

    def args(self, S, variant):
        class _G:
            pass
        g = _G()
        g.endPtsOfContours = [0]
        t = self.mod.WOFF2GlyfTable.__new__(self.mod.WOFF2GlyfTable)
        t.flagStream = S.bytes("flags", 2)
        t.glyphStream = S.bytes("stream", variant)
        return dict(self=t, glyph=g, _flags=t.flagStream, _stream=t.glyphStream)

    def call(self, f, a):
        f(a.self, a.glyph)
        return a.glyph.coordinates.pts, list(a.glyph.flags), a.self.flagStream, a.self.glyphStream

    @staticmethod
    def _post(a, r):
        pts, flags, frest, srest = r
        fl, bs = _items(a._flags), _items(a._stream)
        nb, dx, dy = spec_triplet(fl[0] % 128, bs[:4])
        if len(pts) != 1 or len(flags) != 1:
            return False
        return And(eq(pts[0][0], dx), eq(pts[0][1], dy), eq(flags[0], 1 - fl[0] // 128),
                   frest == a._flags[1:], eq(len(_items(srest)), len(bs) - nb),
                   *[Implies(eq(nb, k), srest == a._stream[k:]) for k in (1, 2, 3, 4)])

    ensures = [prop("point-and-consumption-per-W3C-table", lambda a, old, r: TripletDecode._post(a, r))]


class _GlyfModule:
    GlyphCoordinates = _Coords


# -- the hmtx transform (C04) ---------------------------------------------------------------------

class _HGlyph:
    pass


@contract
class WOFF2HmtxTransformRoundTrip(Contract):
    """WOFF2HmtxTable.transform then reconstruct, 2 proportional + 2 monospaced glyphs (and the
    all-proportional layout), advances / side bearings / glyph xMins symbolic: when transform
    applies (at most one of the two side-bearing arrays is needed) the flags byte has bit 0 /
    bit 1 set exactly for the array left out, its length is 1 + 2 bytes per advance and per
    stored side bearing, and reconstruct returns exactly the metrics; when both arrays would be
    needed it returns None (the table is stored untransformed); a glyph without outline counts
    as xMin 0."""
    module = "fontTools.ttLib.woff2"
    qualname = "WOFF2HmtxTable.reconstruct"
    props = ("C04", "C15")
    rebind = staticmethod(lambda: std("struct", "len", "bytes", "array", "int"))
    variants = ((2, 2), (3, 0), (1, 2))
    level = "PF"

    def args(self, S, variant):
        nlong, nmono = variant
        names = ["g%d" % i for i in range(nlong + nmono)]
        glyf = {}
        for i, n in enumerate(names):
            g = _HGlyph()
            if i != 1:
                g.xMin = S.int(n + ".xMin", -32768, 32767)          # g1 is an empty glyph: no xMin attribute
            glyf[n] = g
        adv = [S.int("adv%d" % i, 0, 65535) for i in range(nlong)]
        lsb = [S.int("lsb%d" % i, -32768, 32767) for i in range(nlong + nmono)]
        metrics = {n: (adv[min(i, nlong - 1)], lsb[i]) for i, n in enumerate(names)}

        class _Glyf(dict):
            glyphOrder = names

        class _Hhea:
            numberOfHMetrics = nlong

        class _Font:
            def __init__(self):
                self.t = {"glyf": _Glyf(glyf), "hhea": _Hhea()}

            def __getitem__(self, k):
                return self.t[k]

            def getGlyphOrder(self):
                return names
        t = self.mod.WOFF2HmtxTable()
        t.metrics = dict(metrics)
        return dict(self=t, ttFont=_Font(), _metrics=metrics, _glyf=glyf, _names=names, _nlong=nlong)

    def call(self, f, a):
        cls = type(a.self)
        data = cls.transform(a.self, a.ttFont)
        if data is None:
            return None, None
        back = cls()
        f(back, data, a.ttFont)
        return data, back.metrics

    @staticmethod
    def _post(a, r):
        data, back = r
        xmin = lambda n: getattr(a._glyf[n], "xMin", 0)
        need_long = Or(*[Not(eq(a._metrics[n][1], xmin(n))) for n in a._names[:a._nlong]])
        need_mono = Or(*[Not(eq(a._metrics[n][1], xmin(n))) for n in a._names[a._nlong:]]) if a._names[a._nlong:] else False
        if data is None:
            return And(need_long, need_mono)
        b = _items(data)
        nmono = len(a._names) - a._nlong
        size = 1 + 2 * a._nlong + Ite(need_long, 2 * a._nlong, 0) + Ite(need_mono, 2 * nmono, 0)
        flags = Ite(need_long, 0, 1) + Ite(need_mono, 0, 2)
        same = And(*[And(eq(back[n][0], a._metrics[n][0]), eq(back[n][1], a._metrics[n][1])) for n in a._names]) if set(back) == set(a._names) else False
        return And(Not(And(need_long, need_mono)), eq(b[0], flags), eq(len(b), size), same)

    ensures = [prop("transform-applies-exactly-when-allowed-and-reconstructs-the-metrics", lambda a, old, r: WOFF2HmtxTransformRoundTrip._post(a, r))]


# -- the glyf-transform bounding-box bitmap and stream (C04) ---------------------------------------

@contract
class WOFF2BBoxCodec(Contract):
    """WOFF2GlyfTable._encodeBBox then _decodeBBox for glyph ids 0, 7, 8 and 13: a composite always
    stores its box; a simple glyph stores it exactly when it differs from the box computed from
    its points (then the decoder recomputes it); the bit of glyph g is bit 7 - g % 8 of byte
    g // 8 and no other bit changes; a stored box is four int16 in the order xMin, yMin, xMax, yMax;
    the decoded glyph has the same box.  Stored and computed boxes symbolic."""
    module = "fontTools.ttLib.woff2"
    qualname = "WOFF2GlyfTable._decodeBBox"
    props = ("C04", "C15")
    variants = tuple((gid, comp) for gid in (0, 7, 8, 13) for comp in (False, True))
    level = "PF"
    assumptions = ("calcIntBounds / Glyph.recalcBounds are stubs returning one symbolic box (own contracts: CalcBounds, GlyphCompileHeaderBox)",)

    def rebind(self):
        from pyvc.models import sstruct_shadow
        return dict(std("struct", "len", "bytes", "bytearray", "array", "int"), sstruct=sstruct_shadow(), calcIntBounds=lambda coords: self._calc)

    def args(self, S, variant):
        gid, comp = variant
        box = [S.int(n, -32768, 32767) for n in ("xMin", "yMin", "xMax", "yMax")]
        self._calc = tuple(S.int("calc_" + n, -32768, 32767) for n in ("xMin", "yMin", "xMax", "yMax"))
        calc = self._calc

        class _G:
            def __init__(self):
                self.recalculated = False

            def isComposite(self):
                return comp

            def recalcBounds(self, glyfTable):
                self.recalculated = True
                self.xMin, self.yMin, self.xMax, self.yMax = calc
        g = _G()
        g.numberOfContours = -1 if comp else 1
        g.xMin, g.yMin, g.xMax, g.yMax = box
        g.coordinates = "coords"
        enc = self.mod.WOFF2GlyfTable.__new__(self.mod.WOFF2GlyfTable)
        enc.bboxBitmap = self.mod.bytearray([0x24, 0x42]) if hasattr(self.mod, "bytearray") else bytearray([0x24, 0x42])
        enc.bboxStream = b"PREVIOUS"
        return dict(self=enc, glyphID=gid, glyph=g, _box=box, _calc=calc, _comp=comp, _gid=gid, _G=_G)

    def call(self, f, a):
        cls = type(a.self)
        cls._encodeBBox(a.self, a.glyphID, a.glyph)
        bitmap, stream = list(a.self.bboxBitmap), a.self.bboxStream
        dec = cls.__new__(cls)
        dec.bboxBitmap, dec.bboxStream = a.self.bboxBitmap, stream[8:]
        back = a._G()
        back.numberOfContours = a.glyph.numberOfContours
        f(dec, a.glyphID, back)
        return bitmap, stream, back, dec.bboxStream

    @staticmethod
    def _post(a, r):
        bitmap, stream, back, rest = r
        differs = Or(*[Not(eq(x, y)) for x, y in zip(a._box, a._calc)])
        stored = True if a._comp else differs
        byte, mask = a._gid >> 3, 0x80 >> (a._gid & 7)
        old = [0x24, 0x42]
        cs = []
        for i, b in enumerate(bitmap):
            want = old[i] | mask if i == byte else old[i]
            cs.append(eq(b, Ite(stored, want, old[i])) if i == byte else eq(b, old[i]))
        sb = _items(stream)
        n_extra = len(sb) - 8
        cs.append(eq(n_extra, Ite(stored, 8, 0)))
        if n_extra == 8:
            for k, v in enumerate(a._box):
                w = sb[8 + 2 * k] * 256 + sb[9 + 2 * k]
                cs.append(eq(Ite(w >= 32768, w - 65536, w), v))
            cs.append(not back.recalculated and len(_items(rest)) == 0)
            cs += [eq(getattr(back, nm), v) for nm, v in zip(("xMin", "yMin", "xMax", "yMax"), a._box)]
        else:
            cs.append(back.recalculated)
            cs += [eq(getattr(back, nm), v) for nm, v in zip(("xMin", "yMin", "xMax", "yMax"), a._box)]      # equal to the computed one on this path
        return And(*cs)

    ensures = [prop("box-stored-exactly-when-needed-and-read-back", lambda a, old, r: WOFF2BBoxCodec._post(a, r))]


@contract
class WOFF2OverlapSimpleFlagCodec(Contract):
    """WOFF2GlyfTable._encodeOverlapSimpleFlag then _decodeOverlapSimpleFlag for glyph ids 0, 7, 8
    and 14 (whose bit is already set) and EVERY first flag byte: the glyph's bit (bit 7 - g % 8 of byte g // 8) is set exactly
    when flags[0] has OVERLAP_SIMPLE (0x40), no other bit of the bitmap changes; reading it back
    into a glyph whose flags lack the bit (the triplet decoder only produces on-curve bits)
    restores it exactly when it was there, and changes no other flag or flag bit; a glyph with
    no contours is never looked at; a font without the bitmap (decoder's None) changes nothing."""
    module = "fontTools.ttLib.woff2"
    qualname = "WOFF2GlyfTable._decodeOverlapSimpleFlag"
    props = ("C04", "C15")
    variants = tuple((gid, nc) for gid in (0, 7, 8, 14) for nc in (2, 0, -1)) + (("no-bitmap", 2),)
    level = "PF"

    def rebind(self):
        return std("struct", "len", "bytes", "bytearray", "array", "int")

    def args(self, S, variant):
        gid, nc = variant
        f0 = S.int("flags0", 0, 255)
        on = [S.int("on%d" % i, 0, 1) for i in range(3)]

        class _G:
            pass
        g = _G()
        g.numberOfContours = nc
        g.flags = [f0, 1, 0]
        enc = self.mod.WOFF2GlyfTable.__new__(self.mod.WOFF2GlyfTable)
        enc.overlapSimpleBitmap = [0x24, 0x42]
        return dict(self=enc, glyphID=7 if gid == "no-bitmap" else gid, glyph=g, _f0=f0, _on=on, _G=_G, _gid=gid, _nc=nc)

    def call(self, f, a):
        cls = type(a.self)
        cls._encodeOverlapSimpleFlag(a.self, a.glyph, a.glyphID)
        bitmap = list(a.self.overlapSimpleBitmap)
        dec = cls.__new__(cls)
        dec.overlapSimpleBitmap = None if a._gid == "no-bitmap" else list(bitmap)
        back = a._G()
        back.numberOfContours = a._nc
        back.flags = list(a._on)
        f(dec, back, a.glyphID)
        return bitmap, back.flags, dec.overlapSimpleBitmap

    @staticmethod
    def _post(a, r):
        bitmap, flags, after = r
        old = [0x24, 0x42]
        gid = a.glyphID
        byte, mask = gid >> 3, 0x80 >> (gid & 7)
        has = eq((a._f0 // 64) % 2, 1) if a._nc > 0 else False
        cs = [len(bitmap) == 2, len(flags) == 3]
        for i, b in enumerate(bitmap):
            cs.append(eq(b, Ite(has, old[i] | mask, old[i])) if i == byte else eq(b, old[i]))
        if a._gid == "no-bitmap":
            cs.append(after is None)
            cs += [eq(x, y) for x, y in zip(flags, a._on)]
        else:
            cs += [eq(x, y) for x, y in zip(after, bitmap)]
            stored = Or(has, bool(old[byte] & mask)) if a._nc > 0 else False
            cs.append(eq(flags[0], Ite(stored, a._on[0] + 64, a._on[0])))
            cs += [eq(x, y) for x, y in zip(flags[1:], a._on[1:])]
        return And(*cs)

    ensures = [prop("overlap-bit-stored-and-read-back", lambda a, old, r: WOFF2OverlapSimpleFlagCodec._post(a, r))]


@contract
class WOFF2ContourEndPointsRoundTrip(Contract):
    """WOFF2GlyfTable._encodeCoordinates then _decodeCoordinates for one to three contours with
    EVERY strictly increasing end-point list (contour sizes 1..65535): the nPoints stream holds one
    255UInt16 per contour, the decoder consumes exactly those bytes (what follows is left for the
    next glyph) and rebuilds the same endPtsOfContours; both sides then handle the triplets
    and the instructions, in that order, once each; a cubic glyph is refused, never written."""
    module = "fontTools.ttLib.woff2"
    qualname = "WOFF2GlyfTable._decodeCoordinates"
    props = ("C04", "C15")
    variants = (1, 2, 3, "cubic")
    level = "PF"
    deadline_s = 600
    assumptions = ("_encodeTriplets/_decodeTriplets/_encodeInstructions/_decodeInstructions are recorders here (own contracts: TripletEncode, TripletDecode, WOFF2InstructionsRoundTrip)",)
    only_raises = (NotImplementedError,)
    expect_exceptional_only = ("cubic",)

    def rebind(self):
        return std("struct", "len", "bytes", "bytearray", "array", "int", "byteord", "bytechr")

    def args(self, S, variant):
        n = 2 if variant == "cubic" else variant
        sizes = [S.int("size%d" % i, 1, 65535) for i in range(n)]
        ends, e = [], -1
        for s in sizes:
            e = e + s
            ends.append(e)

        class _G:
            pass
        g = _G()
        g.numberOfContours = n
        g.endPtsOfContours = ends
        g.flags = [1, 0, 1] + ([0x80] if variant == "cubic" else [])
        calls = []
        cls = self.mod.WOFF2GlyfTable

        class _T(cls):
            def _encodeTriplets(self, glyph):
                calls.append(("enc-triplets", glyph))

            def _encodeInstructions(self, glyph):
                calls.append(("enc-instructions", glyph))

            def _decodeTriplets(self, glyph):
                calls.append(("dec-triplets", glyph, list(glyph.endPtsOfContours), self.nPointsStream))

            def _decodeInstructions(self, glyph):
                calls.append(("dec-instructions", glyph))
        enc = _T.__new__(_T)
        enc.nPointsStream = b""
        return dict(self=enc, glyph=g, _ends=ends, _n=n, _G=_G, _T=_T, _calls=calls, _cubic=variant == "cubic")

    raises = {NotImplementedError: lambda a: a._cubic}

    def call(self, f, a):
        T = a._T
        real_pack, lens = self.mod.pack255UShort, []

        def pack(value):
            out = real_pack(value)
            lens.append(len(_items(out)))
            return out
        self.mod.pack255UShort = pack
        try:
            T._encodeCoordinates(a.self, a.glyph)
        except NotImplementedError:
            assert a.self.nPointsStream == b"" and not a._calls, "refused after writing"
            raise
        finally:
            self.mod.pack255UShort = real_pack
        a._lens = lens
        stream = a.self.nPointsStream
        dec = T.__new__(T)
        dec.nPointsStream = stream + b"NEXT"
        back = a._G()
        back.numberOfContours = a._n
        f(dec, back)
        return stream, back, dec.nPointsStream

    @staticmethod
    def _post(a, r):
        stream, back, rest = r
        calls = a._calls
        if [c[0] for c in calls] != ["enc-triplets", "enc-instructions", "dec-triplets", "dec-instructions"]:
            return False
        if calls[0][1] is not a.glyph or calls[1][1] is not a.glyph or calls[2][1] is not back or calls[3][1] is not back:
            return False
        bs = _items(stream)
        cs = []
        pos = 0
        if len(a._lens) != a._n:
            return False
        for i in range(a._n):
            # a._lens: how many bytes pack255UShort returned for contour i (concrete on each path)
            v, used = spec_255_decode(bs[pos:pos + 3])
            want = a._ends[i] - (a._ends[i - 1] if i else -1)
            cs += [eq(v, want), eq(used, a._lens[i])]
            pos += a._lens[i]
        cs.append(pos == len(bs))
        cs.append(rest == b"NEXT")
        cs.append(len(back.endPtsOfContours) == a._n)
        cs += [eq(x, y) for x, y in zip(back.endPtsOfContours, a._ends)]
        cs += [eq(x, y) for x, y in zip(calls[2][2], a._ends)]          # the triplet decoder already sees them
        cs.append(calls[2][3] == b"NEXT")                                 # ... and the stream already advanced
        return And(*cs)

    ensures = [prop("one-255UInt16-per-contour-and-read-back", lambda a, old, r: WOFF2ContourEndPointsRoundTrip._post(a, r))]


@contract
class WOFF2InstructionsRoundTrip(Contract):
    """WOFF2GlyfTable._encodeInstructions then _decodeInstructions for programs of 0, 5, 253, 506
    and 762 bytes (one per 255UInt16 spelling), content symbolic where short: the glyph stream
    gains exactly the 255UInt16 of the length, the instruction stream exactly the bytes, both
    appended after what earlier glyphs wrote; the decoder hands exactly those bytes to the new
    glyph's program and leaves both streams at the next glyph's data."""
    module = "fontTools.ttLib.woff2"
    qualname = "WOFF2GlyfTable._decodeInstructions"
    props = ("C04", "C15")
    variants = (0, 5, 253, 506, 762)
    level = "PF"
    assumptions = ("ttProgram.Program is a recorder here (bytecode is opaque to the WOFF2 transform)",)

    def rebind(self):
        outer = self

        class _Program:
            def fromBytecode(self, data):
                outer._got.append(data)

        class _tt:
            Program = _Program
        return dict(std("struct", "len", "bytes", "bytearray", "array", "int", "byteord", "bytechr"), ttProgram=_tt)

    def args(self, S, variant):
        self._got = []
        n = variant
        code = S.bytes("code", n) if n <= 5 else bytes((i * 37 + 11) % 256 for i in range(n))

        class _P:
            def getBytecode(self):
                return code

        class _G:
            pass
        g = _G()
        g.program = _P()
        enc = self.mod.WOFF2GlyfTable.__new__(self.mod.WOFF2GlyfTable)
        enc.glyphStream, enc.instructionStream = b"GS", b"IS"
        return dict(self=enc, glyph=g, _code=code, _n=n, _G=_G)

    def call(self, f, a):
        cls = type(a.self)
        cls._encodeInstructions(a.self, a.glyph)
        gs, ins = a.self.glyphStream, a.self.instructionStream
        dec = cls.__new__(cls)
        dec.glyphStream, dec.instructionStream = gs[2:] + b"NEXTG", ins[2:] + b"NEXTI"
        back = a._G()
        f(dec, back)
        return gs, ins, back, dec.glyphStream, dec.instructionStream, list(self._got)

    @staticmethod
    def _post(a, r):
        gs, ins, back, grest, irest, got = r
        g, i = _items(gs), _items(ins)
        if g[:2] != list(b"GS") or i[:2] != list(b"IS") or len(got) != 1 or not hasattr(back, "program"):
            return False
        v, used = spec_255_decode(g[2:5])
        return And(eq(v, a._n), eq(used, len(g) - 2), len(i) - 2 == a._n, ins[2:] == a._code,
                   got[0] == a._code, grest == b"NEXTG", irest == b"NEXTI")

    ensures = [prop("length-then-bytes-and-read-back", lambda a, old, r: WOFF2InstructionsRoundTrip._post(a, r))]


@contract
class WOFF2GlyphDispatch(Contract):
    """WOFF2GlyfTable._encodeGlyph then _decodeGlyph for EVERY int16 numberOfContours: the count
    is stored as one big-endian int16 at the glyph's slot of the nContour stream and read back
    unchanged; an empty glyph (0) writes and reads nothing else; a composite (-1) goes
    through components then bounding box; any other through coordinates, the overlap flag,
    then the bounding box - the same steps, in the same order, with the same glyph id, on both
    sides (the streams are positional: a step skipped or reordered on one side shifts every
    later glyph)."""
    module = "fontTools.ttLib.woff2"
    qualname = "WOFF2GlyfTable._decodeGlyph"
    props = ("C04",)
    variants = (0, 2)
    level = "PF"
    assumptions = ("the per-part encoders/decoders are recorders here (own contracts: WOFF2ContourEndPointsRoundTrip, WOFF2OverlapSimpleFlagCodec, WOFF2BBoxCodec, GlyphComponentCompile/Decompile)",)

    def rebind(self):
        return std("struct", "len", "bytes", "bytearray", "array", "int", "byteord", "bytechr")

    def args(self, S, variant):
        gid = variant
        nc = S.int("numberOfContours", -32768, 32767)
        calls = []
        cls = self.mod.WOFF2GlyfTable

        class _G:
            def isComposite(self):
                return self.numberOfContours == -1
        g = _G()
        g.numberOfContours = nc

        def rec(name, with_gid):
            if with_gid == "first":
                return lambda self, glyphID, glyph: calls.append((name, glyph, glyphID))
            if with_gid == "last":
                return lambda self, glyph, glyphID: calls.append((name, glyph, glyphID))
            return lambda self, glyph: calls.append((name, glyph, None))

        class _T(cls):
            _encodeComponents = rec("e-components", None)
            _encodeCoordinates = rec("e-coordinates", None)
            _encodeOverlapSimpleFlag = rec("e-overlap", "last")
            _encodeBBox = rec("e-bbox", "first")
            _decodeComponents = rec("d-components", None)
            _decodeCoordinates = rec("d-coordinates", None)
            _decodeOverlapSimpleFlag = rec("d-overlap", "last")
            _decodeBBox = rec("d-bbox", "first")

            def getGlyphName(self, glyphID):
                return "g%d" % glyphID

            def __getitem__(self, name):
                return {"g%d" % gid: g}[name]
        enc = _T.__new__(_T)
        enc.nContourStream = b"\x00\x05" * gid
        return dict(self=enc, glyphID=gid, _g=g, _nc=nc, _T=_T, _calls=calls, _gid=gid)

    def call(self, f, a):
        T = a._T
        T._encodeGlyph(a.self, a.glyphID)
        stream = a.self.nContourStream
        n_enc = len(a._calls)
        dec = T.__new__(T)
        its = _items(stream)
        words = [its[2 * k] * 256 + its[2 * k + 1] for k in range(len(its) // 2)]
        dec.nContourStream = [Ite(w >= 32768, w - 65536, w) if not isinstance(w, int) else (w - 65536 if w >= 32768 else w) for w in words]   # what array("h") + byteswap gives
        back = f(dec, a.glyphID)
        return stream, back, a._calls[:n_enc], a._calls[n_enc:]

    @staticmethod
    def _post(a, r):
        stream, back, enc_calls, dec_calls = r
        its = _items(stream)
        if len(its) != 2 * a._gid + 2 or its[:2 * a._gid] != list(b"\x00\x05" * a._gid):
            return False
        w = its[-2] * 256 + its[-1]
        kind_e = [c[0][2:] for c in enc_calls]
        kind_d = [c[0][2:] for c in dec_calls]
        shape = ([] if not kind_e else kind_e)
        want = Ite(eq(a._nc, 0), 0, Ite(eq(a._nc, -1), 1, 2))
        got = {(): 0, ("components", "bbox"): 1, ("coordinates", "overlap", "bbox"): 2}.get(tuple(shape), 3)
        ok_objs = all(c[1] is a._g for c in enc_calls) and all(c[1] is back for c in dec_calls)
        ok_gids = all(c[2] is None or c[2] == a._gid for c in enc_calls + dec_calls) and \
            [c[2] is None for c in enc_calls] == [c[2] is None for c in dec_calls]
        return And(eq(Ite(w >= 32768, w - 65536, w), a._nc), eq(back.numberOfContours, a._nc),
                   kind_e == kind_d, eq(want, got), ok_objs, ok_gids)

    ensures = [prop("count-stored-and-same-steps-both-sides", lambda a, old, r: WOFF2GlyphDispatch._post(a, r))]


@contract
class WOFF2ComponentsLoop(Contract):
    """WOFF2GlyfTable._encodeComponents then _decodeComponents for one to three components, with
    and without a program: every component but the last is compiled with MORE_COMPONENTS and
    without the instructions flag, the last without MORE and with the instructions flag exactly
    when the glyph has a program; the composite stream gains the records in order after what
    earlier glyphs wrote; instructions are written exactly when there is a program.  The
    decoder reads records until one lacks MORE (flags symbolic there: any record may carry the
    instructions flag), reads instructions exactly when some record had the flag, and leaves the
    stream at the next glyph's data."""
    module = "fontTools.ttLib.woff2"
    qualname = "WOFF2GlyfTable._decodeComponents"
    props = ("C04", "C14")
    variants = tuple((n, prog) for n in (1, 2, 3) for prog in (False, True))
    level = "PF"
    assumptions = ("GlyphComponent.compile / decompile are recorders here (own contracts: GlyphComponentCompile, GlyphComponentDecompile)",)

    def rebind(self):
        outer = self

        class _Component:
            def decompile(self, data, glyfTable):
                k = len(outer._decoded)
                outer._decoded.append((self, data, glyfTable))
                more = 1 if k < outer._n - 1 else 0
                return more, outer._have[k], data[4:]

        class _glyf:
            GlyphComponent = _Component
        self._glyf = _glyf
        return std("struct", "len", "bytes", "bytearray", "array", "int", "byteord", "bytechr")

    def args(self, S, variant):
        n, prog = variant
        self._n, self._decoded = n, []
        self._have = [S.int("haveInstr%d" % k, 0, 1) for k in range(n)]
        compiled, calls = [], []

        class _C:
            def __init__(self, k):
                self.k = k

            def compile(self, more, haveInstructions, glyfTable):
                compiled.append((self.k, more, haveInstructions, glyfTable))
                return b"CMP" + bytes([48 + self.k])

        class _G:
            pass
        g = _G()
        g.components = [_C(k) for k in range(n)]
        if prog:
            g.program = "program"
        cls = self.mod.WOFF2GlyfTable

        class _T(cls):
            def _encodeInstructions(self, glyph):
                calls.append(("enc-instructions", glyph, self.compositeStream))

            def _decodeInstructions(self, glyph):
                calls.append(("dec-instructions", glyph, self.compositeStream))
        enc = _T.__new__(_T)
        enc.compositeStream = b"PREV"
        return dict(self=enc, glyph=g, _n=n, _prog=prog, _compiled=compiled, _calls=calls, _T=_T, _G=_G, _have=self._have)

    def call(self, f, a):
        T = a._T
        T._encodeComponents(a.self, a.glyph)
        stream = a.self.compositeStream
        enc_calls = list(a._calls)
        del a._calls[:]
        dec = T.__new__(T)
        dec.compositeStream = stream[4:] + b"NEXT"
        back = a._G()
        real = self.mod.getTableModule          # patched here (not in rebind) so that a native replay sees the recorder too
        self.mod.getTableModule = lambda tag: {"glyf": self._glyf}[tag]
        try:
            f(dec, back)
        finally:
            self.mod.getTableModule = real
        return stream, enc_calls, list(a._calls), back, dec, list(self._decoded)

    @staticmethod
    def _post(a, r):
        stream, enc_calls, dec_calls, back, dec, decoded = r
        n = a._n
        want = b"PREV" + b"".join(b"CMP" + bytes([48 + k]) for k in range(n))
        if bytes(_items(stream)) != want:
            return False
        if [c[0] for c in a._compiled] != list(range(n)) or any(c[3] is not a.self for c in a._compiled):
            return False
        flags_ok = all(bool(c[1]) == (c[0] < n - 1) and bool(c[2]) == (a._prog and c[0] == n - 1) for c in a._compiled)
        enc_ok = (len(enc_calls) == 1 and enc_calls[0][1] is a.glyph and bytes(_items(enc_calls[0][2])) == want) if a._prog else not enc_calls
        if not (flags_ok and enc_ok):
            return False
        if len(decoded) != n or len(back.components) != n or any(x is not d[0] for x, d in zip(back.components, decoded)):
            return False
        if any(bytes(_items(d[1])) != want[4 + 4 * k:] + b"NEXT" or d[2] is not dec for k, d in enumerate(decoded)):
            return False
        any_instr = Or(*[eq(h, 1) for h in a._have])
        if dec_calls:
            shape = len(dec_calls) == 1 and dec_calls[0][1] is back and bytes(_items(dec_calls[0][2])) == b"NEXT"
            return And(shape, any_instr, bytes(_items(dec.compositeStream)) == b"NEXT")
        return And(Not(any_instr), bytes(_items(dec.compositeStream)) == b"NEXT")

    ensures = [prop("records-in-order-flags-on-the-last-and-read-back", lambda a, old, r: WOFF2ComponentsLoop._post(a, r))]


@contract
class WOFF2GlyfContainerRoundTrip(Contract):
    """WOFF2GlyfTable.transform then reconstruct for 1, 8, 9 and 33 glyphs, stream contents
    symbolic, with and without overlap bits, with and without a glyph order: the header says
    version 0, optionFlags bit 0 exactly when some overlap bit is set, the glyph count, head's
    indexToLocFormat and the seven stream sizes (the bbox size includes the bitmap of
    4 * ceil(n / 32) bytes); the seven streams follow in the W3C order, then the overlap bitmap
    of ceil(n / 8) bytes exactly when flagged, and nothing else; maxp.numGlyphs is updated.
    reconstruct gives every stream back to the glyph decoder unchanged (nContour as signed
    big-endian words, both bitmaps split off), sets head.indexToLocFormat, decodes glyph ids
    0..n-1 in order under the font's glyph names (or .notdef, glyph00001, ... without an
    order), and refuses - TTLibError - data with one byte missing or one byte too many."""
    module = "fontTools.ttLib.woff2"
    qualname = "WOFF2GlyfTable.reconstruct"
    props = ("C04",)
    variants = tuple((n, ov, order, cut) for n in (1, 8, 9, 33) for ov in (False, True) for order in (True, False) for cut in (0,)) + \
        ((9, True, True, -1), (9, True, True, 1), (9, False, True, -1), (9, False, True, 1))
    level = "PF"
    deadline_s = 600
    expect_exceptional_only = ((9, True, True, -1), (9, True, True, 1), (9, False, True, -1), (9, False, True, 1))
    only_raises = (TTLibError,)
    assumptions = ("_encodeGlyph / _decodeGlyph are recorders here (own contract: WOFF2GlyphDispatch and the per-part codecs)",)

    def rebind(self):
        from pyvc.models import sstruct_shadow
        return dict(std("struct", "len", "bytes", "bytearray", "array", "int", "byteord", "bytechr", "bytesjoin"), sstruct=sstruct_shadow())

    STREAMS = ("nContourStream", "nPointsStream", "flagStream", "glyphStream", "compositeStream", "bboxStream", "instructionStream")

    def args(self, S, variant):
        n, ov, order, cut = variant
        cls = self.mod.WOFF2GlyfTable
        chunks = {}
        for k in range(n):
            chunks[k] = dict(nContourStream=S.bytes("nc%d" % k, 2), nPointsStream=S.bytes("np%d" % k, k % 3),
                             flagStream=S.bytes("fl%d" % k, 1), glyphStream=S.bytes("gl%d" % k, 2 if k < 2 else 0),
                             compositeStream=b"", bboxStream=S.bytes("bb%d" % k, 8 if k == 0 else 0),
                             instructionStream=S.bytes("in%d" % k, 1 if k == n - 1 else 0))
        decoded = []

        class _T(cls):
            def _encodeGlyph(self, glyphID):
                for name, b in chunks[glyphID].items():
                    setattr(self, name, getattr(self, name) + b)
                if glyphID == 0:
                    self.bboxBitmap[0] |= 0x80
                if ov and glyphID in (0, n - 1):
                    self.overlapSimpleBitmap[glyphID >> 3] |= 0x80 >> (glyphID & 7)

            def _decodeGlyph(self, glyphID):
                decoded.append(glyphID)
                return "decoded-%d" % glyphID

        class _Obj:
            pass
        head, maxp = _Obj(), _Obj()
        head.indexToLocFormat = S.int("indexToLocFormat", 0, 1)
        maxp.numGlyphs = 4242
        names = ["name%d" % k for k in range(n)]

        class _Font(dict):
            def getGlyphOrder(self):
                return list(names) if order else None
        enc = _T.__new__(_T)
        enc.glyphs = {nm: None for nm in names}
        enc.glyphOrder = list(names)
        return dict(self=enc, _n=n, _ov=ov, _order=order, _cut=cut, _T=_T, _chunks=chunks, _decoded=decoded,
                    _font=_Font(head=head, maxp=maxp), _Font=_Font, _Obj=_Obj, _names=names, _idx=head.indexToLocFormat)

    raises = {TTLibError: lambda a: a._cut != 0}

    def call(self, f, a):
        T = a._T
        data = T.transform(a.self, a._font)
        a._maxp = a._font["maxp"].numGlyphs
        dec = T.__new__(T)
        head2 = a._Obj()
        head2.indexToLocFormat = 7
        font2 = a._Font(head=head2)
        if a._cut < 0:
            data = data[:-1]
        elif a._cut > 0:
            data = data + b"\x00"
        f(dec, data, font2)
        return data, dec, head2

    @staticmethod
    def _post(a, r):
        data, dec, head2 = r
        n = a._n
        its = _items(data)
        streams = {s: [] for s in WOFF2GlyfContainerRoundTrip.STREAMS}
        for k in range(n):
            for s in streams:
                streams[s] += _items(a._chunks[k][s])
        bm = [0] * (((n + 31) >> 5) << 2)
        bm[0] = 0x80
        ovb = [0] * ((n + 7) >> 3)
        if a._ov:
            for g in (0, n - 1):
                ovb[g >> 3] |= 0x80 >> (g & 7)
        body = []
        sizes = []
        for s in WOFF2GlyfContainerRoundTrip.STREAMS:
            part = (bm + streams[s]) if s == "bboxStream" else streams[s]
            sizes.append(len(part))
            body += part
        tail = ovb if a._ov else []
        if len(its) != 36 + len(body) + len(tail):
            return False

        def be(bs):
            v = 0
            for b in bs:
                v = v * 256 + b
            return v
        cs = [eq(be(its[0:2]), 0), eq(be(its[2:4]), 1 if a._ov else 0), eq(be(its[4:6]), n), eq(be(its[6:8]), a._idx)]
        cs += [eq(be(its[8 + 4 * i:12 + 4 * i]), sz) for i, sz in enumerate(sizes)]
        cs += [eq(x, y) for x, y in zip(its[36:], body + tail)]
        cs.append(eq(a._maxp, n))
        # read back
        for s in WOFF2GlyfContainerRoundTrip.STREAMS:
            got = getattr(dec, s)
            if s == "nContourStream":
                got = list(got)
                if len(got) != n:
                    return False
                for k in range(n):
                    w = be(streams[s][2 * k:2 * k + 2])
                    cs.append(eq(got[k], Ite(w >= 32768, w - 65536, w)))
            else:
                g = _items(got)
                if len(g) != len(streams[s]):
                    return False
                cs += [eq(x, y) for x, y in zip(g, streams[s])]
        if list(dec.bboxBitmap) != bm:
            return False
        if (dec.overlapSimpleBitmap is None) != (not a._ov) or (a._ov and list(dec.overlapSimpleBitmap) != ovb):
            return False
        cs.append(eq(head2.indexToLocFormat, a._idx))
        names = a._names if a._order else [".notdef"] + ["glyph%05d" % i for i in range(1, n)]
        cs.append(a._decoded == list(range(n)) and list(dec.glyphs.items()) == [(nm, "decoded-%d" % k) for k, nm in enumerate(names)]
                  and list(dec.glyphOrder) == names)
        return And(*cs)

    ensures = [prop("header-streams-bitmaps-and-read-back", lambda a, old, r: WOFF2GlyfContainerRoundTrip._post(a, r))]


@contract
class WOFF2LocaCompile(Contract):
    """WOFF2LocaTable.compile for three symbolic uint32 offsets: with the WOFF2 glyf table's
    indexFormat 0 it writes offset / 2 as big-endian uint16 each - and refuses (TTLibError) exactly
    when some offset is odd or reaches 0x20000, never truncating; with indexFormat 1 it writes
    big-endian uint32; when the glyf table carries no indexFormat (or is absent) it defers to
    the ordinary loca compiler."""
    module = "fontTools.ttLib.woff2"
    qualname = "WOFF2LocaTable.compile"
    props = ("C04",)
    variants = (0, 1, "no-glyf", "glyf-without-format")
    level = "PF"
    only_raises = (TTLibError,)
    assumptions = ("table__l_o_c_a.compile is a recorder in the two deferring variants (own contract: LocaCompile)",)

    def rebind(self):
        return std("struct", "len", "bytes", "bytearray", "array", "int", "byteord", "bytechr")

    def args(self, S, variant):
        locs = [S.int("loc%d" % i, 0, 0xFFFFFFFF) for i in range(3)]
        cls = self.mod.WOFF2LocaTable
        t = cls.__new__(cls)
        t.locations = list(locs)

        class _Glyf:
            pass
        g = _Glyf()
        if variant in (0, 1):
            g.indexFormat = variant
        font = {} if variant == "no-glyf" else {"glyf": g}
        return dict(self=t, ttFont=font, _locs=locs, _v=variant)

    raises = {TTLibError: lambda a: And(a._v == 0, Or(*[Or(l >= 0x20000, Not(eq(l % 2, 0))) for l in a._locs]))}

    def call(self, f, a):
        base = type(a.self).__mro__[1]
        real = base.compile
        seen = []

        def compile_(self, ttFont):
            seen.append((self, ttFont))
            return b"PARENT"
        base.compile = compile_
        try:
            return f(a.self, a.ttFont), seen
        finally:
            base.compile = real

    @staticmethod
    def _post(a, r):
        data, seen = r
        if a._v not in (0, 1):
            return data == b"PARENT" and len(seen) == 1 and seen[0][0] is a.self and seen[0][1] is a.ttFont
        its = _items(data)
        w = 2 if a._v == 0 else 4
        if seen or len(its) != 3 * w:
            return False
        cs = []
        for i, l in enumerate(a._locs):
            v = 0
            for b in its[w * i:w * i + w]:
                v = v * 256 + b
            cs.append(eq(v * 2, l) if a._v == 0 else eq(v, l))
        return And(*cs)

    ensures = [prop("offsets-in-the-glyf-tables-format-or-refused", lambda a, old, r: WOFF2LocaCompile._post(a, r))]


@contract
class WOFF2FlavorDataOffsets(Contract):
    """WOFF2Writer._calcFlavorDataOffsetsAndSize for EVERY start offset and every metadata /
    private-data length: metadata (when present) starts at the given offset, metaLength is the
    compressed length and metaOrigLength the uncompressed one; private data (when present) starts
    at the next multiple of four at or after the end of the metadata - never more than three
    bytes later - and has its own length; an absent block has offset and lengths 0; the result is
    the end of the last block."""
    module = "fontTools.ttLib.woff2"
    qualname = "WOFF2Writer._calcFlavorDataOffsetsAndSize"
    props = ("C04",)
    level = "P"
    assumptions = ("brotli.compress is a stub returning bytes of an arbitrary (symbolic) length",)

    def rebind(self):
        outer = self

        class _brotli:
            MODE_TEXT = "text"

            @staticmethod
            def compress(data, mode=None):
                outer._compressed_from = (data, mode)
                return outer._comp
        self._brotli = _brotli
        return std("struct", "len", "bytes", "int")

    def args(self, S, variant):
        def blob(name):
            t = Tail(name)
            S.ctx.symbols[name + ".len"] = t.n.t
            S.ctx.assume_term(t.n.t >= 0)
            return SymBytes([], t), t.n
        if S.concrete:
            meta = bytes(min(S.int("meta.len", 0), 1 << 20))
            priv = bytes(min(S.int("priv.len", 0), 1 << 20))
            self._comp = bytes(min(S.int("comp.len", 0), 1 << 20))
            ml, pl, cl = len(meta), len(priv), len(self._comp)
        else:
            (meta, ml), (priv, pl), (self._comp, cl) = blob("meta"), blob("priv"), blob("comp")

        class _FD:
            pass
        fd = _FD()
        fd.metaData, fd.privData = meta, priv
        cls = self.mod.WOFF2Writer
        w = cls.__new__(cls)
        w.flavorData = fd
        return dict(self=w, start=S.int("start", 0, 0xFFFFFFFF), _ml=ml, _pl=pl, _cl=cl, _meta=meta, _comp=self._comp)

    @staticmethod
    def _post(a, r):
        w = a.self
        has_meta, has_priv = a._ml > 0, a._pl > 0
        end_meta = Ite(has_meta, a.start + a._cl, a.start)
        cs = [eq(w.metaOffset, Ite(has_meta, a.start, 0)), eq(w.metaLength, Ite(has_meta, a._cl, 0)),
              eq(w.metaOrigLength, Ite(has_meta, a._ml, 0)),
              eq(w.privLength, Ite(has_priv, a._pl, 0)),
              Implies(has_priv, And(eq(w.privOffset % 4, 0), w.privOffset >= end_meta, w.privOffset - end_meta <= 3)),
              Implies(Not(has_priv), eq(w.privOffset, 0)),
              eq(r, Ite(has_priv, w.privOffset + a._pl, end_meta))]
        return And(*cs)

    ensures = [prop("blocks-placed-aligned-and-sized", lambda a, old, r: WOFF2FlavorDataOffsets._post(a, r)),
               internal("compressed-data-is-kept-for-writing", lambda a, old, r: WOFF2FlavorDataOffsets._kept(a))]

    @staticmethod
    def _kept(a):
        c = a.self.compressedMetaData
        if c is a._comp:
            return a._ml > 0
        return And(Not(a._ml > 0), isinstance(c, bytes) and c == b"")

    def call(self, f, a):
        missing = object()
        real = getattr(self.mod, "brotli", missing)          # patched here (not in rebind) so that a native replay sees the stub too
        self.mod.brotli = self._brotli
        try:
            return f(a.self, a.start)
        finally:
            if real is missing:
                del self.mod.brotli
            else:
                self.mod.brotli = real


@contract
class WOFF2OrigOffsets(Contract):
    """WOFF2Writer._calcSFNTChecksumsLengthsAndOffsets for three tables (one of them head) whose
    data have ANY lengths: the 'original' offsets are those of an uncompressed sfnt with the same
    tables in the same order - the first right after a directory of 12 + 16 * n bytes, each
    next one at the previous offset plus the previous length rounded up to a multiple of four
    (never more than three bytes of padding) - origLength is the data's length, the checksum
    is taken over the data itself, for head with checkSumAdjustment (bytes 8..11) zeroed and
    nothing else changed; the result is the end of the last table, padded."""
    module = "fontTools.ttLib.woff2"
    qualname = "WOFF2Writer._calcSFNTChecksumsLengthsAndOffsets"
    props = ("C04",)
    variants = ("head-first", "head-middle", "head-last")
    level = "P"
    assumptions = ("calcChecksum is a recorder returning a fresh symbol (own contract: CalcChecksum, any length)",)

    def rebind(self):
        return std("struct", "len", "bytes", "int")

    def args(self, S, variant):
        from collections import OrderedDict
        order = {"head-first": ["head", "aaaa", "zzzz"], "head-middle": ["aaaa", "head", "zzzz"], "head-last": ["aaaa", "zzzz", "head"]}[variant]
        self._S = S
        self._sums = []

        class _E:
            pass
        tables, lens = OrderedDict(), {}
        for tag in order:
            e = _E()
            if tag == "head":
                e.data = S.bytes("head", 54)
                lens[tag] = 54
            elif S.concrete:
                e.data = bytes(min(S.int(tag + ".len", 0), 1 << 16))
                lens[tag] = len(e.data)
            else:
                t = Tail(tag)
                S.ctx.symbols[tag + ".len"] = t.n.t
                S.ctx.assume_term(t.n.t >= 0)
                e.data = SymBytes([], t)
                lens[tag] = t.n
            tables[tag] = e
        cls = self.mod.WOFF2Writer
        w = cls.__new__(cls)
        w.tables = tables
        return dict(self=w, _order=order, _lens=lens)

    def call(self, f, a):
        real = self.mod.calcChecksum
        sums = self._sums
        S = self._S

        def calc(data):
            v = S.int("sum%d" % len(sums), 0, 0xFFFFFFFF) if not S.concrete else 1000 + len(sums)
            sums.append((data, v))
            return v
        self.mod.calcChecksum = calc
        try:
            return f(a.self), list(sums)
        finally:
            self.mod.calcChecksum = real

    @staticmethod
    def _post(a, r):
        total, sums = r
        if len(sums) != 3:
            return False
        cs = []
        prev_end = 12 + 16 * 3
        for k, tag in enumerate(a._order):
            e = a.self.tables[tag]
            L = a._lens[tag]
            cs += [eq(e.origOffset, prev_end) if k == 0 else And(eq(e.origOffset % 4, 0), e.origOffset >= prev_end, e.origOffset - prev_end <= 3),
                   eq(e.origLength, L), eq(e.checkSum, sums[k][1])]
            if tag == "head":
                got, d = _items(sums[k][0]), _items(e.data)
                if len(got) != 54:
                    return False
                cs += [eq(g, 0 if 8 <= i < 12 else d[i]) for i, g in enumerate(got)]
            else:
                cs.append(sums[k][0] is e.data)
            prev_end = e.origOffset + L
        cs += [eq(total % 4, 0), total >= prev_end, total - prev_end <= 3]
        return And(*cs)

    ensures = [prop("offsets-of-the-uncompressed-sfnt", lambda a, old, r: WOFF2OrigOffsets._post(a, r))]


@contract
class WOFF2MasterChecksum(Contract):
    """WOFF2Writer._calcMasterChecksum for two tables with EVERY checksum, original offset and
    length: the directory summed is the one of the uncompressed sfnt - version, table count and
    search fields, then one 16-byte entry per table in TAG order (not insertion order) holding
    tag, checksum, ORIGINAL offset and ORIGINAL length - and the adjustment is
    0xB1B0AFBA - (sum of table checksums + directory checksum) modulo 2**32."""
    module = "fontTools.ttLib.woff2"
    qualname = "WOFF2Writer._calcMasterChecksum"
    props = ("C04",)
    level = "P"
    assumptions = ("calcChecksum is a recorder returning a fresh symbol (own contract: CalcChecksum, any length)",
                   "SFNTDirectoryEntry.toString is re-stated as struct '>4sLLL' of its four fields (own contract: SFNTWriter.close writes the same entries)")

    def rebind(self):
        return _dir_rebind()

    def args(self, S, variant):
        from collections import OrderedDict
        self._S = S

        class _E:
            pass
        tables, vals = OrderedDict(), {}
        for tag in ("zzzz", "aaaa"):
            e = _E()
            e.tag = tag
            e.checkSum = S.int(tag + ".checkSum", 0, 0xFFFFFFFF)
            e.origOffset = S.int(tag + ".origOffset", 0, 0xFFFFFFFF)
            e.origLength = S.int(tag + ".origLength", 0, 0xFFFFFFFF)
            e.offset = S.int(tag + ".offset", 0, 0xFFFFFFFF)
            e.length = S.int(tag + ".length", 0, 0xFFFFFFFF)
            tables[tag] = e
            vals[tag] = (e.checkSum, e.origOffset, e.origLength)
        cls = self.mod.WOFF2Writer
        w = cls.__new__(cls)
        w.tables, w.numTables, w.sfntVersion = tables, 2, "OTTO"
        return dict(self=w, _vals=vals)

    def call(self, f, a):
        S, seen = self._S, []
        real_calc, real_entry = self.mod.calcChecksum, self.mod.SFNTDirectoryEntry
        st = std("struct")["struct"]

        def calc(data):
            v = S.int("dirsum%d" % len(seen), 0, 0xFFFFFFFF) if not S.concrete else 77 + len(seen)
            seen.append((data, v))
            return v

        class _Entry:
            def toString(self):
                import struct as _struct
                return (_struct if S.concrete else st).pack(">4sLLL", self.tag.encode("ascii"), self.checkSum, self.offset, self.length)
        self.mod.calcChecksum, self.mod.SFNTDirectoryEntry = calc, _Entry
        try:
            return f(a.self), seen
        finally:
            self.mod.calcChecksum, self.mod.SFNTDirectoryEntry = real_calc, real_entry

    @staticmethod
    def _post(a, r):
        adj, seen = r
        if len(seen) != 1:
            return False
        d = _items(seen[0][0])
        if len(d) != 12 + 32 or d[:4] != list(b"OTTO"):
            return False

        def be(bs):
            v = 0
            for b in bs:
                v = v * 256 + b
            return v
        cs = [eq(be(d[4:6]), 2), eq(be(d[6:8]), 32), eq(be(d[8:10]), 1), eq(be(d[10:12]), 0)]
        for k, tag in enumerate(("aaaa", "zzzz")):
            o = 12 + 16 * k
            cs += [eq(x, y) for x, y in zip(d[o:o + 4], tag.encode())]
            cs += [eq(be(d[o + 4 + 4 * j:o + 8 + 4 * j]), a._vals[tag][j]) for j in range(3)]
        total = a._vals["aaaa"][0] + a._vals["zzzz"][0] + seen[0][1]
        cs.append(eq(adj, (0xB1B0AFBA - total) % (1 << 32)))
        return And(*cs)

    ensures = [prop("adjustment-over-the-uncompressed-directory", lambda a, old, r: WOFF2MasterChecksum._post(a, r))]


@contract
class WOFF2TotalSize(Contract):
    """WOFF2Writer._calcTotalSize for EVERY header size, compressed size and directory-entry
    lengths (two entries): metadata / private data are placed from the next multiple of four at
    or after header + directory entries + compressed font data (at most three bytes later), and
    the total is whatever that placement ends at."""
    module = "fontTools.ttLib.woff2"
    qualname = "WOFF2Writer._calcTotalSize"
    props = ("C04",)
    level = "P"
    assumptions = ("_calcFlavorDataOffsetsAndSize is a recorder returning a fresh symbol (own contract: WOFF2FlavorDataOffsets)",)

    def rebind(self):
        return std("struct", "len", "bytes", "int")

    def args(self, S, variant):
        from collections import OrderedDict
        lens, tables = [], OrderedDict()
        for tag in ("aaaa", "zzzz"):
            if S.concrete:
                b = bytes(min(S.int(tag + ".len", 0), 64))
                n = len(b)
            else:
                t = Tail(tag)
                S.ctx.symbols[tag + ".len"] = t.n.t
                S.ctx.assume_term(t.n.t >= 0)
                b, n = SymBytes([], t), t.n

            class _E:
                def __init__(self, b):
                    self.b = b

                def toString(self):
                    return self.b
            tables[tag] = _E(b)
            lens.append(n)
        seen = []
        end = S.int("flavor.end", 0, 0xFFFFFFFF)
        cls = self.mod.WOFF2Writer

        class _W(cls):
            def _calcFlavorDataOffsetsAndSize(self, start):
                seen.append(start)
                return end
        w = _W.__new__(_W)
        w.tables = tables
        w.directorySize = S.int("directorySize", 0, 0xFFFF)
        w.totalCompressedSize = S.int("totalCompressedSize", 0, 0xFFFFFFFF)
        return dict(self=w, _lens=lens, _seen=seen, _end=end)

    @staticmethod
    def _post(a, r):
        if len(a._seen) != 1:
            return False
        raw = a.self.directorySize + a._lens[0] + a._lens[1] + a.self.totalCompressedSize
        s = a._seen[0]
        return And(eq(r, a._end), eq(s % 4, 0), s >= raw, s - raw <= 3)

    ensures = [prop("flavor-data-from-the-padded-end-of-the-font-data", lambda a, old, r: WOFF2TotalSize._post(a, r))]


@contract
class WOFF2ReaderOffsets(Contract):
    """WOFF2Reader.__init__ for a three-table directory with EVERY stored length, header length,
    file size and decompressed size: table k starts, in the decompressed stream, where table
    k - 1 ends (the first at 0; the stream is not padded); exactly totalCompressedSize bytes are
    handed to the decompressor; the font is refused - TTLibError - exactly when the decompressed
    size differs from the sum of the stored lengths or the header's length differs from the
    file's size; nothing else escapes."""
    module = "fontTools.ttLib.woff2"
    qualname = "WOFF2Reader.__init__"
    props = ("C04",)
    level = "P"
    only_raises = (TTLibError,)
    assumptions = ("WOFF2DirectoryEntry.fromFile is a stub handing out the symbolic lengths (own contract: WOFF2DirectoryEntryRoundTrip)",
                   "brotli.decompress is a stub returning bytes of an arbitrary (symbolic) length; BytesIO, WOFF2FlavorData, TTFont are recorders")

    def rebind(self):
        return dict(_dir_rebind(), __fmt__=True)

    def args(self, S, variant):
        self._S = S
        lens = [S.int("length%d" % k, 0, 0xFFFFFFFF) for k in range(3)]
        hdr_len = S.int("header.length", 0, 0xFFFFFFFF)
        comp = S.int("totalCompressedSize", 0, 0xFFFFFFFF)
        fsize = S.int("file.size", 0, 0xFFFFFFFF)
        if S.concrete:
            dec = bytes(min(S.int("decompressed.len", 0), 1 << 20))
            dlen = len(dec)
        else:
            t = Tail("decompressed")
            S.ctx.symbols["decompressed.len"] = t.n.t
            S.ctx.assume_term(t.n.t >= 0)
            dec, dlen = SymBytes([], t), t.n
        return dict(_lens=lens, _hdr_len=hdr_len, _comp=comp, _fsize=fsize, _dec=dec, _dlen=dlen)

    raises = {TTLibError: lambda a: Or(Not(eq(a._dlen, a._lens[0] + a._lens[1] + a._lens[2])), Not(eq(a._hdr_len, a._fsize)))}

    def call(self, f, a):
        S = self._S
        st = __import__("struct") if S.concrete else std("struct")["struct"]
        header = st.pack(">4s4sLHHLLHHLLLLL", b"wOF2", b"OTTO", a._hdr_len, 3, 0, 0, a._comp, 1, 0, 0, 0, 0, 0, 0)
        log = []
        tags = ["zzzz", "aaaa", "head"]

        class _File:
            pos = 0

            def read(self, n=-1):
                log.append(("read", n))
                if len(log) == 1:
                    return b"wOF2"
                if _items(header) and len(log) == 3:
                    return header
                return "COMPRESSED"

            def seek(self, off, whence=0):
                log.append(("seek", off, whence))

            def tell(self):
                return a._fsize

        class _Entry:
            k = 0

            def fromFile(self, file):
                self.tag = tags[_Entry.k]
                self.length = a._lens[_Entry.k]
                _Entry.k += 1

        class _brotli:
            error = KeyError

            @staticmethod
            def decompress(data):
                log.append(("decompress", data))
                return a._dec
        made = {}
        patch = dict(WOFF2DirectoryEntry=_Entry, brotli=_brotli, haveBrotli=True,
                     BytesIO=lambda data: made.setdefault("buffer", ("BytesIO", data)),
                     WOFF2FlavorData=lambda reader: made.setdefault("flavor", ("flavor", reader)),
                     TTFont=lambda **kw: made.setdefault("ttFont", ("TTFont", kw)))
        missing = object()
        saved = {k: getattr(self.mod, k, missing) for k in patch}
        for k, v in patch.items():
            setattr(self.mod, k, v)
        r = self.mod.WOFF2Reader.__new__(self.mod.WOFF2Reader)
        try:
            f(r, _File())
        finally:
            for k, v in saved.items():
                if v is missing:
                    delattr(self.mod, k)
                else:
                    setattr(self.mod, k, v)
        return r, log, made

    @staticmethod
    def _post(a, r):
        rd, log, made = r
        if list(rd.tables) != ["zzzz", "aaaa", "head"]:
            return False
        e = [rd.tables[t] for t in rd.tables]
        reads = [x for x in log if x[0] == "read"]
        if len(reads) != 3 or [x for x in log if x[0] == "decompress"] != [("decompress", "COMPRESSED")]:
            return False
        return And(eq(e[0].offset, 0), eq(e[1].offset, a._lens[0]), eq(e[2].offset, a._lens[0] + a._lens[1]),
                   eq(reads[2][1], a._comp), made.get("buffer") is not None and made["buffer"][1] is a._dec and rd.transformBuffer is made["buffer"],
                   rd.flavorData is made.get("flavor") and rd.ttFont is made.get("ttFont"))

    ensures = [prop("tables-back-to-back-in-the-decompressed-stream", lambda a, old, r: WOFF2ReaderOffsets._post(a, r))]


@contract
class WOFF2TransformTablesLoop(Contract):
    """WOFF2Writer._transformTables for tables glyf, hmtx, loca, name with EVERY stored length,
    every choice of requested transforms and every outcome of the glyf / hmtx transform: tables
    are written back to back from the current offset (each at the end of the previous one, in
    directory order - the layout the reader assumes); a table is flagged transformed exactly
    when its transform was requested AND produced data, and then that data is what is stored;
    otherwise its own data is stored untouched and the flag is off; when the glyf transform
    gives up, loca is stored untransformed too (a null-transformed glyf with a transformed,
    empty loca cannot be reconstructed); the checksum adjustment is written once, after the
    last table; the result is the buffer's content."""
    module = "fontTools.ttLib.woff2"
    qualname = "WOFF2Writer._transformTables"
    props = ("C04",)
    variants = tuple((req, g, h) for req in (("glyf", "loca"), ("glyf", "loca", "hmtx"), (), ("hmtx",)) for g in (True, False) for h in (True, False))
    level = "PF"
    assumptions = ("transformTable, the directory entry's saveData and writeMasterChecksum are recorders here (own contracts: WOFF2GlyfContainerRoundTrip, WOFF2HmtxTransformRoundTrip, WOFF2MasterChecksum)",)

    def rebind(self):
        return std("struct", "len", "bytes", "int")

    def args(self, S, variant):
        from collections import OrderedDict
        req, g_ok, h_ok = variant
        log = []
        lens = {}

        class _E:
            def __init__(self, tag):
                self.tag = tag
                self.data = "raw-" + tag
                self.transformed = "unset"

            def saveData(self, buffer, data):
                log.append(("save", self.tag, data, self.offset, self.transformed))
                self.length = lens[self.tag]
        tables = OrderedDict()
        for tag in ("glyf", "hmtx", "loca", "name"):
            tables[tag] = _E(tag)
            lens[tag] = S.int(tag + ".length", 0, 0xFFFFFFFF)

        class _FD:
            pass
        fd = _FD()
        fd.transformedTables = set(req)

        class _Buf:
            def getvalue(self):
                return "BUFFER"
        cls = self.mod.WOFF2Writer

        class _W(cls):
            def transformTable(self, tag):
                log.append(("transform", tag))
                if tag == "glyf":
                    return "T-glyf" if g_ok else None
                if tag == "hmtx":
                    return "T-hmtx" if h_ok else None
                if tag == "loca":
                    return b""
                raise AssertionError("transform asked for " + tag)

            def writeMasterChecksum(self):
                log.append(("master",))
        w = _W.__new__(_W)
        w.tables, w.flavorData, w.transformBuffer = tables, fd, _Buf()
        w.nextTableOffset = S.int("start", 0, 0xFFFFFFFF)
        return dict(self=w, _req=req, _g=g_ok, _h=h_ok, _log=log, _lens=lens, _start=w.nextTableOffset)

    @staticmethod
    def _post(a, r):
        log = a._log
        if r != "BUFFER" or log[-1] != ("master",) or sum(1 for x in log if x == ("master",)) != 1:
            return False
        saves = [x for x in log if x[0] == "save"]
        if [x[1] for x in saves] != ["glyf", "hmtx", "loca", "name"]:
            return False
        glyf_t = "glyf" in a._req and a._g
        want = {"glyf": glyf_t, "hmtx": "hmtx" in a._req and a._h,
                "loca": "loca" in a._req and ("glyf" not in a._req or a._g), "name": False}
        out = {"glyf": "T-glyf", "hmtx": "T-hmtx", "loca": b""}
        cs = []
        off = a._start
        for x in saves:
            tag = x[1]
            if x[4] is not want[tag] or x[2] != (out[tag] if want[tag] else "raw-" + tag) or a.self.tables[tag].transformed is not want[tag]:
                return False
            cs.append(eq(x[3], off))
            off = off + a._lens[tag]
        cs.append(eq(a.self.nextTableOffset, off))
        return And(*cs)

    ensures = [prop("back-to-back-and-flagged-exactly-when-transformed", lambda a, old, r: WOFF2TransformTablesLoop._post(a, r))]
