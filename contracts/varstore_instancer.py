"""VarStoreInstancer (C09, C05): instancer[varidx] is the sum over the regions of the item's VarData of
(its delta under that region) x (that region's scalar at the CURRENT location) - each delta with its
own region, through VarRegionIndex - NO_VARIATION_INDEX and out-of-range indices give 0, and after
setLocation every scalar is the new location's (supports are cached, scalars are not);
VarRegion.get_support lists exactly the axes with a non-zero peak.  supportScalar is an
uninterpreted function of (location, region)."""
from pyvc.core import Contract, contract, prop, internal
from pyvc.spec import And, Or, Not, Implies, Ite, eq


class _Ns:
    def __init__(self, **kw):
        self.__dict__.update(kw)


@contract
class VarStoreInstancerValue(Contract):
    module = "fontTools.varLib.varStore"
    qualname = "VarStoreInstancer.__getitem__"
    props = ("C09", "C05")
    shadow_mode = "real"
    variants = ("two-vardata",)
    level = "PF"
    assumptions = ("A-REAL", "supportScalar is an uninterpreted function of (location, support); VarRegion.get_support returns a tag per region")

    def setup(self):
        import fontTools.varLib.varStore as vs
        self._saved = vs.supportScalar
        vs.supportScalar = lambda location, support: self._scalar[(location["_id"], support["_region"])]

    def teardown(self):
        import fontTools.varLib.varStore as vs
        vs.supportScalar = self._saved

    def args(self, S, variant):
        from fontTools.varLib.varStore import VarStoreInstancer
        regions = []
        for k in range(3):
            r = _Ns()
            r.get_support = (lambda fvar_axes, k=k: {"_region": k})
            regions.append(r)
        self._scalar = {(loc, k): S.real("scalar_%s_%d" % (loc, k)) for loc in ("A", "B") for k in range(3)}
        items0 = [[S.int("d0_%d_%d" % (i, j), -500, 500) for j in range(2)] for i in range(2)]
        items1 = [[S.int("d1_%d_%d" % (i, j), -500, 500) for j in range(3)] for i in range(1)]
        store = _Ns(Format=1, VarRegionList=_Ns(Region=regions),
                    VarData=[_Ns(VarRegionIndex=[2, 0], Item=items0), _Ns(VarRegionIndex=[1, 2, 0], Item=items1)])
        inst = VarStoreInstancer(store, [], {"_id": "A"})
        return dict(self=inst, varidx=0, _items=(items0, items1), _scalar=self._scalar)

    def call(self, f, a):
        cls = type(a.self)
        out = {}
        for loc in ("A", "B", "A"):
            cls.setLocation(a.self, {"_id": loc})
            out[loc] = [f(a.self, vi) for vi in (0, 1, (1 << 16) + 0, 0xFFFFFFFF, 2, (1 << 16) + 1, (2 << 16))]
        return out

    @staticmethod
    def _post(a, r):
        items0, items1 = a._items
        cs = []
        for loc in ("A", "B"):
            sc = lambda k: a._scalar[(loc, k)]
            want = [items0[0][0] * sc(2) + items0[0][1] * sc(0), items0[1][0] * sc(2) + items0[1][1] * sc(0),
                    items1[0][0] * sc(1) + items1[0][1] * sc(2) + items1[0][2] * sc(0), 0, 0, 0, 0]
            cs += [eq(g, w) for g, w in zip(r[loc], want)]
        return And(*cs)

    ensures = [prop("sum-of-own-deltas-times-scalars-at-the-current-location", lambda a, old, r: VarStoreInstancerValue._post(a, r))]


@contract
class VarRegionGetSupport(Contract):
    module = "fontTools.varLib.varStore"
    qualname = "VarRegion_get_support"
    props = ("C09", "C05")
    shadow_mode = "function"
    variants = ("three-axes",)
    level = "PF"
    assumptions = ("A-REAL",)

    def args(self, S, variant):
        axes = [_Ns(axisTag=t) for t in ("wght", "wdth", "opsz")]
        regs = [_Ns(StartCoord=S.real("s%d" % i), PeakCoord=S.real("p%d" % i), EndCoord=S.real("e%d" % i)) for i in range(3)]
        return dict(self=_Ns(VarRegionAxis=regs), fvar_axes=axes, _regs=regs)

    ensures = [prop("axes-with-nonzero-peak-and-their-tents", lambda a, old, r: And(*[
        And(eq(t in r, Not(eq(reg.PeakCoord, 0))),
            (not (t in r)) or And(eq(r[t][0], reg.StartCoord), eq(r[t][1], reg.PeakCoord), eq(r[t][2], reg.EndCoord)))
        for t, reg in zip(("wght", "wdth", "opsz"), a._regs)]))]


@contract
class VarStoreSubsetVarIdxes(Contract):
    """VarStore.subset_varidxes for EVERY subset of the store's items (and the no-variation index):
    every requested item is mapped to a row that IS its old row, under region lists that name the
    very same regions in the same order; rows not requested are gone (or zeroed when the first
    VarData is retained as a whole); VarData without a requested item are dropped and the others
    keep their order; with advIdxes the advance rows of the first VarData come first, in order;
    unused regions are pruned and counts are right."""
    module = "fontTools.varLib.varStore"
    qualname = "VarStore_subset_varidxes"
    props = ("C09", "C07")
    shadow_mode = "real"
    variants = ("plain", "retain-first-map", "advance-indices-first")
    level = "PF"
    assumptions = ("rows and regions are compared by identity; calculateNumShorts is a recorder",)

    def args(self, S, variant):
        from fontTools.ttLib.tables import otTables as ot
        from pyvc.ghost import SymSet
        regions = [object() for _ in range(4)]
        store = ot.VarStore()
        store.Format = 1
        store.VarRegionList = ot.VarRegionList()
        store.VarRegionList.Region, store.VarRegionList.RegionCount = list(regions), 4
        layout = [([3, 0], 3), ([1], 2), ([2, 3], 1)]
        datas, rows = [], {}
        for major, (idx, count) in enumerate(layout):
            vd = ot.VarData()
            vd.VarRegionIndex, vd.VarRegionCount = list(idx), len(idx)
            vd.Item = [[10 * major + minor + j for j in range(len(idx))] for minor in range(count)]
            vd.ItemCount = count
            vd.calculateNumShorts = (lambda optimize=True, vd=vd: setattr(vd, "_recalc", True))
            for minor, row in enumerate(vd.Item):
                rows[(major << 16) + minor] = (row, [regions[i] for i in idx])
            datas.append(vd)
        store.VarData, store.VarDataCount = datas, 3
        universe = sorted(rows) + [0xFFFFFFFF]
        want = SymSet("used", universe, S)
        kw = {}
        if variant == "retain-first-map":
            kw["retainFirstMap"] = True
        if variant == "advance-indices-first":
            kw["advIdxes"] = {2, 0}
        return dict(self=store, varIdxes=want, _kw=kw, _rows=rows, _datas=datas, _variant=variant, _regions=regions)

    def requires(self, a):
        if a._variant == "advance-indices-first":
            return And(0 in a.varIdxes, 2 in a.varIdxes)          # advance rows are requested rows
        return True

    def call(self, f, a):
        return f(a.self, a.varIdxes, **a._kw)

    @staticmethod
    def _post(a, r):
        st, used = a.self, a.varIdxes
        regions = st.VarRegionList.Region
        ok = r.get(0xFFFFFFFF) == 0xFFFFFFFF and st.VarDataCount == len(st.VarData) and st.VarRegionList.RegionCount == len(regions)
        # surviving VarData in their old order
        alive = [vd for vd in a._datas if any(vd is x for x in st.VarData)]
        ok = ok and len(alive) == len(st.VarData) and all(x is y for x, y in zip(alive, st.VarData))
        for vi, (row, regs) in a._rows.items():
            major, minor = vi >> 16, vi & 0xFFFF
            retained_whole = a._variant == "retain-first-map" and major == 0 and any(((0 << 16) + m) in used for m in range(3))
            if vi in used:
                if vi not in r:
                    return False
                M, m = r[vi] >> 16, r[vi] & 0xFFFF
                if M >= len(st.VarData) or m >= len(st.VarData[M].Item):
                    return False
                vd = st.VarData[M]
                ok = ok and vd.Item[m] is row and len(vd.VarRegionIndex) == len(regs) and all(regions[i] is x for i, x in zip(vd.VarRegionIndex, regs))
                ok = ok and (not retained_whole or r[vi] == vi)
            elif retained_whole:
                ok = ok and st.VarData[0].Item[minor] == [0] * len(row)
        # nothing but requested rows (or the retained first VarData) survives
        for M, vd in enumerate(st.VarData):
            ok = ok and vd.ItemCount == len(vd.Item) and getattr(vd, "_recalc", False)
            is_first_retained = a._variant == "retain-first-map" and vd is a._datas[0]
            if not is_first_retained:
                ok = ok and all(any(row is x for x, _ in a._rows.values()) for row in vd.Item)
                wanted = [row for vi, (row, _) in a._rows.items() if vi in used and a._datas[vi >> 16] is vd]
                ok = ok and len(vd.Item) == len(wanted)
        if a._variant == "advance-indices-first" and any(st.VarData[0] is a._datas[0] for _ in (0,)):
            ok = ok and st.VarData[0].Item[0] is a._rows[0][0] and st.VarData[0].Item[1] is a._rows[2][0]
        used_regions = {id(x) for vd in st.VarData for x in (regions[i] for i in vd.VarRegionIndex)}
        ok = ok and {id(x) for x in regions} == used_regions
        return ok

    ensures = [prop("requested-items-keep-their-rows-and-regions", lambda a, old, r: VarStoreSubsetVarIdxes._post(a, r))]
