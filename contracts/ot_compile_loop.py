"""BaseTTXConverter.compile - the offset-overflow retry loop (C06): against the state table in its own
source (PURE_FT / HB_FT / FT_FALLBACK x packing success / overflow resolved / overflow unresolvable),
for EVERY script of up to five packing outcomes and both starting states: which packer is asked
in each round, what is returned (only ever the result of a packing call that succeeded - and never
the fontTools-only packing of the fallback state, which exists to find a layout, not to be
written), and when OTLOffsetOverflowError is allowed to escape.  The table compiler, the two
packers and the resolver are scripted stubs."""
import itertools

from pyvc.core import Contract, contract, prop, internal


@contract
class CompileRetryLoop(Contract):
    module = "fontTools.ttLib.tables.otBase"
    qualname = "BaseTTXConverter.compile"
    props = ("C06",)
    shadow_mode = "real"
    variants = ("with-harfbuzz", "pure-fonttools")
    level = "PF"
    assumptions = ("token-valued: table.compile, tryPackingHarfbuzz, tryPackingFontTools and tryResolveOverflow are scripted stubs; the family is every script of length <= 5 over {success, overflow+resolved, overflow+unresolvable}",)

    def setup(self):
        import fontTools.ttLib.tables.otBase as ob
        self._saved = ob.have_uharfbuzz

    def teardown(self):
        import fontTools.ttLib.tables.otBase as ob
        ob.have_uharfbuzz = self._saved

    def args(self, S, variant):
        return dict(_hb=(variant == "with-harfbuzz"))

    def call(self, f, a):
        import fontTools.ttLib.tables.otBase as ob
        from fontTools.ttLib.tables.otBase import BaseTTXConverter, OTLOffsetOverflowError, OverflowErrorRecord
        ob.have_uharfbuzz = a._hb
        bad, count = [], 0
        events = ("S", "Ook", "Ofail")
        for n in range(1, 6):
            for script in itertools.product(events, repeat=n):
                trace = []
                it = iter(script)
                state = {"cur": None}

                def outcome(kind):
                    ev = next(it, "S")               # after the script: success, so that every run terminates
                    state["cur"] = ev
                    trace.append((kind, ev))
                    if ev == "S":
                        return ("data", kind, len(trace))
                    raise OTLOffsetOverflowError(OverflowErrorRecord(("GSUB", 0, 0, None, None)))

                class _T(BaseTTXConverter):
                    tableTag = "GSUB"

                    def __init__(self):
                        self.table = type("X", (), {"compile": lambda s, w, font: None})()

                    def tryPackingHarfbuzz(self, writer, logged):
                        return outcome("hb")

                    def tryPackingFontTools(self, writer):
                        return outcome("ft")

                    def tryResolveOverflow(self, font, e, last):
                        return 1 if state["cur"] == "Ook" else 0
                font = type("F", (), {"cfg": {ob.USE_HARFBUZZ_REPACKER: None}})()
                try:
                    result = ("returned", f(_T(), font))
                except OTLOffsetOverflowError:
                    result = ("raised", None)
                count += 1
                # the state table, run on the same script
                st = "HB_FT" if a._hb else "PURE_FT"
                want_trace, want = [], None
                it2 = iter(script)
                while want is None:
                    kind = "hb" if st == "HB_FT" else "ft"
                    ev = next(it2, "S")
                    want_trace.append((kind, ev))
                    if ev == "S":
                        if st == "FT_FALLBACK":
                            st = "HB_FT"
                        else:
                            want = ("returned", ("data", kind, len(want_trace)))
                    elif ev == "Ofail":
                        if st == "HB_FT":
                            st = "FT_FALLBACK"
                        else:
                            want = ("raised", None)
                if trace != want_trace or result != want:
                    bad.append((script, trace, want_trace, result, want))
        return count, bad

    ensures = [prop("transitions-and-result-per-the-state-table", lambda a, old, r: r[0] > 300 and not r[1])]
