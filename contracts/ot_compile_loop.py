"""BaseTTXConverter.compile - the offset-overflow retry loop (C06): against the state table in its own
source (PURE_FT / HB_FT / FT_FALLBACK x packing success / overflow resolved / overflow unresolvable),
for EVERY script of up to five packing outcomes and both starting states: which packer is asked
in each round, what is returned (only ever the result of a packing call that succeeded - and never
the fontTools-only packing of the fallback state, which exists to find a layout, not to be
written), and when OTLOffsetOverflowError is allowed to escape.  The table compiler, the two
packers and the resolver are scripted stubs."""
import itertools

from pyvc.core import Contract, contract, prop, internal


@contract
class CompileRetryLoop(Contract):
    module = "fontTools.ttLib.tables.otBase"
    qualname = "BaseTTXConverter.compile"
    props = ("C06",)
    shadow_mode = "real"
    variants = ("with-harfbuzz", "pure-fonttools")
    level = "PF"
    assumptions = ("token-valued: table.compile, tryPackingHarfbuzz, tryPackingFontTools and tryResolveOverflow are scripted stubs; the family is every script of length <= 5 over {success, overflow+resolved, overflow+unresolvable}",)

    def setup(self):
        import fontTools.ttLib.tables.otBase as ob
        self._saved = ob.have_uharfbuzz

    def teardown(self):
        import fontTools.ttLib.tables.otBase as ob
        ob.have_uharfbuzz = self._saved

    def args(self, S, variant):
        return dict(_hb=(variant == "with-harfbuzz"))

    def call(self, f, a):
        import fontTools.ttLib.tables.otBase as ob
        from fontTools.ttLib.tables.otBase import BaseTTXConverter, OTLOffsetOverflowError, OverflowErrorRecord
        ob.have_uharfbuzz = a._hb
        bad, count = [], 0
        events = ("S", "Ook", "Ofail")
        for n in range(1, 6):
            for script in itertools.product(events, repeat=n):
                trace = []
                it = iter(script)
                state = {"cur": None}

                def outcome(kind):
                    ev = next(it, "S")               # after the script: success, so that every run terminates
                    state["cur"] = ev
                    trace.append((kind, ev))
                    if ev == "S":
                        return ("data", kind, len(trace))
                    raise OTLOffsetOverflowError(OverflowErrorRecord(("GSUB", 0, 0, None, None)))

                class _T(BaseTTXConverter):
                    tableTag = "GSUB"

                    def __init__(self):
                        self.table = type("X", (), {"compile": lambda s, w, font: None})()

                    def tryPackingHarfbuzz(self, writer, logged):
                        return outcome("hb")

                    def tryPackingFontTools(self, writer):
                        return outcome("ft")

                    def tryResolveOverflow(self, font, e, last):
                        return 1 if state["cur"] == "Ook" else 0
                font = type("F", (), {"cfg": {ob.USE_HARFBUZZ_REPACKER: None}})()
                try:
                    result = ("returned", f(_T(), font))
                except OTLOffsetOverflowError:
                    result = ("raised", None)
                count += 1
                # the state table, run on the same script
                st = "HB_FT" if a._hb else "PURE_FT"
                want_trace, want = [], None
                it2 = iter(script)
                while want is None:
                    kind = "hb" if st == "HB_FT" else "ft"
                    ev = next(it2, "S")
                    want_trace.append((kind, ev))
                    if ev == "S":
                        if st == "FT_FALLBACK":
                            st = "HB_FT"
                        else:
                            want = ("returned", ("data", kind, len(want_trace)))
                    elif ev == "Ofail":
                        if st == "HB_FT":
                            st = "FT_FALLBACK"
                        else:
                            want = ("raised", None)
                if trace != want_trace or result != want:
                    bad.append((script, trace, want_trace, result, want))
        return count, bad

    ensures = [prop("transitions-and-result-per-the-state-table", lambda a, old, r: r[0] > 300 and not r[1])]


@contract
class ResolveOverflowChoice(Contract):
    """BaseTTXConverter.tryResolveOverflow, for every combination of (the very record of last
    time / no previous record / a different one) x (lookup-level / subtable-level overflow) x
    (what each resolution answers): the same record object is given up on without touching the
    table (OverflowErrorRecord defines no __eq__, so two records DESCRIBING the same overflow
    are not recognised - that only matters for termination, which C06 does not state, and is
    left unspecified here); a lookup-level overflow goes to the Extension promotion only; a
    subtable-level overflow tries the split first and the promotion only when the split could
    do nothing; a resolution that reported success is never followed by another one (each
    rewrites the table: a second change before the next packing attempt is not what the
    overflow record described); the answer is the last resolution's answer."""
    module = "fontTools.ttLib.tables.otBase"
    qualname = "BaseTTXConverter.tryResolveOverflow"
    props = ("C06",)
    shadow_mode = "real"
    level = "PF"
    assumptions = ("token-valued: fixLookupOverFlows and fixSubTableOverFlows are scripted stubs (own contracts: FixLookupOverFlows, FixSubTableOverFlows)",)

    def args(self, S, variant):
        return {}

    def call(self, f, a):
        import itertools
        import fontTools.ttLib.tables.otTables as ot
        from fontTools.ttLib.tables.otBase import BaseTTXConverter, OTLOffsetOverflowError, OverflowErrorRecord
        saved = ot.fixLookupOverFlows, ot.fixSubTableOverFlows
        bad, count = [], 0
        try:
            for prev, item, split_ok, promote_ok in itertools.product(("same", "none", "other"), (None, "Coverage"), (0, 1), (0, 1)):
                trace = []
                rec = OverflowErrorRecord(("GSUB", 3, 1, item, 0))
                last = {"same": rec, "none": None, "other": OverflowErrorRecord(("GSUB", 2, 1, item, 0))}[prev]
                same = prev == "same"
                font = object()

                def promote(fnt, r, trace=trace, promote_ok=promote_ok, font=font, rec=rec):
                    trace.append(("promote", fnt is font, r is rec))
                    return promote_ok

                def split(fnt, r, trace=trace, split_ok=split_ok, font=font, rec=rec):
                    trace.append(("split", fnt is font, r is rec))
                    return split_ok
                ot.fixLookupOverFlows, ot.fixSubTableOverFlows = promote, split
                t = BaseTTXConverter.__new__(BaseTTXConverter)
                got = f(t, font, OTLOffsetOverflowError(rec), last)
                count += 1
                if same:
                    want_trace, want = [], 0
                elif item is None:
                    # the promotion may be asked again after it answered 0 (it changes nothing then)
                    want_trace, want = [("promote", True, True)], promote_ok
                elif split_ok:
                    want_trace, want = [("split", True, True)], split_ok
                else:
                    want_trace, want = [("split", True, True), ("promote", True, True)], promote_ok
                squashed = [x for i, x in enumerate(trace) if not (i and x == trace[i - 1] and x[0] == "promote" and not promote_ok)]
                if squashed != want_trace or bool(got) != bool(want):
                    bad.append((same, item, split_ok, promote_ok, trace, got))
        finally:
            ot.fixLookupOverFlows, ot.fixSubTableOverFlows = saved
        return count, bad

    ensures = [prop("one-resolution-per-round-split-before-promotion", lambda a, old, r: r[0] == 24 and not r[1])]
