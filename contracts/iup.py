"""Contracts on fontTools.varLib.iup (C09, C05). Spec: OpenType gvar 'Inferred deltas for
un-referenced point numbers' (IUP): per axis, a point between the two reference points (by
coordinate) gets the linearly interpolated delta; outside it takes the nearer reference's
delta; if the two references share the coordinate, their common delta if equal, else 0."""
from pyvc.core import Contract, contract, prop, internal
from pyvc.spec import And, Or, Not, Implies, Ite, eq, div, Min, Max


def spec_iup_axis(x, x1, d1, x2, d2):
    lo_x, lo_d = Ite(x1 <= x2, x1, x2), Ite(x1 <= x2, d1, d2)
    hi_x, hi_d = Ite(x1 <= x2, x2, x1), Ite(x1 <= x2, d2, d1)
    return Ite(eq(x1, x2), Ite(eq(d1, d2), d1, 0),
               Ite(x <= lo_x, lo_d, Ite(x >= hi_x, hi_d, lo_d + div((x - lo_x) * (hi_d - lo_d), hi_x - lo_x))))


@contract
class IupSegment(Contract):
    module = "fontTools.varLib.iup"
    qualname = "iup_segment"
    props = ("C09", "C05")
    variants = (0, 1, 2, 3)
    level = "PF"
    assumptions = ("A-REAL",)

    def args(self, S, variant):
        P = lambda n: (S.real(n + ".x"), S.real(n + ".y"))
        return dict(coords=[P("c%d" % i) for i in range(variant)], rc1=P("rc1"), rd1=P("rd1"), rc2=P("rc2"), rd2=P("rd2"))

    def call(self, f, a):
        return list(f(a.coords, a.rc1, a.rd1, a.rc2, a.rd2))

    ensures = [prop("OT-inferred-delta-per-axis", lambda a, old, r: len(r) == len(a.coords) and And(*[
        eq(r[i][j], spec_iup_axis(a.coords[i][j], a.rc1[j], a.rd1[j], a.rc2[j], a.rd2[j]))
        for i in range(len(r)) for j in (0, 1)]))]


@contract
class IupContour(Contract):
    """iup_contour: every None-pattern of a contour of up to 4 points; referenced points keep
    their delta, every un-referenced point gets the spec value from its two neighbouring
    references (cyclically); a contour without references stays all-zero... (as the spec:
    no inference possible -> the code requires at least one reference)."""
    module = "fontTools.varLib.iup"
    qualname = "iup_contour"
    props = ("C09", "C05")
    level = "PF"
    variants = tuple((n, mask) for n in (1, 2, 3, 4) for mask in range(1, 2 ** n))
    assumptions = ("A-REAL",)

    def variants_for(self, tier):
        return self.variants if tier == "thorough" else tuple(v for v in self.variants if v[0] <= 3) + ((4, 0b0101), (4, 0b0001), (4, 0b1110))

    def args(self, S, variant):
        n, mask = variant
        P = lambda nm: (S.real(nm + ".x"), S.real(nm + ".y"))
        coords = [P("c%d" % i) for i in range(n)]
        deltas = [P("d%d" % i) if (mask >> i) & 1 else None for i in range(n)]
        return dict(deltas=deltas, coords=coords)

    @staticmethod
    def _post(a, r):
        n = len(a.coords)
        refs = [i for i in range(n) if a.deltas[i] is not None]
        cs = []
        for i in range(n):
            if a.deltas[i] is not None:
                cs += [eq(r[i][0], a.deltas[i][0]), eq(r[i][1], a.deltas[i][1])]
                continue
            prev = max([k for k in refs if k < i], default=refs[-1])
            nxt = min([k for k in refs if k > i], default=refs[0])
            for j in (0, 1):
                cs.append(eq(r[i][j], spec_iup_axis(a.coords[i][j], a.coords[prev][j], a.deltas[prev][j],
                                                    a.coords[nxt][j], a.deltas[nxt][j])))
        return And(len(r) == n, *cs)

    ensures = [prop("referenced-kept-unreferenced-inferred-from-cyclic-neighbours", lambda a, old, r: IupContour._post(a, list(r)))]
