"""Index renumbering inside GSUB / GPOS when lookups and features are pruned (C07): every stored
index i that survives becomes the position of i in the list of kept indices, indices of removed
lookups / features disappear (a required feature becomes 0xFFFF), order is kept, and an element
reports itself empty exactly when nothing is left in it - for every stored index (symbolic)."""
from pyvc.core import Contract, contract, prop, internal
from pyvc.spec import And, Or, Not, Implies, Ite, eq
from contracts.subset_kernels import _K

KEPT = ((0, 2), (1, 2, 3), (), (0, 1, 2, 3))


def _pos(kept, i):
    """spec: position of i in kept, or -1"""
    out = -1
    for k, v in enumerate(kept):
        out = Ite(eq(i, v), k, out)
    return out


def _filtered(new, old, kept):
    """new == [pos(i) for i in old if i in kept], decided on this path: new has concrete length"""
    # walk old; each element is either dropped (not in kept) or matches the next element of new
    cs, j = [], 0
    for i in old:
        p = _pos(kept, i)
        inside = Not(eq(p, -1))
        if bool(inside):
            if j >= len(new):
                return False
            cs.append(eq(new[j], p))
            j += 1
    return And(j == len(new), *cs)


@contract
class FeatureSubsetLookups(_K):
    qualname = "Feature.subset_lookups"
    variants = tuple((k, size) for k in KEPT for size in (False, True))

    def args(self, S, variant):
        from fontTools.ttLib.tables import otTables as ot
        kept, size = variant
        f = ot.Feature()
        f.LookupListIndex = [S.int("l%d" % i, 0, 3) for i in range(3)]
        f.LookupCount = 3
        f.FeatureParams = ot.FeatureParamsSize() if size else None
        return dict(self=f, lookup_indices=list(kept), _old=list(f.LookupListIndex), _kept=kept, _size=size)

    ensures = [prop("kept-lookups-renumbered-in-order", lambda a, old, r: And(
        _filtered(a.self.LookupListIndex, a._old, a._kept), a.self.LookupCount == len(a.self.LookupListIndex),
        bool(r) == bool(a.self.LookupListIndex or a._size)))]


@contract
class LangSysSubsetFeatures(_K):
    qualname = "LangSys.subset_features"
    variants = KEPT

    def args(self, S, variant):
        from fontTools.ttLib.tables import otTables as ot
        l = ot.LangSys()
        l.ReqFeatureIndex = S.int("req", 0, 0xFFFF)
        l.FeatureIndex = [S.int("f%d" % i, 0, 3) for i in range(3)]
        l.FeatureCount = 3
        return dict(self=l, feature_indices=list(variant), _old=list(l.FeatureIndex), _req=l.ReqFeatureIndex, _kept=variant)

    def requires(self, a):
        return Or(a._req <= 3, eq(a._req, 0xFFFF))

    ensures = [prop("kept-features-renumbered-required-feature-mapped-or-none", lambda a, old, r: And(
        _filtered(a.self.FeatureIndex, a._old, a._kept), a.self.FeatureCount == len(a.self.FeatureIndex),
        eq(a.self.ReqFeatureIndex, Ite(eq(_pos(a._kept, a._req), -1), 0xFFFF, _pos(a._kept, a._req))),
        bool(r) == bool(a.self.FeatureIndex or bool(Not(eq(a.self.ReqFeatureIndex, 0xFFFF))))))]


@contract
class ScriptListSubsetFeatures(_K):
    """ScriptList.subset_features over two scripts (DFLT and latn), each with a default and one
    further language system: every language system is renumbered; a language system left
    without features is removed - except DFLT's default one; a script left without language
    systems is removed unless retain_empty."""
    qualname = "ScriptList.subset_features"
    variants = tuple((k, retain) for k in ((0, 2), (), (1,)) for retain in (False, True))

    def args(self, S, variant):
        from fontTools.ttLib.tables import otTables as ot
        kept, retain = variant
        systems = {}

        def langsys(cls, tag):
            l = cls()
            l.ReqFeatureIndex = 0xFFFF
            l.FeatureIndex = [S.int("%s.f%d" % (tag, i), 0, 3) for i in range(1)]      # one each: the per-system renumbering is LangSysSubsetFeatures
            l.FeatureCount = 1
            systems[tag] = (l, list(l.FeatureIndex))
            return l
        sl = ot.ScriptList()
        sl.ScriptRecord = []
        for stag in ("DFLT", "latn"):
            sr = ot.ScriptRecord()
            sr.ScriptTag = stag
            sr.Script = ot.Script()
            sr.Script.DefaultLangSys = langsys(ot.DefaultLangSys, stag + ".dflt")
            rec = ot.LangSysRecord()
            rec.LangSysTag, rec.LangSys = "TRK ", langsys(ot.LangSys, stag + ".TRK")
            sr.Script.LangSysRecord, sr.Script.LangSysCount = [rec], 1
            sl.ScriptRecord.append(sr)
        sl.ScriptCount = 2
        return dict(self=sl, feature_indices=list(kept), retain_empty=retain, _systems=systems, _kept=kept, _retain=retain)

    @staticmethod
    def _post(a, r):
        cs = []
        alive = {}
        for tag, (l, old) in a._systems.items():
            cs.append(_filtered(l.FeatureIndex, old, a._kept))
            alive[tag] = bool(l.FeatureIndex)
        scripts = {sr.ScriptTag: sr.Script for sr in a.self.ScriptRecord}
        for stag in ("DFLT", "latn"):
            d_alive, t_alive = alive[stag + ".dflt"], alive[stag + ".TRK"]
            keep_default = d_alive or stag == "DFLT"
            script_alive = keep_default or t_alive
            if not (script_alive or a._retain):
                cs.append(stag not in scripts)
                continue
            if stag not in scripts:
                return False
            s = scripts[stag]
            cs.append((s.DefaultLangSys is not None) == keep_default)
            cs.append([x.LangSysTag for x in s.LangSysRecord] == (["TRK "] if t_alive else []) and s.LangSysCount == len(s.LangSysRecord))
        cs.append(a.self.ScriptCount == len(a.self.ScriptRecord) and bool(r) == bool(a.self.ScriptRecord))
        cs.append([sr.ScriptTag for sr in a.self.ScriptRecord] == [t for t in ("DFLT", "latn") if t in scripts])
        return And(*cs)

    ensures = [prop("language-systems-renumbered-empty-ones-removed-except-DFLT-default", lambda a, old, r: ScriptListSubsetFeatures._post(a, r))]


@contract
class ContextSubsetLookups(_K):
    """(Chain)Context subset_lookups, formats 1 and 3: lookup records of removed lookups go, the
    others are renumbered, their sequence indices stay."""
    qualname = "ContextSubst.subset_lookups"
    variants = tuple((fmt, k) for fmt in ("f1", "chain-f3") for k in KEPT[:3])

    def args(self, S, variant):
        from fontTools.ttLib.tables import otTables as ot
        fmt, kept = variant

        def records():
            out = []
            for i in range(3):
                r = ot.SubstLookupRecord()
                r.SequenceIndex, r.LookupListIndex = S.int("seq%d" % i, 0, 2), S.int("l%d" % i, 0, 3)
                out.append(r)
            return out
        recs = records()
        if fmt == "f1":
            st = ot.ContextSubst()
            st.Format = 1
            rule = ot.SubRule()
            rule.Input, rule.GlyphCount, rule.SubstLookupRecord, rule.SubstCount = ["b"], 2, recs, 3
            rs = ot.SubRuleSet()
            rs.SubRule, rs.SubRuleCount = [rule], 1
            st.SubRuleSet, st.SubRuleSetCount = [None, rs], 2
            holder = rule
        else:
            st = ot.ChainContextSubst()
            st.Format = 3
            st.BacktrackCoverage, st.InputCoverage, st.LookAheadCoverage = [], [], []
            st.SubstLookupRecord, st.SubstCount = recs, 3
            holder = st
        return dict(self=st, lookup_indices=list(kept), _holder=holder, _old=[(r.SequenceIndex, r.LookupListIndex) for r in recs], _kept=kept)

    @staticmethod
    def _post(a):
        new = a._holder.SubstLookupRecord
        cs, j = [], 0
        for seq, idx in a._old:
            p = _pos(a._kept, idx)
            if bool(Not(eq(p, -1))):
                if j >= len(new):
                    return False
                cs += [eq(new[j].LookupListIndex, p), eq(new[j].SequenceIndex, seq)]
                j += 1
        return And(j == len(new), *cs)

    ensures = [prop("records-of-kept-lookups-renumbered-in-order", lambda a, old, r: ContextSubsetLookups._post(a))]
