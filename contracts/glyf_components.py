"""Composite-glyph component records (C02, C01): GlyphComponent.compile against an independent
reader of the OpenType component record, and compile -> decompile as a round trip, for every
flags word, glyph id, offset / anchor-point pair and 2x2 transform."""
from fractions import Fraction

from pyvc.core import Contract, contract, prop, internal
from pyvc.models import std, SymBytes, round_tools, fixed_tools
from pyvc.spec import And, Or, Not, Implies, Ite, eq, floor

# OpenType 'glyf' component flags (spec values, written out here independently of the module)
F_WORDS, F_XY, F_ROUND, F_SCALE, F_NONOVL, F_MORE, F_XYSCALE, F_2X2 = 0x1, 0x2, 0x4, 0x8, 0x10, 0x20, 0x40, 0x80
F_INSTR, F_METRICS, F_OVERLAP, F_SCALED_OFF, F_UNSCALED_OFF = 0x100, 0x200, 0x400, 0x800, 0x1000
USER_BITS = (F_ROUND, F_NONOVL, F_METRICS, F_OVERLAP, F_SCALED_OFF, F_UNSCALED_OFF)
STRUCT_BITS = (F_WORDS, F_XY, F_SCALE, F_MORE, F_XYSCALE, F_2X2, F_INSTR)
RESERVED_BITS = (0x2000, 0x4000, 0x8000)


def _rebind():
    ft = fixed_tools()
    return std("struct", "len", "bytes", "int", otRound=round_tools().otRound,
               fl2fi=ft.floatToFixed, fi2fl=ft.fixedToFloat)


def _items(b):
    return list(b.items) if isinstance(b, SymBytes) else list(b)


def u16(b, o):
    return b[o] * 256 + b[o + 1]


def s16(b, o):
    v = u16(b, o)
    return Ite(v >= 32768, v - 65536, v)


def s8(b, o):
    return Ite(b[o] >= 128, b[o] - 256, b[o])


def ot_round(x):
    return floor(x + Fraction(1, 2))


def bit(word_bits, mask):
    return word_bits[mask.bit_length() - 1]


class _Glyf:
    """glyph names are ('g', id) pairs: the name <-> id maps are mutually inverse by construction"""

    def getGlyphID(self, name):
        return name[1]

    def getGlyphName(self, gid):
        return ("g", gid)


VARIANTS = tuple((args, tr) for args in ("xy", "points") for tr in ("none", "2x2"))


def _component(S, mod, variant):
    args, tr = variant
    c = mod.GlyphComponent()
    # the flags word as 16 symbolic bits, so clauses can talk about individual flags
    c.flags, fb = S.bitword("flags", 16)
    c.glyphName = ("g", S.int("gid"))
    if args == "xy":
        c.x, c.y = S.real("x"), S.real("y")
    else:
        c.firstPt, c.secondPt = S.int("p1"), S.int("p2")
    if tr == "2x2":
        c.transform = [[S.real("t00"), S.real("t01")], [S.real("t10"), S.real("t11")]]
    return c, fb


def _requires(a):
    c = a.self
    cs = [And(c.glyphName[1] >= 0, c.glyphName[1] <= 0xFFFF)]
    if hasattr(c, "x"):
        cs += [ot_round(c.x) >= -32768, ot_round(c.x) <= 32767, ot_round(c.y) >= -32768, ot_round(c.y) <= 32767]
    else:
        cs += [c.firstPt >= 0, c.firstPt <= 0xFFFF, c.secondPt >= 0, c.secondPt <= 0xFFFF]
    if hasattr(c, "transform"):
        for row in c.transform:
            for t in row:
                cs += [ot_round(t * 16384) >= -32768, ot_round(t * 16384) <= 32767]
    return And(*cs)


def spec_read(bs):
    """Independent reader of one component record -> dict of terms (all Ite-total)."""
    flags = u16(bs, 0)
    fbits = None  # individual bits are recovered by the caller from linear constraints
    return flags, u16(bs, 2)


@contract
class GlyphComponentCompile(Contract):
    """compile(): the record parses, by an independent reader of the OpenType layout, to the
    same glyph id, offsets (rounded) or anchor points, and 2x2 matrix in 2.14 (no term of
    the matrix is dropped: a one-sided shear selects the 2x2 form); MORE_COMPONENTS and
    WE_HAVE_INSTRUCTIONS are exactly the arguments; every user flag of the six that the format
    keeps (ROUND_XY_TO_GRID, USE_MY_METRICS, OVERLAP_COMPOUND, SCALED / UNSCALED_COMPONENT_OFFSET
    and the obsolete NON_OVERLAPPING) is written as it was; reserved bits are never set."""
    module = "fontTools.ttLib.tables._g_l_y_f"
    qualname = "GlyphComponent.compile"
    props = ("C02", "C01")
    rebind = staticmethod(_rebind)
    variants = VARIANTS
    level = "PF"
    assumptions = ("A-REAL",)

    def args(self, S, variant):
        c, fb = _component(S, self.mod, variant)
        return dict(self=c, more=S.bool("more"), haveInstructions=S.bool("instr"), glyfTable=_Glyf(), _fb=fb, _variant=variant)

    def requires(self, a):
        return _requires(a)

    @staticmethod
    def _parse(a, r):
        """returns (ok, fields) from the spec reader on the produced bytes"""
        bs = _items(r)
        n = len(bs)
        c = a.self
        flags = u16(bs, 0)
        # which structural flags the input MUST produce
        xy = hasattr(c, "x")
        if xy:
            X, Y = ot_round(c.x), ot_round(c.y)
            small = And(X >= -128, X <= 127, Y >= -128, Y <= 127)
        else:
            X, Y = c.firstPt, c.secondPt
            small = And(X >= 0, X <= 255, Y >= 0, Y <= 255)
        return bs, n, flags, xy, X, Y, small

    ensures = [
        prop("glyph-id-written", lambda a, old, r: eq(u16(_items(r), 2), a.self.glyphName[1])),
        prop("flags-word-is-structure-plus-kept-user-flags", lambda a, old, r: _flags_clause(a, r)),
        prop("arguments-decode-to-the-input", lambda a, old, r: _args_clause(a, r)),
        prop("matrix-decodes-to-the-input-in-2.14", lambda a, old, r: _matrix_clause(a, r)),
    ]


def _struct_expect(a):
    """Expected structural flags as spec terms, derived from the INPUT object only."""
    c = a.self
    xy = hasattr(c, "x")
    if xy:
        X, Y = ot_round(c.x), ot_round(c.y)
        small = And(X >= -128, X <= 127, Y >= -128, Y <= 127)
    else:
        X, Y = c.firstPt, c.secondPt
        small = And(X >= 0, X <= 255, Y >= 0, Y <= 255)
    if hasattr(c, "transform"):
        t = [[ot_round(v * 16384) for v in row] for row in c.transform]
        two = Or(Not(eq(t[0][1], 0)), Not(eq(t[1][0], 0)))
        xys = And(Not(two), Not(eq(t[0][0], t[1][1])))
        one = And(Not(two), eq(t[0][0], t[1][1]))
    else:
        t = None
        two = xys = one = False
    return xy, X, Y, small, t, two, xys, one


def _b(cond, mask):
    return Ite(cond, mask, 0)


def _flags_clause(a, r):
    bs = _items(r)
    xy, X, Y, small, t, two, xys, one = _struct_expect(a)
    expect = (_b(Not(small), F_WORDS) + (F_XY if xy else 0) + _b(one, F_SCALE) + _b(xys, F_XYSCALE) + _b(two, F_2X2)
              + _b(a.more, F_MORE) + _b(a.haveInstructions, F_INSTR)
              + sum(_b(bit(a._fb, m), m) for m in USER_BITS))
    return eq(u16(bs, 0), expect)


def _args_clause(a, r):
    bs = _items(r) + [0] * 4      # the eager Ite reads both layouts; the guard picks one
    xy, X, Y, small, t, two, xys, one = _struct_expect(a)
    if xy:
        return Ite(small, And(eq(s8(bs, 4), X), eq(s8(bs, 5), Y)), And(eq(s16(bs, 4), X), eq(s16(bs, 6), Y)))
    return Ite(small, And(eq(bs[4], X), eq(bs[5], Y)), And(eq(u16(bs, 4), X), eq(u16(bs, 6), Y)))


def _matrix_clause(a, r):
    bs = _items(r)
    n = len(bs)
    xy, X, Y, small, t, two, xys, one = _struct_expect(a)
    # lengths are concrete per path; enumerate the admissible (argument size, matrix size) pairs
    out = []
    for asz, small_c in ((2, small), (4, Not(small))):
        o = 4 + asz
        if t is None:
            out.append(Implies(small_c, n == o))
            continue
        cases = []
        if n == o + 8:
            cases.append(And(two, eq(s16(bs, o), t[0][0]), eq(s16(bs, o + 2), t[0][1]),
                             eq(s16(bs, o + 4), t[1][0]), eq(s16(bs, o + 6), t[1][1])))
        if n == o + 4:
            cases.append(And(xys, eq(s16(bs, o), t[0][0]), eq(s16(bs, o + 2), t[1][1])))
        if n == o + 2:
            cases.append(And(one, eq(s16(bs, o), t[0][0])))
        out.append(Implies(small_c, Or(*cases) if cases else False))
    return And(*out)


@contract
class GlyphComponentRoundTrip(Contract):
    """decompile(compile(c)) gives back the glyph, the offsets (rounded) or anchor points, the
    matrix (each term rounded to 2.14), the six user flags, `more` and `haveInstructions`, and
    consumes the record exactly."""
    module = "fontTools.ttLib.tables._g_l_y_f"
    qualname = "GlyphComponent.decompile"
    props = ("C02", "C01")
    rebind = staticmethod(_rebind)
    variants = VARIANTS
    level = "PF"
    assumptions = ("A-REAL",)

    def args(self, S, variant):
        c, fb = _component(S, self.mod, variant)
        return dict(self=c, more=S.bool("more"), haveInstructions=S.bool("instr"), glyfTable=_Glyf(), _fb=fb, _variant=variant)

    def requires(self, a):
        return _requires(a)

    def call(self, f, a):
        cls = type(a.self)
        data = cls.compile(a.self, a.more, a.haveInstructions, a.glyfTable)
        back = cls()
        more, instr, rest = f(back, data, a.glyfTable)
        return back, more, instr, rest

    ensures = [
        prop("glyph-kept", lambda a, old, r: eq(r[0].glyphName[1], a.self.glyphName[1])),
        prop("offsets-or-points-kept", lambda a, old, r: (
            And(eq(r[0].x, ot_round(a.self.x)), eq(r[0].y, ot_round(a.self.y)), not hasattr(r[0], "firstPt"))
            if hasattr(a.self, "x") else
            And(eq(r[0].firstPt, a.self.firstPt), eq(r[0].secondPt, a.self.secondPt), not hasattr(r[0], "x")))),
        prop("matrix-kept-in-2.14", lambda a, old, r: (
            And(*[eq(r[0].transform[i][j] * 16384, ot_round(a.self.transform[i][j] * 16384)) for i in (0, 1) for j in (0, 1)])
            if hasattr(a.self, "transform") else not hasattr(r[0], "transform"))),
        prop("user-flags-kept-and-nothing-else", lambda a, old, r: eq(r[0].flags, sum(_b(bit(a._fb, m), m) for m in USER_BITS))),
        prop("more-and-instructions-returned", lambda a, old, r: And(eq(r[1] != 0, a.more), eq(r[2] != 0, a.haveInstructions))),
        prop("record-consumed-exactly", lambda a, old, r: len(r[3]) == 0),
    ]
