"""CFF2 blend / vsindex in the Type 2 interpreter (C05, C12): `blend` replaces its n default
operands by default_i + blender(vsindex, deltas of operand i) - each operand with ITS OWN run of
numRegions deltas, in order - or, when the glyph is drawn at the default location (no blender),
by the defaults alone; operands below the blend arguments stay; for every n in 1..3, every
numRegions in 0..2 (a VarData may list no region at all) and symbolic operands."""
from pyvc.core import Contract, contract, prop, internal
from pyvc.spec import And, Or, Not, Implies, Ite, eq


class _Private:
    def __init__(self, table):
        self.table, self.asked = table, []

    def getNumRegions(self, vi=None):
        self.asked.append(vi)
        return self.table[vi]


@contract
class T2Blend(Contract):
    module = "fontTools.misc.psCharStrings"
    qualname = "SimpleT2Decompiler.op_blend"
    props = ("C05", "C12")
    shadow_mode = "real"
    variants = tuple((n, r, blender, vs) for n in (1, 2, 3) for r in (0, 1, 2) for blender in (False, True) for vs in (None, 1))
    level = "PF"
    assumptions = ("the blender (VarStoreInstancer.interpolateFromDeltas) is an uninterpreted function of (vsindex, deltas); its arithmetic is under the C09 contracts",)

    def args(self, S, variant):
        from fontTools.misc.psCharStrings import SimpleT2Decompiler
        n, r, with_blender, vs = variant
        below = [S.int("below%d" % i, -2000, 2000) for i in range(2)]
        defaults = [S.int("default%d" % i, -2000, 2000) for i in range(n)]
        deltas = [[S.int("delta%d_%d" % (i, j), -500, 500) for j in range(r)] for i in range(n)]
        blended = [S.real("blend%d" % i) for i in range(n)]
        calls = []

        def blender(vsindex, ds):
            calls.append((vsindex, list(ds)))
            for i, want in enumerate(deltas):
                if len(ds) == len(want) and all(x is y for x, y in zip(ds, want)) and (r > 0 or len(calls) - 1 == i):
                    return blended[i]
            return S.real("blend_of_other_operands_%d" % len(calls))
        private = _Private({None: r, 1: r, 0: 99})
        d = SimpleT2Decompiler([], [], private=private, blender=blender if with_blender else None)
        d.operandStack = list(below) + defaults + [x for row in deltas for x in row] + [n]
        if vs is not None:
            d.operandStack.append(vs)
        return dict(self=d, index=0, _below=below, _defaults=defaults, _deltas=deltas, _blended=blended, _calls=calls, _v=variant, _private=private)

    def call(self, f, a):
        if a._v[3] is not None:
            type(a.self).op_vsindex(a.self, 0)
        f(a.self, a.index)
        return list(a.self.operandStack), list(a._calls)

    @staticmethod
    def _post(a, r):
        stack, calls = r
        n, nr, with_blender, vs = a._v
        if len(stack) != 2 + n:
            return False
        cs = [eq(x, y) for x, y in zip(stack[:2], a._below)]
        for i in range(n):
            cs.append(eq(stack[2 + i], a._defaults[i] + a._blended[i]) if with_blender else eq(stack[2 + i], a._defaults[i]))
        if with_blender:
            cs.append(len(calls) == n and all(c[0] == (vs if vs is not None else 0) for c in calls))
            cs.append(all(len(c[1]) == nr and all(x is y for x, y in zip(c[1], want)) for c, want in zip(calls, a._deltas)))
        else:
            cs.append(calls == [])
        return And(*cs)

    ensures = [prop("each-operand-blended-with-its-own-deltas", lambda a, old, r: T2Blend._post(a, r))]
