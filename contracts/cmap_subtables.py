"""Contracts on cmap subtable encoders (C02): for code point -> glyph maps with symbolic code
points (every pattern of gaps and runs between them), the compiled bytes read back by an
independent reader of the OpenType format give exactly the map."""
from pyvc.core import Contract, contract, prop, internal
from pyvc.models import std, SymBytes
from pyvc.spec import And, Or, Not, Implies, Ite, eq
from contracts._support import FakeFont

REBIND = std("struct", "len", "bytes", "int", "array", "bytesjoin")


def be(bs):
    v = 0
    for b in bs:
        v = v * 256 + b
    return v


class _Font(FakeFont):
    def getReverseGlyphMap(self, rebuild=False):
        return {g: i for i, g in enumerate(self.glyphOrder)}


@contract
class Cmap12Compile(Contract):
    """cmap format 12 (segmented coverage) and 13 (many-to-one): header fields consistent,
    groups ascending and disjoint, every mapped code point lies in a group that gives its
    glyph id, and the groups cover exactly as many code points as the map has."""
    module = "fontTools.ttLib.tables._c_m_a_p"
    qualname = "cmap_format_12_or_13.compile"
    props = ("C02",)
    rebind = REBIND
    variants = tuple((fmt, n) for fmt in (12, 13) for n in (1, 2, 3))
    level = "PF"
    max_paths = 40000

    def args(self, S, variant):
        fmt, n = variant
        cls = self.mod.cmap_format_12 if fmt == 12 else self.mod.cmap_format_13
        t = cls(fmt)
        t.language = 0
        order = [".notdef", "A", "B", "C", "D"]
        codes = [S.int("code%d" % i, 0, 0x10FFFF) for i in range(n)]
        gids = [S.int("gid%d" % i, 1, 4) for i in range(n)]
        # glyph names are concrete strings: choose the glyph by forking on the symbolic id
        names = []
        for g in gids:
            for k in range(1, 5):
                if eq(g, k):
                    names.append(order[k])
                    break
        t.cmap = dict(zip(codes, names))
        return dict(self=t, ttFont=_Font(order), _codes=codes, _gids=gids, _fmt=fmt)

    def requires(self, a):
        c = a._codes
        return And(*[Not(eq(c[i], c[j])) for i in range(len(c)) for j in range(i + 1, len(c))])

    def call(self, f, a):
        return f(a.self, a.ttFont)

    @staticmethod
    def _post(a, r):
        bs = list(SymBytes.of(r).items)
        n = len(a._codes)
        if len(bs) < 16 or (len(bs) - 16) % 12:
            return False
        ng = (len(bs) - 16) // 12
        cs = [eq(be(bs[0:2]), a._fmt), eq(be(bs[4:8]), len(bs)), eq(be(bs[12:16]), ng)]
        groups = [(be(bs[16 + 12 * k:20 + 12 * k]), be(bs[20 + 12 * k:24 + 12 * k]), be(bs[24 + 12 * k:28 + 12 * k])) for k in range(ng)]
        total = 0
        for k, (s, e, g) in enumerate(groups):
            cs.append(s <= e)
            if k:
                cs.append(groups[k - 1][1] < s)
            total = total + (e - s + 1)
        cs.append(eq(total, n))
        for code, gid in zip(a._codes, a._gids):
            cs.append(Or(*[And(s <= code, code <= e, eq(gid, (g + (code - s)) if a._fmt == 12 else g)) for s, e, g in groups]))
        return And(*cs)

    ensures = [prop("independent-reader-recovers-the-map", lambda a, old, r: Cmap12Compile._post(a, r))]
