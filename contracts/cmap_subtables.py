"""Contracts on cmap subtable encoders (C02): for code point -> glyph maps with symbolic code
points (every pattern of gaps and runs between them), the compiled bytes read back by an
independent reader of the OpenType format give exactly the map."""
from pyvc.core import Contract, contract, prop, internal
from pyvc.models import std, SymBytes
from pyvc.spec import And, Or, Not, Implies, Ite, eq
from contracts._support import FakeFont

REBIND = std("struct", "len", "bytes", "int", "array", "bytesjoin")


def be(bs):
    v = 0
    for b in bs:
        v = v * 256 + b
    return v


class _Font(FakeFont):
    def getReverseGlyphMap(self, rebuild=False):
        return {g: i for i, g in enumerate(self.glyphOrder)}

    def getGlyphNameMany(self, gids):
        return [self.glyphOrder[g.__index__() if hasattr(g, "__index__") else g] for g in gids]


@contract
class Cmap12Compile(Contract):
    """cmap format 12 (segmented coverage) and 13 (many-to-one): header fields consistent,
    groups ascending and disjoint, every mapped code point lies in a group that gives its
    glyph id, and the groups cover exactly as many code points as the map has."""
    module = "fontTools.ttLib.tables._c_m_a_p"
    qualname = "cmap_format_12_or_13.compile"
    props = ("C02",)
    rebind = REBIND
    variants = tuple((fmt, n) for fmt in (12, 13) for n in (1, 2, 3))
    level = "PF"
    max_paths = 40000

    def args(self, S, variant):
        fmt, n = variant
        cls = self.mod.cmap_format_12 if fmt == 12 else self.mod.cmap_format_13
        t = cls(fmt)
        t.language = 0
        order = [".notdef", "A", "B", "C", "D"]
        codes = [S.int("code%d" % i, 0, 0x10FFFF) for i in range(n)]
        gids = [S.int("gid%d" % i, 1, 4) for i in range(n)]
        # glyph names are concrete strings: choose the glyph by forking on the symbolic id
        names = []
        for g in gids:
            for k in range(1, 5):
                if eq(g, k):
                    names.append(order[k])
                    break
        t.cmap = dict(zip(codes, names))
        return dict(self=t, ttFont=_Font(order), _codes=codes, _gids=gids, _fmt=fmt)

    def requires(self, a):
        c = a._codes
        return And(*[Not(eq(c[i], c[j])) for i in range(len(c)) for j in range(i + 1, len(c))])

    def call(self, f, a):
        return f(a.self, a.ttFont)

    @staticmethod
    def _post(a, r):
        bs = list(SymBytes.of(r).items)
        n = len(a._codes)
        if len(bs) < 16 or (len(bs) - 16) % 12:
            return False
        ng = (len(bs) - 16) // 12
        cs = [eq(be(bs[0:2]), a._fmt), eq(be(bs[4:8]), len(bs)), eq(be(bs[12:16]), ng)]
        groups = [(be(bs[16 + 12 * k:20 + 12 * k]), be(bs[20 + 12 * k:24 + 12 * k]), be(bs[24 + 12 * k:28 + 12 * k])) for k in range(ng)]
        total = 0
        for k, (s, e, g) in enumerate(groups):
            cs.append(s <= e)
            if k:
                cs.append(groups[k - 1][1] < s)
            total = total + (e - s + 1)
        cs.append(eq(total, n))
        for code, gid in zip(a._codes, a._gids):
            cs.append(Or(*[And(s <= code, code <= e, eq(gid, (g + (code - s)) if a._fmt == 12 else g)) for s, e, g in groups]))
        return And(*cs)

    ensures = [prop("independent-reader-recovers-the-map", lambda a, old, r: Cmap12Compile._post(a, r))]


# -- cmap format 4 (segment mapping to delta values) ------------------------------------------------

REBIND4 = std("struct", "len", "bytes", "int", "array", "bytesjoin", "range")


def spec_cmap4_lookup(bs, c):
    """OpenType cmap format 4 lookup of character code c in the compiled bytes -> glyph id term
    (0 when unmapped).  Only the lengths are concrete; all values are spec terms."""
    segX2 = be(bs[6:8])
    segX2c = segX2 if isinstance(segX2, int) else segX2.concrete()
    seg = segX2c // 2
    end = [be(bs[14 + 2 * i:16 + 2 * i]) for i in range(seg)]
    o = 14 + 2 * seg + 2
    start = [be(bs[o + 2 * i:o + 2 * i + 2]) for i in range(seg)]
    o += 2 * seg
    delta = [be(bs[o + 2 * i:o + 2 * i + 2]) for i in range(seg)]
    o += 2 * seg
    ro_pos = o
    roff = [be(bs[o + 2 * i:o + 2 * i + 2]) for i in range(seg)]
    words = (len(bs) - ro_pos) // 2                  # idRangeOffset[] followed by glyphIdArray[]
    word = [be(bs[ro_pos + 2 * j:ro_pos + 2 * j + 2]) for j in range(words)]

    def at(idx):
        """word[idx] for a symbolic idx"""
        out = 0
        for j in range(words):
            out = Ite(eq(idx, j), word[j], out)
        return out
    result, found = 0, False
    for i in range(seg):
        hit = And(Not(found), end[i] >= c)           # first segment whose endCode >= c
        inside = start[i] <= c
        direct = (c + delta[i]) % 65536
        g = at(i + roff[i] // 2 + (c - start[i]))    # &idRangeOffset[i] + idRangeOffset[i]/2 words + (c - start)
        indirect = Ite(eq(g, 0), 0, (g + delta[i]) % 65536)
        val = Ite(inside, Ite(eq(roff[i], 0), direct, indirect), 0)
        result = Ite(hit, val, result)
        found = Or(found, end[i] >= c)
    return result, (seg, end, start)


@contract
class Cmap4Compile(Contract):
    """cmap format 4: for maps of 1..3 symbolic BMP code points and symbolic glyph ids (every
    pattern of runs and gaps, consecutive and non-consecutive glyph ids), the compiled subtable
    looked up as the OpenType specification prescribes gives every mapped code its glyph and
    every other code glyph 0; header length and segment arrays are well formed (ascending end
    codes, last segment 0xFFFF)."""
    module = "fontTools.ttLib.tables._c_m_a_p"
    qualname = "cmap_format_4.compile"
    props = ("C02",)
    rebind = REBIND4
    variants = (1, 2, 3)
    level = "PF"
    max_paths = 60000

    def variants_for(self, tier):
        return (1, 2) if tier == "quick" else self.variants      # three code points: about 4 minutes

    def args(self, S, variant):
        n = variant
        t = self.mod.cmap_format_4(4)
        t.language = 0
        t.data = None
        order = [".notdef", "A", "B", "C", "D", "E", "F"]
        codes = [S.int("code%d" % i, 0, 0xFFFE) for i in range(n)]
        gids = [S.int("gid%d" % i, 1, 6) for i in range(n)]
        names = []
        for g in gids:
            for k in range(1, 7):
                if eq(g, k):
                    names.append(order[k])
                    break
        t.cmap = dict(zip(codes, names))
        return dict(self=t, ttFont=_Font(order), _codes=codes, _gids=gids, _probe=S.int("probe", 0, 0xFFFF))

    def requires(self, a):
        c = a._codes
        return And(*[Not(eq(c[i], c[j])) for i in range(len(c)) for j in range(i + 1, len(c))])

    @staticmethod
    def _wellformed(a, r):
        bs = list(SymBytes.of(r).items)
        _, (seg, end, start) = spec_cmap4_lookup(bs, 0)
        return And(eq(be(bs[0:2]), 4), eq(be(bs[2:4]), len(bs)), eq(end[-1], 0xFFFF), eq(start[-1], 0xFFFF),
                   *[And(start[i] <= end[i]) for i in range(seg)], *[end[i] < start[i + 1] for i in range(seg - 1)])

    ensures = [
        prop("spec-lookup-gives-every-mapped-code-its-glyph", lambda a, old, r: And(*[
            eq(spec_cmap4_lookup(list(SymBytes.of(r).items), c)[0], g) for c, g in zip(a._codes, a._gids)])),
        prop("spec-lookup-gives-glyph-0-for-every-other-code", lambda a, old, r: Implies(
            And(*[Not(eq(a._probe, c)) for c in a._codes]), eq(spec_cmap4_lookup(list(SymBytes.of(r).items), a._probe)[0], 0))),
        prop("segments-well-formed", lambda a, old, r: Cmap4Compile._wellformed(a, r)),
    ]


@contract
class Cmap4RoundTrip(Contract):
    """cmap_format_4.decompile(compile(map)) == map by code point and glyph (1..2 symbolic code
    points, every run / gap / glyph-id pattern)."""
    module = "fontTools.ttLib.tables._c_m_a_p"
    qualname = "cmap_format_4.decompile"
    props = ("C02", "C01")
    rebind = REBIND4
    variants = (1, 2)
    level = "PF"
    max_paths = 60000
    args = Cmap4Compile.args
    requires = Cmap4Compile.requires

    def call(self, f, a):
        cls = type(a.self)
        data = cls.compile(a.self, a.ttFont)
        back = cls(4)
        f(back, data, a.ttFont)
        return back

    @staticmethod
    def _same(a, r):
        order = a.ttFont.glyphOrder
        m = r.cmap
        if len(m) != len(a._codes):
            return False
        cs = []
        for c, g in zip(a._codes, a._gids):
            hits = [And(eq(k, c), eq(g, order.index(v))) for k, v in m.items()]
            cs.append(Or(*hits))
        return And(*cs)

    ensures = [prop("same-map-back", lambda a, old, r: Cmap4RoundTrip._same(a, r))]


# -- cmap format 6 (trimmed table) and format 0 (byte encoding) -------------------------------------

def _named_map(S, order, codes, lo_gid=1):
    gids = [S.int("gid%d" % i, lo_gid, len(order) - 1) for i in range(len(codes))]
    names = []
    for g in gids:
        for k in range(lo_gid, len(order)):
            if eq(g, k):
                names.append(order[k])
                break
    return gids, names


@contract
class Cmap6Compile(Contract):
    """cmap format 6 for 1..3 symbolic code points lying within a window of 5 codes: the table
    covers firstCode .. firstCode+entryCount-1 = [lowest, highest] mapped code, every mapped code
    reads its glyph id at its index, every unmapped code inside the window reads 0, length field =
    byte length; decompile gives the map back."""
    module = "fontTools.ttLib.tables._c_m_a_p"
    qualname = "cmap_format_6.compile"
    props = ("C02",)
    rebind = REBIND4
    variants = (1, 2, 3)
    level = "PF"
    max_paths = 60000

    def args(self, S, variant):
        t = self.mod.cmap_format_6(6)
        t.language, t.data = 0, None
        order = [".notdef", "A", "B", "C", "D"]
        codes = [S.int("code%d" % i, 0, 0xFFFF) for i in range(variant)]
        gids, names = _named_map(S, order, codes)
        t.cmap = dict(zip(codes, names))
        return dict(self=t, ttFont=_Font(order), _codes=codes, _gids=gids)

    def requires(self, a):
        c = a._codes
        return And(*[Not(eq(c[i], c[j])) for i in range(len(c)) for j in range(i + 1, len(c))],
                   *[And(c[i] - c[j] <= 4, c[j] - c[i] <= 4) for i in range(len(c)) for j in range(i + 1, len(c))])

    def call(self, f, a):
        data = f(a.self, a.ttFont)
        back = type(a.self)(6)
        type(a.self).decompile(back, data, a.ttFont)
        return data, back

    @staticmethod
    def _layout(a, r):
        bs = list(SymBytes.of(r[0]).items)
        n = (len(bs) - 10) // 2
        first = be(bs[6:8])
        lo, hi = a._codes[0], a._codes[0]
        for c in a._codes[1:]:
            lo, hi = Ite(c < lo, c, lo), Ite(c > hi, c, hi)
        cs = [eq(be(bs[0:2]), 6), eq(be(bs[2:4]), len(bs)), eq(be(bs[8:10]), n), eq(first, lo), eq(first + n - 1, hi)]
        for k in range(n):
            want = 0
            for c, g in zip(a._codes, a._gids):
                want = Ite(eq(c, first + k), g, want)
            cs.append(eq(be(bs[10 + 2 * k:12 + 2 * k]), want))
        return And(*cs)

    ensures = [
        prop("trimmed-table-layout-per-spec", lambda a, old, r: Cmap6Compile._layout(a, r)),
        prop("decompile-gives-the-map-back", lambda a, old, r: Cmap4RoundTrip._same(a, r[1])),
    ]


@contract
class Cmap0Compile(Contract):
    """cmap format 0: 262 bytes, byte k of the glyph array is the glyph id of code k (0 when
    unmapped), for every glyph id 0..255 at the mapped codes; decompile gives the map back."""
    module = "fontTools.ttLib.tables._c_m_a_p"
    qualname = "cmap_format_0.compile"
    props = ("C02",)
    rebind = REBIND4
    variants = ((0,), (65, 66), (1, 128, 255))
    level = "PF"

    def args(self, S, variant):
        t = self.mod.cmap_format_0(0)
        t.language, t.data = 0, None
        order = [".notdef", "A", "B", "C"]
        gids, names = _named_map(S, order, variant)
        t.cmap = dict(zip(variant, names))
        return dict(self=t, ttFont=_Font(order), _codes=list(variant), _gids=gids)

    def call(self, f, a):
        data = f(a.self, a.ttFont)
        back = type(a.self)(0)
        type(a.self).decompile(back, data, a.ttFont)
        return data, back

    ensures = [
        prop("byte-array-per-spec", lambda a, old, r: (lambda bs: And(
            len(bs) == 262, eq(be(bs[0:2]), 0), eq(be(bs[2:4]), 262),
            *[eq(bs[6 + k], dict(zip(a._codes, a._gids)).get(k, 0)) for k in range(256)]))(list(SymBytes.of(r[0]).items))),
        prop("decompile-gives-the-map-back", lambda a, old, r: Cmap4RoundTrip._same(a, r[1])),
    ]
