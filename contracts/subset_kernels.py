"""Contracts on the subsetter's Coverage / ClassDef / SingleSubst kernels (C07) and on the
set-consuming helpers' order independence (C16).  Shapes: glyph lists of up to 4 names; the
RETAINED set is symbolic (every subset of the universe), class values symbolic."""
from pyvc.core import Contract, contract, prop, internal
from pyvc.ghost import SymSet
from pyvc.spec import And, Or, Not, Implies, Ite, eq

U = ["a", "b", "c", "d", "e"]


class _K(Contract):
    module = "fontTools.ttLib.tables.otTables"
    imports = ("fontTools.subset",)
    shadow_mode = "real"
    props = ("C07",)
    level = "PF"


@contract
class CoverageSubset(_K):
    qualname = "Coverage.subset"
    variants = (("a", "b", "c", "d"), ("d", "b", "a"), ("c",), ())

    def args(self, S, variant):
        from fontTools.ttLib.tables import otTables

        cov = otTables.Coverage()
        cov.glyphs = list(variant)
        return dict(self=cov, glyphs=SymSet("keep", U, S))

    ensures = [prop("exactly-the-retained-glyphs-in-order-with-their-old-indices", lambda a, old, r: (
        list(r) == sorted(r) and len(r) == len(a.self.glyphs)
        and all(old.self.glyphs[i] == g for i, g in zip(r, a.self.glyphs))
        and [g for g in old.self.glyphs if g in a.glyphs] == a.self.glyphs))]


@contract
class CoverageIntersect(_K):
    qualname = "Coverage.intersect"
    variants = (("a", "b", "c", "d"), ("d", "b", "a"))

    def args(self, S, variant):
        from fontTools.ttLib.tables import otTables

        cov = otTables.Coverage()
        cov.glyphs = list(variant)
        return dict(self=cov, glyphs=SymSet("keep", U, S))

    ensures = [prop("ascending-indices-of-members", lambda a, old, r: list(r) == [i for i, g in enumerate(a.self.glyphs) if g in a.glyphs]
                    and a.self.glyphs == old.self.glyphs)]


@contract
class ClassDefSubset(_K):
    """ClassDef.subset(glyphs, remap=True): every retained glyph keeps its class up to the
    returned renumbering; class 0 is in the result iff it can still be matched (or useClass0
    is off); nothing but retained glyphs remains."""
    qualname = "ClassDef.subset"
    variants = tuple((n, use0) for n in (1, 2, 3) for use0 in (True, False))
    max_paths = 60000

    def args(self, S, variant):
        from fontTools.ttLib.tables import otTables

        n, use0 = variant
        cd = otTables.ClassDef()
        cd.classDefs = {g: S.int("class_" + g, 1, 3) for g in U[:n]}
        return dict(self=cd, glyphs=SymSet("keep", U[:n + 1], S), remap=True, useClass0=use0)

    @staticmethod
    def _post(a, old, r):
        kept = [g for g in old.self.classDefs if g in a.glyphs]
        if sorted(a.self.classDefs) != sorted(kept):
            return False
        cs = []
        for g in kept:
            # new class indexes the returned list, which holds the old class value
            newc = a.self.classDefs[g]
            oldc = old.self.classDefs[g]
            ok = False
            for idx, val in enumerate(r):
                if eq(newc, idx):
                    cs.append(eq(val, oldc))
                    ok = True
                    break
            if not ok:
                return False
        unmatched = any(g not in old.self.classDefs for g in a.glyphs)
        has0 = any(bool(eq(v, 0)) for v in r)
        cs.append(has0 == ((not a.useClass0) or unmatched))
        # ascending, no duplicates
        cs += [r[i] < r[i + 1] for i in range(len(r) - 1)]
        return And(*cs)

    ensures = [prop("classes-preserved-up-to-renumbering", lambda a, old, r: ClassDefSubset._post(a, old, r))]


@contract
class ClassDefIntersectClass(_K):
    qualname = "ClassDef.intersect_class"
    variants = (0, 1, 2)

    def args(self, S, variant):
        from fontTools.ttLib.tables import otTables

        cd = otTables.ClassDef()
        cd.classDefs = {g: S.int("class_" + g, 1, 2) for g in U[:3]}
        return dict(self=cd, glyphs=SymSet("keep", U[:4], S), klass=variant)

    ensures = [prop("retained-glyphs-of-that-class", lambda a, old, r: set(r) == {
        g for g in a.glyphs if (bool(eq(a.self.classDefs[g], a.klass)) if g in a.self.classDefs else a.klass == 0)})]


@contract
class SingleSubstSubset(_K):
    qualname = "SingleSubst.subset_glyphs"
    variants = ("chain",)

    def args(self, S, variant):
        from fontTools.ttLib.tables import otTables
        from types import SimpleNamespace

        st = otTables.SingleSubst()
        st.mapping = {"a": "b", "b": "c", "c": "a", "d": "e"}
        return dict(self=st, s=SimpleNamespace(glyphs=SymSet("keep", U, S)))

    ensures = [prop("keeps-exactly-rules-whose-input-and-output-are-retained", lambda a, old, r: (
        a.self.mapping == {g: v for g, v in old.self.mapping.items() if g in a.s.glyphs and v in a.s.glyphs}
        and bool(r) == bool(a.self.mapping)))]
