"""cmap format 2 (C02, C07): table bytes written by cmap_format_2.compile, read by an independent
reader written from the OpenType specification (subHeaderKeys -> subheader -> glyphIndexArray at
idRangeOffset -> idDelta), map EVERY char code of the subtable to its glyph and every other one-
and two-byte code to .notdef - for a family of 764 subtables: every subset of four one-byte codes,
with no, one or two high bytes whose second-byte ranges are dense, gapped, or a single code at
the top, sharing a glyph index array or not, with ascending and scrambled glyph ids.  The real
decompiler then gives the same mapping back."""
import itertools
import struct

from pyvc.core import Contract, contract, prop


def _lookup(data, code_bytes):
    """OpenType 'cmap' format 2, as specified; returns (glyph id, bytes consumed)"""
    fmt, length, language = struct.unpack(">HHH", data[:6])
    assert fmt == 2 and length == len(data)
    keys = struct.unpack(">256H", data[6:518])
    b1 = code_bytes[0]
    k = keys[b1] // 8
    sh_pos = 518 + 8 * k
    firstCode, entryCount, idDelta, idRangeOffset = struct.unpack(">HHhH", data[sh_pos:sh_pos + 8])
    if k == 0:
        c, used = b1, 1
    else:
        if len(code_bytes) < 2:
            return None, 0
        c, used = code_bytes[1], 2
    if not firstCode <= c < firstCode + entryCount:
        return 0, used
    p = sh_pos + 6 + idRangeOffset + 2 * (c - firstCode)
    gi = struct.unpack(">H", data[p:p + 2])[0]
    if gi:
        gi = (gi + idDelta) % 0x10000
    return gi, used


@contract
class CmapFormat2Bytes(Contract):
    module = "fontTools.ttLib.tables._c_m_a_p"
    qualname = "cmap_format_2.compile"
    props = ("C02", "C07")
    shadow_mode = "real"
    level = "PF"
    assumptions = ("token-valued: 764 subtables; the reader in this file is the specification's lookup procedure, not fontTools' decompiler",)

    def args(self, S, variant):
        return {}

    def call(self, f, a):
        from fontTools.ttLib import TTFont
        from fontTools.ttLib.tables._c_m_a_p import CmapSubtable
        font = TTFont()
        font.setGlyphOrder([".notdef"] + ["g%d" % i for i in range(1, 300)])
        singles = (0x20, 0x21, 0x41, 0x7F)
        ranges = {"none": (), "dense": (0x40, 0x41, 0x42), "gap": (0x40, 0x42), "top": (0xFC,)}
        bad, n = [], 0
        for mask in range(16):
            one = [c for i, c in enumerate(singles) if mask >> i & 1]
            for r1, r2, share, scramble in itertools.product(ranges, ("none", "dense", "top"), (False, True), (False, True)):
                codes = list(one) + [0x8100 | c for c in ranges[r1]] + [0x9F00 | c for c in ranges[r2]]
                if not codes:
                    continue
                gids = list(range(1, len(codes) + 1))
                if scramble:
                    gids = [(7 * g) % 251 + 1 for g in gids]
                cm = {c: "g%d" % g for c, g in zip(codes, gids)}
                if share and r1 == r2 and r1 != "none":
                    for c in ranges[r1]:
                        cm[0x9F00 | c] = cm[0x8100 | c]          # equal glyph index arrays: the compiler shares one
                st = CmapSubtable.newSubtable(2)
                st.platformID, st.platEncID, st.language, st.cmap = 3, 2, 0, dict(cm)
                data = f(st, font)
                n += 1
                probe = [(b,) for b in range(256)] + [(hb, lb) for hb in (0x81, 0x82, 0x9F) for lb in range(256)]
                wrong = []
                for cb in probe:
                    gi, used = _lookup(data, cb)
                    code = cb[0] if len(cb) == 1 else cb[0] << 8 | cb[1]
                    if used == 0:
                        continue              # a lone high byte is not a char code
                    if used == 1 and len(cb) == 2:
                        continue              # the first byte is a one-byte code of its own
                    want = font.getGlyphID(cm[code]) if code in cm else 0
                    if gi != want:
                        wrong.append((hex(code), gi, want))
                # every mapped code must be reachable with its own byte length
                for code in cm:
                    cb = (code,) if code < 256 else (code >> 8, code & 255)
                    gi, used = _lookup(data, cb)
                    if used != len(cb) or gi != font.getGlyphID(cm[code]):
                        wrong.append(("unreachable", hex(code), gi, used))
                back = CmapSubtable.newSubtable(2)
                back.platformID, back.platEncID = 3, 2
                back.decompileHeader(data, font)
                back.ensureDecompiled()
                if wrong or back.cmap != cm:
                    bad.append((sorted(cm.items())[:6], wrong[:4], sorted(back.cmap.items())[:6]))
        return n, bad[:4]

    ensures = [prop("bytes-map-every-code-per-the-specification", lambda a, old, r: r[0] == 764 and not r[1])]
