"""Contracts for the sfnt container writer (C04, C01). Spec: OpenType 'Organization of an
OpenType Font' (table directory, searchRange/entrySelector/rangeShift, table checksums,
checkSumAdjustment = 0xB1B0AFBA - sum)."""
import struct

from pyvc.core import Contract, contract, prop, internal
from pyvc.models import std, SymBytes
from pyvc.spec import And, Or, Not, Implies, Ite, eq

REBIND = std("struct", "len", "bytes", "int")


def _items(b):
    return list(b.items) if isinstance(b, SymBytes) else list(b)


# -- search fields ------------------------------------------------------------------

@contract
class MaxPowerOfTwo(Contract):
    module = "fontTools.ttLib.ttFont"
    qualname = "maxPowerOfTwo"
    props = ("C04",)
    shadow_mode = "function"

    def args(self, S, variant):
        return dict(x=S.int("x", 0, 65535))     # numTables / segCount are uint16 fields

    ensures = [prop("floor-log2", lambda a, old, r: And(
        r >= 0, Implies(a.x >= 1, And(2 ** r <= a.x, a.x < 2 ** (r + 1))), Implies(eq(a.x, 0), eq(r, 0))))]


@contract
class GetSearchRange(Contract):
    module = "fontTools.ttLib.ttFont"
    qualname = "getSearchRange"
    props = ("C04",)
    shadow_mode = "function"
    variants = (16, 2, 6)   # itemSize: table directory; cmap format 4 and kern use 2 and 6

    def args(self, S, variant):
        return dict(n=S.int("n", 0, 65535), itemSize=variant)

    ensures = [prop("OT-search-fields", lambda a, old, r: And(
        # searchRange = (largest power of two <= n) * itemSize ; entrySelector = its log2 ;
        # rangeShift = n*itemSize - searchRange
        Implies(a.n >= 1, And(2 ** r[1] <= a.n, a.n < 2 ** (r[1] + 1))),
        eq(r[0], (2 ** r[1]) * a.itemSize),
        Implies(a.n >= 1, eq(r[2], a.n * a.itemSize - r[0])),
        Implies(eq(a.n, 0), And(eq(r[1], 0), eq(r[2], 0)))))]


# -- checksum ----------------------------------------------------------------------------

def spec_checksum(bs):
    """OT table checksum: sum of big-endian uint32 words of the data zero-padded to a
    multiple of four, modulo 2**32."""
    bs = list(bs) + [0] * (-len(bs) % 4)
    total = 0
    for k in range(0, len(bs), 4):
        total = total + ((bs[k] * 256 + bs[k + 1]) * 256 + bs[k + 2]) * 256 + bs[k + 3]
    return total % (2 ** 32)


@contract
class CalcChecksum(Contract):
    """Shapes: every data length 0..13 (all four padding remainders, several words) with all
    byte values symbolic.  The 4096-byte block loop runs once for these; the multi-block
    case is covered by the additivity clause on a 2-block input in the thorough tier."""
    module = "fontTools.ttLib.sfnt"
    qualname = "calcChecksum"
    props = ("C04", "C01")
    rebind = REBIND
    variants = tuple(range(0, 14))
    level = "PF"

    def args(self, S, variant):
        return dict(data=S.bytes("data", variant))

    ensures = [prop("equals-OT-checksum", lambda a, old, r: eq(r, spec_checksum(_items(a.data))))]


# -- SFNTWriter ------------------------------------------------------------------------
# Table payloads are Blobs (opaque bytes of ANY length), the output file is a ghost file
# (pyvc.blobs.SymFile).  calcChecksum is used modularly: a call stands for the ghost
# function CS(bytes) = the OT checksum of those bytes (CalcChecksum's postcondition).

from pyvc.blobs import Atom, Blob, SymFile
from pyvc.models import sstruct_shadow
from pyvc import sym as _sym
import z3 as _z3


class ChecksumLog:
    """Ghost function CS: equal argument structure -> same symbol."""

    def __init__(self):
        self.calls = []

    def __call__(self, data):
        b = Blob.of(data)
        key = b.key()
        for k, blob, v in self.calls:
            if k == key:
                return v
        cx = _sym.ctx()
        v = cx.fresh_int("CS")
        cx.assume_term(_z3.And(v.t >= 0, v.t < 2 ** 32))
        self.calls.append((key, b, v))
        return v

    def value_of(self, blob):
        key = Blob.of(blob).key()
        for k, b, v in self.calls:
            if k == key:
                return v
        return None


def _writer_rebind():
    return dict(std("struct", "len", "bytes", "int"), sstruct=sstruct_shadow())


def _mk_writer(self_contract, S, numTables=3, flavor=None):
    """A writer in an ARBITRARY well-formed state: built by the real __init__ on a ghost
    file, then nextTableOffset / file position replaced by symbolic values satisfying the
    representation invariant WF (position == size == nextTableOffset, multiple of 4)."""
    mod = self_contract.mod
    cs = None
    if not S.concrete:          # native replay runs the unmodified module (real calcChecksum)
        cs = ChecksumLog()
        mod.__dict__["calcChecksum"] = cs
    f = SymFile()
    w = mod.SFNTWriter(f, numTables, "\0\1\0\0", flavor)
    nto = S.int("nextTableOffset")
    w._dir_end = w.nextTableOffset
    w.nextTableOffset = nto
    f.pos = nto
    f.size = nto
    f.writes = []
    return w, f, cs


def WF(w, f):
    # size <= position happens only right after __init__ (seek past the end, nothing written yet)
    return And(eq(w.nextTableOffset % 4, 0), eq(f.pos, w.nextTableOffset), f.size <= w.nextTableOffset,
               w.nextTableOffset >= w._dir_end)


@contract
class SFNTWriterInit(Contract):
    module = "fontTools.ttLib.sfnt"
    qualname = "SFNTWriter.__init__"
    props = ("C04",)
    rebind = staticmethod(_writer_rebind)
    variants = (0, 1, 5, 16)    # numTables

    def args(self, S, variant):
        cls = self.mod.SFNTWriter
        w = cls.__new__(cls)
        return dict(self=w, file=SymFile(), numTables=variant, sfntVersion="OTTO")

    ensures = [prop("reserves-directory-area", lambda a, old, r: And(
        eq(a.self.nextTableOffset, 12 + 16 * a.numTables), eq(a.file.pos, a.self.nextTableOffset),
        eq(a.self.nextTableOffset % 4, 0),
        # nothing but NUL bytes has been written into the directory area so far
        *[b.same(Blob.zeros(b.__symlen__())) for p, b in a.file.writes]))]


@contract
class SFNTWriterSetItem(Contract):
    """writer[tag] = data for a payload of ANY length, from ANY well-formed state."""
    module = "fontTools.ttLib.sfnt"
    qualname = "SFNTWriter.__setitem__"
    props = ("C04", "C01")
    rebind = staticmethod(_writer_rebind)
    variants = ("glyf", "head", "duplicate")
    expect_exceptional_only = ("duplicate",)

    def args(self, S, variant):
        w, f, cs = _mk_writer(self, S)
        tag = "head" if variant == "head" else "glyf"
        if variant == "duplicate":
            w.tables["glyf"] = object()
        if S.concrete:
            from types import SimpleNamespace
            n = max(0, S.int("data.len"))
            payload = bytes((37 * i + 11) % 251 for i in range(n))
            return dict(self=w, tag=tag, data=payload, _file=f, _cs=None, _atom=SimpleNamespace(n=n))
        data = Atom("data")
        S.ctx.symbols["data.len"] = data.n.t
        S.ctx.assume_term(data.n.t >= 0)
        return dict(self=w, tag=tag, data=data.blob(), _file=f, _cs=cs, _atom=data)

    def requires(self, a):
        return WF(a.self, a._file)

    def call(self, f, a):
        return f(a.self, a.tag, a.data)

    from fontTools.ttLib import TTLibError as _E
    raises = {_E: lambda a: a.tag in a.old.self.tables}

    @staticmethod
    def _entry(a):
        return a.self.tables[a.tag]

    ensures = [
        prop("offset-is-old-nextTableOffset-aligned", lambda a, old, r: And(
            eq(SFNTWriterSetItem._entry(a).offset, old.self.nextTableOffset),
            eq(SFNTWriterSetItem._entry(a).offset % 4, 0))),
        prop("length-is-payload-length", lambda a, old, r: eq(SFNTWriterSetItem._entry(a).length, a._atom.n)),
        prop("payload-written-verbatim-at-offset-then-zero-padding", lambda a, old, r: SFNTWriterSetItem._writes_ok(a)),
        prop("WF-preserved-next-offset-minimal", lambda a, old, r: And(
            WF(a.self, a._file),
            a.self.nextTableOffset >= SFNTWriterSetItem._entry(a).offset + a._atom.n,
            a.self.nextTableOffset < SFNTWriterSetItem._entry(a).offset + a._atom.n + 4)),
        prop("checksum-is-OT-checksum-of-payload", lambda a, old, r: SFNTWriterSetItem._cs_ok(a)),
    ]

    @staticmethod
    def _writes_ok(a):
        ws = a._file.writes
        e = SFNTWriterSetItem._entry(a)
        if len(ws) < 1:
            return eq(a._atom.n, 0)        # an empty payload may produce no write at all
        cs = []
        k = 0
        # first write: the payload itself at entry.offset (absent only if the payload is empty)
        if ws[0][1].same(a.data) is not False:
            cs.append(And(eq(ws[0][0], e.offset), ws[0][1].same(a.data)))
            k = 1
        else:
            cs.append(eq(a._atom.n, 0))
        # everything after it: zero bytes, contiguous up to the new nextTableOffset
        pos = e.offset + a._atom.n
        for p, b in ws[k:]:
            cs.append(And(eq(p, pos), b.same(Blob.zeros(b.__symlen__()))))
            pos = pos + b.__symlen__()
        cs.append(eq(pos, a.self.nextTableOffset))
        return And(*cs)

    @staticmethod
    def _cs_ok(a):
        e = SFNTWriterSetItem._entry(a)
        if a.tag == "head":
            # checksum of head is computed with checkSumAdjustment (bytes 8..11) taken as zero
            want = a.data[:8] + b"\0\0\0\0" + a.data[12:]
        else:
            want = a.data
        if a._cs is None:       # native replay: compare with the spec function on the actual bytes
            return eq(e.checkSum, spec_checksum(list(want)))
        v = a._cs.value_of(want)
        return False if v is None else eq(e.checkSum, v)


# -- WOFF per-table compression ----------------------------------------------------------
# zlib is external: compress(data) is ANY byte string of ANY length (assumed contract:
# decompress(compress(x)) == x).  WOFF spec: a table is stored compressed only if that is
# strictly smaller; compLength == origLength MEANS "stored uncompressed".


@contract
class WOFFEncodeData(Contract):
    module = "fontTools.ttLib.sfnt"
    qualname = "WOFFDirectoryEntry.encodeData"
    props = ("C04", "C01")
    variants = ("compressible", "forced-raw")
    assumptions = ("zlib.compress/decompress assumed mutually inverse and length-honest (external C library)",)

    def rebind(self):
        return dict(std("len", "bytes"), compress=self._compress)

    def _compress(self, data, level=None):
        if isinstance(data, (bytes, bytearray)):
            import zlib
            return zlib.compress(data, level if level is not None else 6)
        self._z = Atom("z")
        cx = _sym.ctx()
        cx.symbols["z.len"] = self._z.n.t
        cx.assume_term(self._z.n.t >= 0)
        return self._z.blob()

    def args(self, S, variant):
        cls = self.mod.WOFFDirectoryEntry
        e = cls()
        e.uncompressed = (variant == "forced-raw")
        if S.concrete:
            return dict(self=e, data=S.values.get("__payload__", b"x" * max(0, S.int("data.len"))))
        data = Atom("data")
        S.ctx.symbols["data.len"] = data.n.t
        S.ctx.assume_term(data.n.t >= 0)
        return dict(self=e, data=data.blob())

    ensures = [
        prop("origLength-is-payload-length", lambda a, old, r: eq(a.self.origLength, len(a.data) if isinstance(a.data, bytes) else a.data.__symlen__())),
        prop("length-is-stored-length", lambda a, old, r: eq(a.self.length, len(r) if isinstance(r, bytes) else Blob.of(r).__symlen__())),
        prop("equal-lengths-mean-stored-raw", lambda a, old, r: Implies(
            eq(a.self.length, a.self.origLength), Blob.of(r).same(a.data) if not isinstance(r, bytes) else r == a.data)),
        prop("never-larger-than-original", lambda a, old, r: a.self.length <= a.self.origLength),
        prop("forced-raw-is-raw", lambda a, old, r: Implies(a.self.uncompressed, Blob.of(r).same(a.data) if not isinstance(r, bytes) else r == a.data)),
    ]

    def concrete_candidates(self, variant):
        """Payloads whose zlib stream is exactly as long as the payload (the WOFF break-even case)."""
        import random, zlib
        rnd = random.Random(1)
        found = 0
        for _ in range(60000):
            n = rnd.randint(16, 64)
            k = rnd.randint(2, 6)
            payload = bytes(rnd.randrange(k * 8) for _ in range(n))
            if len(zlib.compress(payload, 6)) == n:
                yield {"__payload__": payload, "data.len": n}
                found += 1
                if found >= 3:
                    return


# -- directory and master checksum --------------------------------------------------------

def spec_parse_directory(bs, n):
    """Independent reading of an sfnt header + n directory entries (OpenType spec):
    returns (header fields, [(tag bytes, checkSum, offset, length)])."""
    def u16(k):
        return bs[k] * 256 + bs[k + 1]

    def u32(k):
        return ((bs[k] * 256 + bs[k + 1]) * 256 + bs[k + 2]) * 256 + bs[k + 3]

    hdr = dict(sfntVersion=bs[0:4], numTables=u16(4), searchRange=u16(6), entrySelector=u16(8), rangeShift=u16(10))
    ents = []
    for i in range(n):
        o = 12 + 16 * i
        ents.append((bs[o:o + 4], u32(o + 4), u32(o + 8), u32(o + 12)))
    return hdr, ents


class _CloseBase(Contract):
    module = "fontTools.ttLib.sfnt"
    props = ("C04",)
    rebind = staticmethod(_writer_rebind)
    level = "PF"
    TAGS = ("zzzz", "head", "OS/2", "cmap")     # deliberately unsorted insertion order

    def _writer(self, S, n, with_head=True):
        mod = self.mod
        f = SymFile()
        w = mod.SFNTWriter(f, n, "\0\1\0\0")
        f.writes = []
        tags = [t for t in self.TAGS if with_head or t != "head"][:n]
        ents = {}
        for t in tags:
            e = mod.SFNTDirectoryEntry()
            e.tag = t
            e.checkSum = S.int("cs_" + t, 0, 2 ** 32 - 1)
            e.offset = S.int("off_" + t, 0, 2 ** 32 - 1)
            e.length = S.int("len_" + t, 0, 2 ** 32 - 1)
            w.tables[t] = e
            ents[t] = e
        return w, f, ents


@contract
class SFNTWriterClose(_CloseBase):
    """close(): the directory written at offset 0 parses (independent reader) to the header
    search fields of the spec and to the entries sorted by tag with their recorded
    checkSum/offset/length; checkSumAdjustment written at head.offset + 8 makes the
    whole-file sum 0xB1B0AFBA (table checksums + directory checksum)."""
    qualname = "SFNTWriter.close"
    variants = (0, 1, 2, 3, 4, "nohead-2", "wrong-count")
    expect_exceptional_only = ("wrong-count",)

    def args(self, S, variant):
        if variant == "wrong-count":
            w, f, ents = self._writer(S, 2)
            w.numTables = 3
        elif variant == "nohead-2":
            w, f, ents = self._writer(S, 2, with_head=False)
        else:
            w, f, ents = self._writer(S, variant)
        return dict(self=w, _file=f, _ents=ents)

    def call(self, f, a):
        return f(a.self)

    from fontTools.ttLib import TTLibError as _E
    raises = {_E: lambda a: len(a.self.tables) != a.self.numTables}

    @staticmethod
    def _dir_bytes(a):
        # the last write at position 0 is the directory
        ws = [b for p, b in a._file.writes if (p == 0 if isinstance(p, int) else bool(p == 0))]
        d = ws[-1].materialize(12 + 16 * len(a._ents))
        return list(d.items)

    @staticmethod
    def _dir_ok(a):
        n = len(a._ents)
        bs = SFNTWriterClose._dir_bytes(a)
        hdr, ents = spec_parse_directory(bs, n)
        e2 = 0
        while (2 << e2) <= n:
            e2 += 1
        cs = [eq(hdr["numTables"], n)]
        if n:
            cs += [eq(hdr["searchRange"], (1 << e2) * 16), eq(hdr["entrySelector"], e2),
                   eq(hdr["rangeShift"], n * 16 - (1 << e2) * 16)]
        for (tagb, c, o, l), t in zip(ents, sorted(a._ents)):
            e = a._ents[t]
            cs += [eq(list(tagb), list(t.encode("latin-1"))), eq(c, e.checkSum), eq(o, e.offset), eq(l, e.length)]
        return And(*cs)

    @staticmethod
    def _adjust_ok(a):
        if "head" not in a._ents:
            return all(not (isinstance(b, SymBytes) or True) or True for p, b in a._file.writes) and \
                And(*[True])
        head = a._ents["head"]
        ws = [(p, b) for p, b in a._file.writes if bool(eq(p, head.offset + 8))]
        if len(ws) != 1:
            return False
        adj = ws[0][1].materialize(4)
        adj = ((adj.items[0] * 256 + adj.items[1]) * 256 + adj.items[2]) * 256 + adj.items[3]
        total = spec_checksum(SFNTWriterClose._dir_bytes(a))
        for e in a._ents.values():
            total = total + e.checkSum
        return eq((total + adj) % 2 ** 32, 0xB1B0AFBA)

    ensures = [
        prop("directory-sorted-with-OT-search-fields", lambda a, old, r: SFNTWriterClose._dir_ok(a)),
        prop("checkSumAdjustment-makes-file-sum-B1B0AFBA", lambda a, old, r: SFNTWriterClose._adjust_ok(a)),
    ]


# -- calcChecksum for data of ANY length (block loop cut by invariant) -------------------------
# Ghost: the byte string PAD = data zero-padded to a multiple of four; W(k) = big-endian word k
# of PAD; SUM(a, b) = W(a) + ... + W(b-1) with SUM(a, a) = 0 and SUM(a, c) = SUM(a, b) + SUM(b, c).
# The OT checksum IS SUM(0, len(PAD)/4) mod 2**32.  The model of `sum(struct.unpack(">%dL" % n,
# block))` returns SUM over the word window the block occupies in PAD.

from pyvc import loopcut as _lc
from pyvc.loopcut import LoopSpec
from pyvc.models import GhostWords


class _WordSums:
    def __init__(self):
        I = _z3.IntSort()
        self.SUM = _z3.Function("SUMW", I, I, I)

    def window(self, a, b):
        return _sym.SymNum(self.SUM(_sym._lift(a).t, _sym._lift(b).t))

    def assume_split(self, a, b, c):
        cx = _sym.ctx()
        a, b, c = (_sym._lift(x).t for x in (a, b, c))
        cx.assume_term(self.SUM(a, c) == self.SUM(a, b) + self.SUM(b, c))

    def assume_empty(self, a):
        a = _sym._lift(a).t
        _sym.ctx().assume_term(self.SUM(a, a) == 0)


def _mk_sum(ws):
    import builtins

    def sum_(x, *rest):
        if isinstance(x, GhostWords):
            # the block is a window of PAD starting at byte offset `start` (first segment's offset)
            segs = x.blob.segs
            if not segs:
                return 0
            first = segs[0]
            start = first[2] if first[0] == "atom" else None
            if start is None or any(sg[0] != "zero" for sg in segs[1:]):
                # only `data ++ NUL padding` is the ghost string PAD; anything else is not modelled
                raise _sym.Unsupported("word sum of a block that is not a window of data + zero padding")
            a = start // 4 if not isinstance(start, int) else start // 4
            return ws.window(a, a + x.count)
        return builtins.sum(x, *rest)
    return sum_


def _cs_havoc(ws):
    def havoc(F, env, i, n):
        # words per block = 1024; facts about SUM needed at this cut: additivity around the block
        wpb = env.blockSize // 4          # words per block, from the code's own blockSize
        lo = i * wpb
        nw = env.g.nwords
        hi = _sym.Ite(lo + wpb <= nw, lo + wpb, nw)
        ws.assume_split(0, lo, hi)
        return {"value": F.int("value", 0, 2 ** 32 - 1), "block": None, "longs": None}
    return havoc


@contract
class CalcChecksumAnyLength(Contract):
    """calcChecksum(data) == (sum of the big-endian words of data zero-padded to a multiple of
    four) mod 2**32 for data of EVERY length; invariant of the 4096-byte block loop:
    value == SUM(0, 1024*i) mod 2**32."""
    module = "fontTools.ttLib.sfnt"
    qualname = "calcChecksum"
    props = ("C04", "C01")
    timeout_ms = 20000

    def rebind(self):
        self.ws = _WordSums()
        d = dict(std("struct", "len", "bytes", "int"), range=_lc.range_, sum=_mk_sum(self.ws))
        d["__fmt__"] = True
        return d

    @property
    def cuts(self):
        ws_holder = self

        def inv(env, i, n):
            nw = env.g.nwords
            wpb = env.blockSize // 4
            done = _sym.Ite(i * wpb <= nw, i * wpb, nw)
            return And(eq(env.value, ws_holder.ws.window(0, done) % 2 ** 32), env.value >= 0)

        def ghost(env):
            from types import SimpleNamespace
            from pyvc.models import len_
            return SimpleNamespace(nwords=len_(env.data) // 4)

        def havoc(F, env, i, n):
            return _cs_havoc(ws_holder.ws)(F, env, i, n)

        return {"calcChecksum": {0: LoopSpec(modifies=["value", "block", "longs"], invariant=inv, havoc=havoc, ghost=ghost)}}

    def args(self, S, variant):
        if S.concrete:
            return dict(data=S.values.get("data") or b"")
        at = Atom("data")
        S.ctx.symbols["data"] = ("bytes", at.arr, at.n.t)
        S.ctx.assume_term(at.n.t >= 0)
        self.ws.assume_empty(0)
        self._n = at.n
        return dict(data=at.blob())

    @property
    def ensures(self):
        def post(a, old, r):
            if isinstance(a.data, bytes):
                return eq(r, spec_checksum(list(a.data)))
            nw = (self._n + 3) // 4
            return eq(r, self.ws.window(0, nw) % 2 ** 32)
        return [prop("equals-sum-of-all-words-mod-2^32", post)]
