"""_TTGlyphGlyf._getGlyphInstance (C05): a TrueType glyph at a variation location is the default
outline (phantom points included) plus, for every tuple variation, its region scalar times its
deltas - deltas the variation leaves out being inferred (IUP) from the DEFAULT outline, never from
the partially varied one; variations with scalar 0 contribute nothing; advance and side bearing
come from the varied phantom points unless the font has HVAR.  supportScalar, iup_delta,
_getCoordinatesAndControls and _setCoordinates are used through stubs (their own contracts:
SupportScalar*, Iup*, CompositeCoordinates; _setCoordinates is under the bounded harness)."""
from copy import copy as _copy

from pyvc.core import Contract, contract, prop, internal
from pyvc.spec import And, Or, Not, Implies, Ite, eq


class _Coords:
    """the GlyphCoordinates operations used here, over a plain list"""

    def __init__(self, pts):
        self.pts = [tuple(p) for p in pts]

    def __iadd__(self, other):
        assert len(other.pts) == len(self.pts)
        self.pts = [(a[0] + b[0], a[1] + b[1]) for a, b in zip(self.pts, other.pts)]
        return self

    def __mul__(self, s):
        return _Coords([(x * s, y * s) for x, y in self.pts])

    def __len__(self):
        return len(self.pts)

    def __iter__(self):
        return iter(self.pts)

    def __getitem__(self, i):
        return self.pts[i]


# per variation: None = all deltas explicit; a tuple = indices left out (to be inferred)
SHAPES = {"one-explicit": [None], "two-explicit": [None, None], "explicit-then-sparse": [None, (1, 2)],
          "sparse-then-sparse": [(0,), (2, 3)], "sparse-explicit-sparse": [(1,), None, (0, 3)]}


@contract
class GlyfGlyphInstance(Contract):
    module = "fontTools.ttLib.ttGlyphSet"
    qualname = "_TTGlyphGlyf._getGlyphInstance"
    props = ("C05",)
    shadow_mode = "real"
    variants = tuple((s, hvar) for s in SHAPES for hvar in (False, True))
    level = "PF"
    assumptions = ("A-REAL", "supportScalar, iup_delta, _getCoordinatesAndControls, _setCoordinates stubbed by free symbols / recorders; "
                   "GlyphCoordinates replaced by a list with the same += and * semantics")

    def setup(self):
        import fontTools.ttLib.tables._g_l_y_f as G
        import fontTools.varLib.iup as I
        import fontTools.varLib.models as M
        import fontTools.ttLib.ttGlyphSet as T
        self._saved = (G.GlyphCoordinates, I.iup_delta, M.supportScalar, T._setCoordinates)

    def teardown(self):
        import fontTools.ttLib.tables._g_l_y_f as G
        import fontTools.varLib.iup as I
        import fontTools.varLib.models as M
        import fontTools.ttLib.ttGlyphSet as T
        G.GlyphCoordinates, I.iup_delta, M.supportScalar, T._setCoordinates = self._saved

    def args(self, S, variant):
        import fontTools.ttLib.tables._g_l_y_f as G
        import fontTools.varLib.iup as I
        import fontTools.varLib.models as M
        import fontTools.ttLib.ttGlyphSet as T
        shape, hvar = variant
        n = 4 + 4                                    # four outline points + four phantom points
        base = [(S.real("x%d" % i), S.real("y%d" % i)) for i in range(n)]
        scalars, variations, inferred, log = [], [], {}, []
        for k, sparse in enumerate(SHAPES[shape]):
            sc = S.real("scalar%d" % k)
            scalars.append(sc)
            deltas = [None if (sparse and i in sparse) else (S.real("d%d_%dx" % (k, i)), S.real("d%d_%dy" % (k, i))) for i in range(n)]

            class _Var:
                pass
            v = _Var()
            v.axes, v.coordinates, v._k = {"wght": (0, 1, 1), "_k": k}, deltas, k
            variations.append(v)
            if sparse:
                inferred[k] = [d if d is not None else (S.real("iup%d_%dx" % (k, i)), S.real("iup%d_%dy" % (k, i))) for i, d in enumerate(deltas)]
        by_axes = {id(v.axes): v for v in variations}

        def supportScalar(location, axes):
            log.append(("scalar", by_axes[id(axes)]._k))
            return scalars[by_axes[id(axes)]._k]

        def iup_delta(delta, coords, ends):
            k = next(v._k for v in variations if v.coordinates is delta)
            log.append(("iup", k, [tuple(p) for p in coords], list(ends)))
            return inferred[k]
        G.GlyphCoordinates, I.iup_delta, M.supportScalar = _Coords, iup_delta, supportScalar
        set_calls = []

        def _setCoordinates(glyph, coord, glyfTable, *, recalcBounds=True):
            set_calls.append((glyph, [tuple(p) for p in coord], recalcBounds))
            return "W", "LSB", "H", "TSB"
        T._setCoordinates = _setCoordinates

        class _Glyf(dict):
            def _getCoordinatesAndControls(self, name, hMetrics, vMetrics):
                log.append(("coords", name))
                return _Coords(base), (1, [3], None, None)
        stored = object.__new__(G.Glyph)
        stored.numberOfContours = 1
        glyf = _Glyf(g=stored)

        class _GS:
            pass
        gs = _GS()
        gs.glyfTable, gs.hMetrics, gs.vMetrics, gs.location = glyf, {"g": (500, 20)}, None, {"wght": 0.5}
        gs.hvarTable = object() if hvar else None

        class _Gvar:
            pass
        gs.gvarTable = _Gvar()
        gs.gvarTable.variations = {"g": variations}
        me = object.__new__(T._TTGlyphGlyf)
        me.glyphSet, me.name, me.recalcBounds = gs, "g", True
        me.width, me.lsb, me.height, me.tsb = 500, 20, None, None
        return dict(self=me, _base=base, _scalars=scalars, _vars=variations, _inferred=inferred, _log=log, _set=set_calls,
                    _stored=stored, _hvar=hvar, _n=n)

    def call(self, f, a):
        return f(a.self), list(a._log), list(a._set)

    @staticmethod
    def _post(a, r):
        glyph, log, set_calls = r
        if len(set_calls) != 1 or glyph is a._stored or set_calls[0][0] is not glyph or set_calls[0][2] is not True:
            return False
        got = set_calls[0][1]
        cs = []
        for i in range(a._n):
            wx, wy = a._base[i]
            for v, sc in zip(a._vars, a._scalars):
                d = v.coordinates[i] if v.coordinates[i] is not None else a._inferred[v._k][i]
                wx = wx + Ite(eq(sc, 0), 0, sc * d[0])
                wy = wy + Ite(eq(sc, 0), 0, sc * d[1])
            cs += [eq(got[i][0], wx), eq(got[i][1], wy)]
        # inference always sees the DEFAULT outline and the glyph's end points
        for e in log:
            if e[0] == "iup":
                cs.append(And(*[And(eq(p[0], b[0]), eq(p[1], b[1])) for p, b in zip(e[2], a._base)]))
                cs.append(e[3] == [3])
        me = a.self
        cs.append(me.lsb == "LSB" and me.tsb == "TSB")
        cs.append((me.width, me.height) == ((500, None) if a._hvar else ("W", "H")))
        return And(*cs)

    ensures = [prop("default-outline-plus-scalar-weighted-deltas-inferred-from-the-default", lambda a, old, r: GlyfGlyphInstance._post(a, r))]


from contracts.varlib_mutator_merger import _IntModel
from pyvc.spec import floor


def _round(x):
    return floor(x + 0.5) if not isinstance(x, (int, float)) else int(__import__("math").floor(x + 0.5))


@contract
class SetCoordinatesPhantoms(_IntModel, Contract):
    """_setCoordinates: the last four points are the phantom points (left, right, top, bottom);
    the others become the glyph's points - or, for a composite, the offsets of COPIES of its
    components (those placed by offsets; the stored glyph's own component objects are not
    touched) - and advance / side bearings are the rounded differences the OpenType gvar
    chapter defines: right - left, xMin - left, top - bottom, top - yMax."""
    module = "fontTools.ttLib.ttGlyphSet"
    qualname = "_setCoordinates"
    props = ("C05", "C08")
    shadow_mode = "real"
    variants = ("simple", "composite", "empty")
    level = "PF"
    assumptions = ("A-REAL", "Glyph.recalcBounds is a stub that installs fresh symbolic bounds (its contract: GlyphCompileHeaderBox / calcBounds)")

    def args(self, S, variant):
        from copy import copy
        pts = [(S.real("x%d" % i), S.real("y%d" % i)) for i in range({"simple": 3, "composite": 2, "empty": 0}[variant])]
        ph = [(S.real("px%d" % i), S.real("py%d" % i)) for i in range(4)]
        newbox = dict(xMin=S.real("xMin"), yMin=S.real("yMin"), xMax=S.real("xMax"), yMax=S.real("yMax"))
        log = []

        class _Comp:
            pass

        class _Glyph:
            def isComposite(self):
                return self.numberOfContours == -1

            def recalcBounds(self, glyfTable):
                log.append(("recalc", list(getattr(self, "coordinates", [])), [(getattr(c, "x", None), getattr(c, "y", None)) for c in getattr(self, "components", [])]))
                self.__dict__.update(newbox)
        g = _Glyph()
        g.numberOfContours = {"simple": 1, "composite": -1, "empty": 0}[variant]
        comps = []
        if variant == "simple":
            g.coordinates = [("old", i) for i in range(3)]
        elif variant == "composite":
            for i in range(2):
                c = _Comp()
                c.glyphName = "base%d" % i
                if i == 0:
                    c.x, c.y = ("oldx", i), ("oldy", i)
                else:
                    c.firstPt, c.secondPt = 1, 2          # placed by point matching: no offsets to set
                comps.append(c)
            g.components = list(comps)
        return dict(glyph=g, coord=list(pts) + list(ph), glyfTable={}, recalcBounds=True, _pts=pts, _ph=ph, _box=newbox, _comps=comps,
                    _comp_state=[dict(vars(c)) for c in comps], _log=log, _variant=variant)

    def call(self, f, a):
        return f(a.glyph, a.coord, a.glyfTable, recalcBounds=a.recalcBounds), list(a._log)

    @staticmethod
    def _post(a, r):
        (adv, lsb, vadv, tsb), log = r
        g, ph, box = a.glyph, a._ph, a._box
        cs = [eq(adv, _round(ph[1][0] - ph[0][0])), eq(lsb, _round(box["xMin"] - ph[0][0])),
              eq(vadv, _round(ph[2][1] - ph[3][1])), eq(tsb, _round(ph[2][1] - box["yMax"]))]
        if len(log) != 1:
            return False
        if a._variant == "simple":
            cs.append(len(g.coordinates) == 3 and all(p is q for p, q in zip(g.coordinates, a._pts)) and len(log[0][1]) == 3)
        elif a._variant == "composite":
            new = g.components
            cs.append(len(new) == 2 and all(n is not o for n, o in zip(new, a._comps)))
            cs.append(new[0].x is a._pts[0][0] and new[0].y is a._pts[0][1] and not hasattr(new[1], "x") and new[1].firstPt == 1)
            cs.append(all(dict(vars(c)) == st for c, st in zip(a._comps, a._comp_state)))        # the stored components are untouched
            cs.append(log[0][2] == [(a._pts[0][0], a._pts[0][1]), (None, None)])               # bounds recomputed AFTER the offsets were set
        return And(*cs)

    ensures = [prop("points-installed-and-metrics-from-phantom-points", lambda a, old, r: SetCoordinatesPhantoms._post(a, r))]


@contract
class GlyphSetMetricsAndShift(Contract):
    """_TTGlyph.__init__ and _TTGlyphGlyf.draw / drawPoints: the reported advance is hmtx's plus the
    HVAR delta of the glyph's OWN delta-set index (AdvWidthMap entry, or the glyph id when there is
    no map) - and only at a non-default location; drawing shifts the outline by lsb - xMin at the
    top level and by nothing inside a composite (depth > 0), and leaves the depth counter as it was,
    also when the pen raises."""
    module = "fontTools.ttLib.ttGlyphSet"
    qualname = "_TTGlyphGlyf.draw"
    props = ("C05",)
    shadow_mode = "real"
    variants = tuple((loc, hvar, depth, meth) for loc in (False, True) for hvar in ("none", "implicit", "mapped") for depth in (0, 2) for meth in ("draw", "drawPoints"))
    level = "PF"
    assumptions = ("the glyf Glyph is a recorder; the HVAR instancer is a table of free symbols",)

    def args(self, S, variant):
        import fontTools.ttLib.ttGlyphSet as T
        loc, hvar, depth, meth = variant
        adv, lsb, xmin = S.int("adv", 0, 4000), S.int("lsb", -500, 500), S.int("xMin", -500, 500)
        deltas = {7: S.real("delta_gid"), 3: S.real("delta_mapped"), 0: S.real("delta_zero")}
        calls = []

        class _Glyph:
            def draw(self, pen, glyfTable, offset=0):
                calls.append(("draw", offset))
                if pen == "raise":
                    raise KeyError("pen failed")

            def drawPoints(self, pen, glyfTable, offset=0):
                calls.append(("drawPoints", offset))
        glyph = _Glyph()
        glyph.xMin = xmin

        class _Font:
            def getGlyphID(self, name):
                return 7

        class _GS(T._TTGlyphSet):
            def __init__(self):
                pass

            def __getitem__(self, name):
                raise KeyError(name)
        gs = _GS()
        gs.font, gs.location, gs.depth = _Font(), ({"wght": 0.5} if loc else {}), depth
        gs.hMetrics, gs.vMetrics, gs.glyfTable, gs.gvarTable = {"g": (adv, lsb)}, None, {"g": glyph}, None
        gs.hvarInstancer = deltas
        if hvar == "none":
            gs.hvarTable = None
        else:
            class _H:
                pass
            gs.hvarTable = _H()
            gs.hvarTable.AdvWidthMap = None
            if hvar == "mapped":
                gs.hvarTable.AdvWidthMap = _H()
                gs.hvarTable.AdvWidthMap.mapping = {"g": 3, "other": 0}
        return dict(gs=gs, _adv=adv, _lsb=lsb, _xmin=xmin, _deltas=deltas, _calls=calls, _v=variant)

    def call(self, f, a):
        import fontTools.ttLib.ttGlyphSet as T
        loc, hvar, depth, meth = a._v
        g = T._TTGlyphGlyf(a.gs, "g")
        getattr(T._TTGlyphGlyf, meth)(g, "pen")
        after = a.gs.depth
        raised = False
        if meth == "draw":
            try:
                T._TTGlyphGlyf.draw(g, "raise")
            except KeyError:
                raised = True
        return g.width, g.lsb, list(a._calls), after, a.gs.depth, raised

    @staticmethod
    def _post(a, r):
        width, lsb, calls, depth_after, depth_final, raised = r
        loc, hvar, depth, meth = a._v
        want = a._adv
        if loc and hvar != "none":
            want = want + a._deltas[7 if hvar == "implicit" else 3]
        shift = (a._lsb - a._xmin) if depth == 0 else 0
        return And(eq(width, want), eq(lsb, a._lsb), len(calls) == (2 if meth == "draw" else 1), calls[0][0] == meth, eq(calls[0][1], shift),
                   depth_after == depth, depth_final == depth, raised == (meth == "draw"))

    ensures = [prop("advance-from-own-delta-set-and-shift-only-at-top-level", lambda a, old, r: GlyphSetMetricsAndShift._post(a, r))]
