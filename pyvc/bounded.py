"""Registry of bounded stand-ins (B-enum native enumeration, B-sym CrossHair,
B-run monitored test runs).  Never counted as proved."""
REGISTRY: dict = {}


class Bounded:
    def __init__(self, name, props, kind, bound, quick, fn):
        self.name, self.props, self.kind, self.bound, self.quick, self.fn = name, props, kind, bound, quick, fn


def bounded(props, kind, bound, quick=True, name=None):
    """fn(tier, seed) -> dict(evaluations, distinct_nontrivial, rule, samples, violations=[...], exhaustive?)"""
    def deco(fn):
        n = name or fn.__name__
        REGISTRY[n] = Bounded(n, tuple(props), kind, bound, quick, fn)
        return fn
    return deco
