"""Byte strings of SYMBOLIC length as terms (Blob) and a ghost file (SymFile).

A Blob is a concatenation of segments:
  atom segment  : bytes arr[start : start+length) of an opaque byte array (an input)
  zero segment  : `length` NUL bytes
  lit segment   : a SymBytes of concrete length (possibly symbolic elements)
Lengths and starts are SymNum or int.  This is what table payloads, padding and file
contents look like to the container code: it never inspects them, it measures, slices,
concatenates and writes them - so contracts about offsets, padding, order and "the same
bytes come out" are decided for every length.

Trusted: the slicing/concatenation algebra below (mirrors bytes semantics; `SymFile`
mirrors io.BytesIO's seek/tell/read/write).
"""
from __future__ import annotations

import z3

from . import sym
from .models import SymBytes
from .sym import SymBool, SymNum, Unsupported, _lift, ctx


def _n(x):
    return x if isinstance(x, SymNum) else SymNum(z3.IntVal(int(x)))


def _conc(x):
    if isinstance(x, SymNum):
        return x.concrete()
    return x


class Atom:
    def __init__(self, name):
        self.name = name
        self.arr = z3.Array(name, z3.IntSort(), z3.IntSort())
        self.n = SymNum(z3.Int(name + ".len"))

    def blob(self):
        return Blob([("atom", self, 0, self.n)])


class Blob:
    __slots__ = ("segs",)

    def __init__(self, segs=()):
        out = []
        for s in segs:
            ln = s[3] if s[0] != "lit" else len(s[1].items)
            if _conc(ln) == 0:
                continue
            # merge adjacent zero segments
            if out and s[0] == "zero" and out[-1][0] == "zero":
                out[-1] = ("zero", None, None, out[-1][3] + s[3])
            else:
                out.append(s)
        self.segs = out

    # -- construction ---------------------------------------------------------
    @staticmethod
    def of(x):
        if isinstance(x, Blob):
            return x
        if isinstance(x, SymBytes):
            if x.tail is not None:
                raise Unsupported("SymBytes with tail inside a Blob")
            return Blob([("lit", x, None, len(x.items))])
        if isinstance(x, (bytes, bytearray, memoryview)):
            b = bytes(x)
            if b and not any(b):
                return Blob([("zero", None, None, len(b))])
            return Blob([("lit", SymBytes(list(b)), None, len(b))])
        return NotImplemented

    @staticmethod
    def zeros(n):
        return Blob([("zero", None, None, n)])

    # -- length -----------------------------------------------------------------
    def __symlen__(self):
        total = 0
        for s in self.segs:
            total = total + s[3]
        return total

    def __len__(self):
        n = self.__symlen__()
        return n if isinstance(n, int) else n.__index__()

    def __bool__(self):
        n = self.__symlen__()
        return bool(n > 0) if isinstance(n, SymNum) else n > 0

    # -- concatenation ------------------------------------------------------------
    def __add__(self, o):
        o = Blob.of(o)
        if o is NotImplemented:
            return NotImplemented
        return Blob(self.segs + o.segs)

    def __radd__(self, o):
        o = Blob.of(o)
        if o is NotImplemented:
            return NotImplemented
        return Blob(o.segs + self.segs)

    # -- slicing --------------------------------------------------------------------
    def __getitem__(self, k):
        if not isinstance(k, slice):
            m = self.materialize_prefix(k + 1) if isinstance(k, int) and k >= 0 else None
            if m is None:
                raise Unsupported("index into a Blob")
            return m.items[k]
        if k.step not in (None, 1):
            raise Unsupported("stepped slice of a Blob")
        a = 0 if k.start is None else k.start
        b = k.stop
        n = None
        if isinstance(b, int) and b < 0:          # x[:-k] == x[:len-k]
            n = self.__symlen__()
            b = n + b
            if bool(_n(b) < 0):
                b = 0
        if isinstance(a, int) and a < 0:
            n = self.__symlen__() if n is None else n
            a = n + a
            if bool(_n(a) < 0):
                a = 0
        return self._slice(a, b)

    def _slice(self, a, b):
        out = []
        pos = 0   # running offset of the current segment (int or SymNum)
        for s in self.segs:
            ln = s[3]
            # intersect [a, b) with [pos, pos+ln)
            lo = a - pos      # start within the segment
            hi = None if b is None else b - pos
            # clamp (forks on symbolic comparisons: each case is a simple linear term)
            if bool(_n(lo) <= 0):
                lo2 = 0
            elif bool(_n(lo) >= ln):
                lo2 = None
            else:
                lo2 = lo
            if lo2 is not None:
                # strict comparison first: when the request ends exactly at the segment end
                # the piece keeps the (possibly concrete) requested length
                if hi is None or bool(_n(hi) > ln):
                    hi2 = ln
                elif bool(_n(hi) <= lo2):
                    hi2 = None
                else:
                    hi2 = hi
                if hi2 is not None:
                    out.append(_subseg(s, lo2, hi2 - lo2))
            pos = pos + ln
        return Blob(out)

    # -- materialisation ----------------------------------------------------------------
    def materialize(self, n: int):
        """SymBytes of exactly n elements; requires (and checks on this path) length == n."""
        ln = self.__symlen__()
        if isinstance(ln, SymNum):
            if not ctx().proves(ln.t == n):
                raise Unsupported("Blob length not provably %d" % n)
        elif ln != n:
            raise Unsupported("Blob length %r != %d" % (ln, n))
        return self.materialize_prefix(n)

    def materialize_prefix(self, n: int):
        items = []
        for s in self.segs:
            if len(items) >= n:
                break
            need = n - len(items)
            ln = s[3]
            lc = _conc(ln)
            if lc is None:
                # symbolic length: usable only if provably >= need (then we take `need`)
                if not ctx().proves(_n(ln).t >= need):
                    raise Unsupported("cannot materialise across a segment of unknown length")
                lc = need
            k = min(lc, need)
            if s[0] == "zero":
                items.extend([0] * k)
            elif s[0] == "lit":
                items.extend(s[1].items[:k])
            else:
                atom, start = s[1], s[2]
                c = ctx()
                for j in range(k):
                    e = SymNum(z3.Select(atom.arr, _n(start + j).t))
                    c.assume_term(z3.And(e.t >= 0, e.t <= 255))
                    items.append(e)
        if len(items) < n:
            return None
        return SymBytes(items)

    # -- comparison --------------------------------------------------------------------------
    def same(self, o):
        """Structural equality (sufficient, not necessary): same segments, equal starts/lengths."""
        o = Blob.of(o)
        if len(self.segs) != len(o.segs):
            return False
        cs = []
        for s, t in zip(self.segs, o.segs):
            if s[0] != t[0]:
                return False
            if s[0] == "atom":
                if s[1] is not t[1]:
                    return False
                cs.append(_n(s[2]) == _n(t[2]))
                cs.append(_n(s[3]) == _n(t[3]))
            elif s[0] == "zero":
                cs.append(_n(s[3]) == _n(t[3]))
            else:
                cs.append(s[1] == t[1])
        return sym.And(*cs)

    def __eq__(self, o):
        if isinstance(o, (bytes, SymBytes)) and not self.segs:
            return len(o) == 0
        if isinstance(o, (bytes, bytearray)) or (isinstance(o, SymBytes) and o.tail is None):
            # against a literal: equal iff same length and same bytes
            lit = SymBytes.of(o)
            k = len(lit.items)
            n = self.__symlen__()
            if isinstance(n, int):
                if n != k:
                    return False
            elif not bool(n == k):
                return False
            m = self.materialize(k)
            return m == lit
        r = Blob.of(o)
        if r is NotImplemented:
            return False
        return self.same(r)

    def __ne__(self, o):
        return sym.Not(self.__eq__(o))

    def __hash__(self):
        return id(self)

    def key(self):
        """Structural key (no text formatting of symbolic numbers is recorded)."""
        def k(x):
            return z3.simplify(_n(x).t).sexpr()
        out = []
        for s in self.segs:
            if s[0] == "atom":
                out.append(("atom", s[1].name, k(s[2]), k(s[3])))
            elif s[0] == "zero":
                out.append(("zero", k(s[3])))
            else:
                out.append(("lit", tuple(k(x) for x in s[1].items)))
        return tuple(out)

    def __repr__(self):
        return "Blob(%s)" % ", ".join(
            "%s[%s+%s]" % (s[1].name, s[2], s[3]) if s[0] == "atom" else ("0*%s" % (s[3],) if s[0] == "zero" else repr(s[1]))
            for s in self.segs)

    def __deepcopy__(self, memo):
        return self


def _subseg(s, lo, ln):
    if s[0] == "zero":
        return ("zero", None, None, ln)
    if s[0] == "lit":
        lo_c, ln_c = _conc(lo), _conc(ln)
        if lo_c is None or ln_c is None:
            raise Unsupported("symbolic slice of a literal segment")
        return ("lit", SymBytes(s[1].items[lo_c:lo_c + ln_c]), None, ln_c)
    return ("atom", s[1], s[2] + lo, ln)


# --------------------------------------------------------------------------------------------


class SymFile:
    """Ghost file: optional initial content (Blob), position, size, and the log of writes."""

    def __init__(self, content: Blob | None = None, pos=0):
        self.content = content
        self.pos = pos
        self.size = content.__symlen__() if content is not None else 0
        self.writes = []      # [(position, Blob)]
        self.closed = False
        self.reads = 0

    def tell(self):
        return self.pos

    def seek(self, off, whence=0):
        if whence == 0:
            self.pos = off
        elif whence == 1:
            self.pos = self.pos + off
        else:
            self.pos = self.size + off
        return self.pos

    def write(self, b):
        bl = Blob.of(b)
        if bl is NotImplemented:
            raise TypeError("a bytes-like object is required")
        n = bl.__symlen__()
        if not bool(_n(n) > 0):
            return 0            # like io.BytesIO: an empty write neither moves nor extends
        self.writes.append((self.pos, bl))
        self.pos = self.pos + n
        if bool(_n(self.pos) > self.size):
            self.size = self.pos
        return n

    def read(self, n=-1):
        if self.writes:
            raise Unsupported("read after write on a ghost file")
        if self.content is None:
            return b""
        self.reads += 1
        if isinstance(n, int) and n < 0 or n is None:
            r = self.content._slice(self.pos, None)
        else:
            r = self.content._slice(self.pos, self.pos + n)
        self.pos = self.pos + r.__symlen__()
        ln = r.__symlen__()
        if isinstance(ln, int):
            m = r.materialize_prefix(ln)
            if m is not None:
                c = m.concrete()
                return c if c is not None else m
        return r

    def flush(self):
        pass

    def close(self):
        self.closed = True

    def __deepcopy__(self, memo):
        f = SymFile(self.content, self.pos)
        f.size = self.size
        f.writes = list(self.writes)
        return f
