"""placeholder, filled in below"""
RUNTIME = None


def transform(tree, cuts, dropped):
    raise NotImplementedError
